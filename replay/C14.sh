#!/bin/bash
exec "$(dirname "$0")/run_witness.sh" internal/validator "$(dirname "$0")/../findings/C14/locations_test.go" TestReplayC14
