#!/bin/bash
# usage: overlay_test.sh <package dir relative to repo> <test file> [run regexp] [extra go test flags...]
# Injects <test file> into the package as zz_replay_test.go through -overlay (nothing is written to the repo) and runs it.
set -u
REPO=${REPO:-/repo}
PKG=$1; TEST=$(readlink -f "$2"); RUN=${3:-TestReplay}; shift 3 2>/dev/null || shift $#
export GOFLAGS=-mod=mod GOPROXY=off GOSUMDB=off GOTOOLCHAIN=local
TMP=$(mktemp -d /tmp/acv-replay.XXXXXX)
trap 'rm -rf "$TMP"' EXIT
printf '{"Replace":{"%s/%s/zz_replay_test.go":"%s"}}\n' "$REPO" "$PKG" "$TEST" > "$TMP/ov.json"
cd "$REPO" && go test -overlay "$TMP/ov.json" -vet=off -count=1 -timeout 120s -run "$RUN" "$@" "./$PKG"
