#!/bin/bash
# witness harness for C07
exec "$(dirname "$0")/run_witness.sh" internal/validator "$(dirname "$0")/../findings/C07/varnames_test.go" TestReplayC07
