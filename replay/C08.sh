#!/bin/bash
# witness harness for C08 (see govc/replay.go)
exec "$(dirname "$0")/run_witness.sh" internal/validator "$(dirname "$0")/../findings/C08/lookup_test.go" TestReplayC08
