#!/bin/bash
# witness harness for C18 (see govc/replay.go)
exec "$(dirname "$0")/run_witness.sh" cmd/commands/helpers "$(dirname "$0")/../findings/C18/longer_prior_file_test.go" TestReplayC18
