#!/bin/bash
exec "$(dirname "$0")/run_witness.sh" internal/validator "$(dirname "$0")/../findings/C03/report_header_test.go" TestReplayC03
