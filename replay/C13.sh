#!/bin/bash
# witness harness for C13 (see govc/replay.go)
exec "$(dirname "$0")/run_witness.sh" internal/validator "$(dirname "$0")/../findings/C13/text_is_data_test.go" TestReplayC13
