#!/bin/bash
exec "$(dirname "$0")/run_witness.sh" internal/validator "$(dirname "$0")/../findings/C15/rewrites_test.go" TestReplayC15
