#!/bin/bash
exec "$(dirname "$0")/run_witness.sh" internal/validator "$(dirname "$0")/../findings/C01/negated_if_then_else_test.go" TestReplayC01
