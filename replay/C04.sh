#!/bin/bash
# witness harness for C04 (see govc/replay.go)
exec "$(dirname "$0")/run_witness.sh" internal/validator "$(dirname "$0")/../findings/C04/decode_error_test.go" TestReplayC04
