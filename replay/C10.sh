#!/bin/bash
# witness harness for C10: concurrent compilations under the race detector
exec "$(dirname "$0")/run_witness.sh" pkg "$(dirname "$0")/../findings/C10/race_test.go" TestReplayC10 -race
