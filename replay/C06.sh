#!/bin/bash
# witness harness for C06 (see govc/replay.go)
exec "$(dirname "$0")/run_witness.sh" internal/validator "$(dirname "$0")/../findings/C06/map_order_test.go" TestReplayC06
