#!/bin/bash
exec "$(dirname "$0")/run_witness.sh" pkg "$(dirname "$0")/../findings/C11/milestones_test.go" TestReplayC11
