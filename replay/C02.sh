#!/bin/bash
exec "$(dirname "$0")/run_witness.sh" internal/validator "$(dirname "$0")/../findings/C02/alternative_aliasing_test.go" TestReplayC02
