#!/bin/bash
# Witness search for C17: the panic corpus (structured mutations of the fixtures plus raw documents) through the public
# entry points of the working tree. Every distinct panic signature becomes a REPLAY-CONFIRMED line; a crash of the test
# process itself (a panic outside the calling goroutine) is reported the same way.
D=$(dirname "$0")
export C17_BUDGET=${C17_BUDGET:-600}
OUT=$("$D/overlay_test.sh" pkg "$D/../findings/C17/panic_corpus_test.go" TestCorpusC17 -v 2>&1)
echo "$OUT" | tail -25
echo "$OUT" | grep -E "^\s*zz_replay_test.go:[0-9]+: PANIC " | sed -E 's/^\s*zz_replay_test.go:[0-9]+: PANIC //' | sort -u | head -20 | sed 's/^/REPLAY-CONFIRMED panic /'
echo "$OUT" | grep -E "^(panic:|fatal error:)" | sort -u | head -5 | sed 's/^/REPLAY-CONFIRMED process crash: /'
