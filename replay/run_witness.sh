#!/bin/bash
# usage: run_witness.sh <pkg dir> <witness test file> <run pattern> [go test flags]
# Runs a witness corpus through overlay_test.sh; every failing test line becomes a REPLAY-CONFIRMED line.
D=$(dirname "$0")
OUT=$("$D/overlay_test.sh" "$@" 2>&1)
echo "$OUT" | tail -40
echo "$OUT" | grep -E "violated|DATA RACE" | sed 's/^ *//' | sort -u | head -20 | sed 's/^/REPLAY-CONFIRMED /'
