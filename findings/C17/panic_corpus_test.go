package pkg

// Witness corpus for property C17: structured mutations of the repository's own fixtures (and a few raw documents) are
// pushed through the public entry points; every panic is reported with a signature (message class + innermost repository
// frame). Witness search only - the deciding step is the safe:/pre: obligations of govc.
//   C17_BUDGET  number of mutated inputs (default 400), C17_SEED, C17_OUT (JSON summary)

import (
	"encoding/json"
	"fmt"
	"math/rand"
	"os"
	"path/filepath"
	"regexp"
	"runtime/debug"
	"sort"
	"strconv"
	"strings"
	"testing"
)

type c17Case struct{ label, profile, data string }

func c17Frame(stack string) string {
	re := regexp.MustCompile(`github.com/aml-org/amf-custom-validator/([\w/.()*]+)\(`)
	for _, m := range re.FindAllStringSubmatch(stack, -1) {
		f := m[1]
		if strings.Contains(f, "c17") || strings.HasPrefix(f, "pkg.") && strings.Contains(f, "Test") {
			continue
		}
		return f
	}
	return "?"
}

func c17Class(msg string) string {
	msg = regexp.MustCompile(`0x[0-9a-f]+|\[\d+\]|\d+`).ReplaceAllString(msg, "N")
	if len(msg) > 70 {
		msg = msg[:70]
	}
	return msg
}

func c17Run(c c17Case, sigs map[string][]string) {
	call := func(name string, f func()) {
		defer func() {
			if r := recover(); r != nil {
				sig := c17Frame(string(debug.Stack())) + ": " + c17Class(fmt.Sprint(r))
				if len(sigs[sig]) < 3 {
					sigs[sig] = append(sigs[sig], name+" "+c.label)
				}
			}
		}()
		f()
	}
	call("Validate", func() { Validate(c.profile, c.data, false, nil) })
	call("CompileProfile+ValidateCompiled", func() {
		q, err := CompileProfile(c.profile, false, nil)
		if err == nil {
			ValidateCompiled(q, c.data, false, nil)
		}
	})
}

func c17MutateYaml(r *rand.Rand, src string) (string, string) {
	lines := strings.Split(src, "\n")
	if len(lines) < 3 {
		return src, "short"
	}
	i := 1 + r.Intn(len(lines)-1)
	switch r.Intn(6) {
	case 0:
		return strings.Join(append(append([]string{}, lines[:i]...), lines[i+1:]...), "\n"), fmt.Sprintf("delete line %d (%s)", i, strings.TrimSpace(lines[i]))
	case 1:
		if k := strings.Index(lines[i], ":"); k >= 0 {
			v := []string{" []", " {}", " 5", " true", " ~", " zz.unknown", " 'a b'", ""}[r.Intn(8)]
			l2 := append([]string{}, lines...)
			l2[i] = lines[i][:k+1] + v
			return strings.Join(l2, "\n"), fmt.Sprintf("line %d value -> %q", i, v)
		}
	case 2:
		return strings.ReplaceAll(src, "apiContract.", "zz."), "unknown prefix zz."
	case 3:
		return strings.Join(lines[:i], "\n"), fmt.Sprintf("truncate at line %d", i)
	case 4:
		l2 := append([]string{}, lines...)
		l2[i] = strings.Replace(lines[i], "  ", "", 1)
		return strings.Join(l2, "\n"), fmt.Sprintf("dedent line %d", i)
	}
	l2 := append([]string{}, lines...)
	l2[i] = lines[i] + lines[i]
	return strings.Join(l2, "\n"), fmt.Sprintf("duplicate text on line %d", i)
}

func c17MutateJSON(r *rand.Rand, v any, depth int) (any, string) {
	repl := []any{"x", 5.0, nil, []any{}, map[string]any{}, []any{"s", map[string]any{"@id": "http://x/y"}}, true}
	switch x := v.(type) {
	case map[string]any:
		if len(x) == 0 {
			return repl[r.Intn(len(repl))], "empty object replaced"
		}
		keys := make([]string, 0, len(x))
		for k := range x {
			keys = append(keys, k)
		}
		sort.Strings(keys)
		k := keys[r.Intn(len(keys))]
		out := map[string]any{}
		for kk, vv := range x {
			out[kk] = vv
		}
		switch r.Intn(4) {
		case 0:
			delete(out, k)
			return out, "delete key " + k
		case 1:
			out[k] = repl[r.Intn(len(repl))]
			return out, fmt.Sprintf("key %s -> %v", k, out[k])
		default:
			nv, d := c17MutateJSON(r, x[k], depth+1)
			out[k] = nv
			return out, k + "/" + d
		}
	case []any:
		if len(x) == 0 {
			return repl[r.Intn(len(repl))], "empty array replaced"
		}
		i := r.Intn(len(x))
		out := append([]any{}, x...)
		if r.Intn(3) == 0 {
			out[i] = repl[r.Intn(len(repl))]
			return out, fmt.Sprintf("[%d] -> %v", i, out[i])
		}
		nv, d := c17MutateJSON(r, x[i], depth+1)
		out[i] = nv
		return out, fmt.Sprintf("[%d]/%s", i, d)
	}
	return repl[r.Intn(len(repl))], "scalar replaced"
}

func TestCorpusC17(t *testing.T) {
	budget := 400
	if b, err := strconv.Atoi(os.Getenv("C17_BUDGET")); err == nil && b > 0 {
		budget = b
	}
	seed := int64(1)
	if s, err := strconv.ParseInt(os.Getenv("C17_SEED"), 10, 64); err == nil {
		seed = s
	}
	r := rand.New(rand.NewSource(seed))
	root := "../test/data"
	var profiles, datas []string
	filepath.Walk(root, func(p string, info os.FileInfo, err error) error {
		if err == nil && !info.IsDir() && info.Size() < 60000 {
			if strings.HasSuffix(p, ".yaml") {
				profiles = append(profiles, p)
			} else if strings.HasSuffix(p, ".jsonld") && !strings.Contains(p, "report") {
				datas = append(datas, p)
			}
		}
		return nil
	})
	sort.Strings(profiles)
	sort.Strings(datas)
	read := func(p string) string { b, _ := os.ReadFile(p); return string(b) }
	baseProfile := read(filepath.Join(root, "integration/profile1/profile.yaml"))
	baseData := read(filepath.Join(root, "integration/profile1/positive.data.jsonld"))
	sigs := map[string][]string{}
	n := 0
	// raw documents
	for _, d := range []string{"", " ", "[]", "{}", "null", "3", `"x"`, `{"@context":{}}`, `{"@graph":[]}`, `{"@context":5}`, `{"@id":5}`, `[[]]`, `{"@graph":[{"@id":"http://x/a","@type":5}]}`, `{"@graph":[{"@type":"http://x/T"}]}`, "{not json", "\xff\xfe"} {
		c17Run(c17Case{"raw data " + strconv.Quote(d), baseProfile, d}, sigs)
		n++
	}
	for _, p := range []string{"", " ", "[]", "{}", "profile: x", "#%Validation Profile 1.0\n", "- a\n- b\n", "profile: x\nvalidations: {}\nviolation: [a]", "profile: x\nvalidations:\n  a: 5\nviolation: [a]", "\t\x00", "profile: x\nvalidations:\n  a:\n    targetClass: apiContract.WebAPI\n    and: []\nviolation: [a]", "profile: x\nvalidations:\n  a:\n    targetClass: apiContract.WebAPI\n    or: []\nviolation: [a]", "profile: x\nvalidations:\n  a:\n    targetClass: apiContract.WebAPI\n    propertyConstraints: {}\nviolation: [a]", "profile: x\nvalidations:\n  a:\n    targetClass: apiContract.WebAPI\n    propertyConstraints:\n      'core.name )(': {minCount: 1}\nviolation: [a]",
		"profile: x\nvalidations:\n  a:\n    targetClass: apiContract.WebAPI\n    propertyConstraints:\n      ? [a, b]\n      : minCount: 1\nviolation: [a]",
		"profile: x\nvalidations:\n  a:\n    targetClass: apiContract.WebAPI\n    propertyConstraints:\n      core.name:\n        nested:\n          propertyConstraints:\n            ? {x: y}\n            : minCount: 1\nviolation: [a]"} {
		c17Run(c17Case{"raw profile " + strconv.Quote(p), p, baseData}, sigs)
		n++
	}
	// a sequence where a mapping is expected (and the reverse), also with the looked-up key as an element
	for _, body := range []string{
		"validations:\n  v1: [targetClass]\n", "validations:\n  v1: [message, x, targetClass]\n", "validations:\n  v1: [targetClass, apiContract.WebAPI, propertyConstraints]\n",
		"validations:\n  v1:\n    targetClass: apiContract.WebAPI\n    propertyConstraints: [core.name]\n", "validations:\n  v1:\n    targetClass: apiContract.WebAPI\n    if: [propertyConstraints]\n    then: [propertyConstraints, x, not]\n",
		"validations:\n  v1:\n    targetClass: apiContract.WebAPI\n    and: {propertyConstraints: {core.name: {minCount: 1}}}\n", "validations:\n  v1:\n    targetClass: apiContract.WebAPI\n    not: [not]\n",
		"validations:\n  v1:\n    targetClass: apiContract.WebAPI\n    propertyConstraints:\n      core.name:\n        in: {a: b}\n        atLeast: [count, validation]\n", "validations: [v1, validations, v1]\n", "prefixes: [core]\nvalidations:\n  v1:\n    targetClass: apiContract.WebAPI\n",
	} {
		p := "#%Validation Profile 1.0\nprofile: P\nviolation:\n  - v1\n" + body
		c17Run(c17Case{"shape confusion " + strconv.Quote(body), p, baseData}, sigs)
		n++
	}
	// custom rego that interferes with the report rule's own names
	for _, ext := range []string{`violation[x] { x := "boom" }`, `warning[x] { x := 5 }`, `info[x] { x := [1] }`, `violation[x] { x := {"a": 1} }`, `violation[x] { x := {"@type": 5, "trace": 7} }`,
		`violation[x] { x := null }`, `report["profile"] = 5`, `report["extra"] = {"a": [1, 2]}`, `report["violation"] = 5`, `default violation = 3`, `warning = 5`, `trace(a, b, c, d) = 5 { true }`, `find = 3`} {
		p := "#%Validation Profile 1.0\nprofile: P\nviolation:\n  - v1\nvalidations:\n  v1:\n    targetClass: apiContract.WebAPI\n    message: m\n    propertyConstraints:\n      core.name:\n        minCount: 9\nrego_extensions: |\n  " + ext + "\n"
		c17Run(c17Case{"rego_extensions " + strconv.Quote(ext), p, baseData}, sigs)
		n++
	}
	// mappings that repeat a key (yaml.v3 keeps both entries), and one validation with many quantified constraints
	for _, body := range []string{
		"prefixes:\n  ex: http://example.org/a#\n  ex: http://example.org/b#\nvalidations:\n  v1:\n    targetClass: ex.T\n    propertyConstraints:\n      ex.p:\n        minCount: 1\n",
		"validations:\n  v1:\n    targetClass: apiContract.WebAPI\n    propertyConstraints:\n      core.name:\n        minCount: 1\n      core.name:\n        maxCount: 2\n      core.name:\n        pattern: a\n",
		"validations:\n  v1:\n    targetClass: apiContract.WebAPI\n    targetClass: apiContract.EndPoint\n    message: a\n    message: b\n    propertyConstraints:\n      core.name:\n        minCount: 1\n        minCount: 2\n",
		"validations:\n  v1:\n    targetClass: apiContract.WebAPI\n    propertyConstraints:\n      core.name:\n        minCount: 1\n  v1:\n    targetClass: apiContract.WebAPI\n    propertyConstraints:\n      core.name:\n        maxCount: 1\n",
		"violation:\n  - v1\nvalidations:\n  v1:\n    targetClass: apiContract.WebAPI\n    propertyConstraints:\n      core.name:\n        minCount: 1\n",
	} {
		p := "#%Validation Profile 1.0\nprofile: P\nviolation:\n  - v1\n" + body
		c17Run(c17Case{"repeated key " + strconv.Quote(body), p, baseData}, sigs)
		n++
	}
	for _, width := range []int{23, 24, 25, 26, 27, 40} {
		p := "#%Validation Profile 1.0\nprofile: P\nviolation:\n  - v1\nvalidations:\n  v1:\n    targetClass: apiContract.WebAPI\n    message: m\n    propertyConstraints:\n"
		for i := 0; i < width; i++ {
			p += fmt.Sprintf("      apiContract.p%d:\n        nested:\n          propertyConstraints:\n            core.name:\n              minCount: 1\n", i)
		}
		c17Run(c17Case{fmt.Sprintf("one validation with %d nested constraints", width), p, baseData}, sigs)
		n++
	}
	// data numbers the engine cannot represent (its comparison panics with "illegal value")
	for _, num := range []string{"1e99999999999", "-1e99999999999", "1e-99999999999", "1e400", "123456789012345678901234567890123456789012345678901234567890"} {
		p := "#%Validation Profile 1.0\nprofile: P\nviolation:\n  - v1\nvalidations:\n  v1:\n    targetClass: apiContract.WebAPI\n    message: m\n    propertyConstraints:\n      core.name:\n        minInclusive: 1\n      core.version:\n        maxExclusive: 5\n"
		d := `{"@graph":[{"@id":"http://x/api","@type":"http://a.ml/vocabularies/apiContract#WebAPI","http://a.ml/vocabularies/core#name":` + num + `,"http://a.ml/vocabularies/core#version":[` + num + `,1]}]}`
		c17Run(c17Case{"data number " + num, p, d}, sigs)
		n++
	}
	// custom rego that does not parse (in a validation, in rego_extensions)
	for _, body := range []string{"$result = (((", "$result = true }", "x := [1, 2\n      $result = true", "package other\n      $result = true", "import data.x\n      $result = \"", "\"unterminated\n      $result = true"} {
		p := "#%Validation Profile 1.0\nprofile: P\nviolation:\n  - v1\nvalidations:\n  v1:\n    targetClass: apiContract.WebAPI\n    message: m\n    rego: |\n      " + body + "\n"
		c17Run(c17Case{"custom rego that does not parse " + strconv.Quote(body), p, baseData}, sigs)
		p = "#%Validation Profile 1.0\nprofile: P\nviolation:\n  - v1\nrego_extensions: |\n  helper(x) = y {\n  " + body + "\nvalidations:\n  v1:\n    targetClass: apiContract.WebAPI\n    message: m\n    propertyConstraints:\n      core.name:\n        minCount: 1\n"
		c17Run(c17Case{"rego_extensions that do not parse " + strconv.Quote(body), p, baseData}, sigs)
		n += 2
	}
	// custom rego the engine's own compiler panics on (a call in the domain of `every`: "unreachable" in its type checker)
	for _, body := range []string{`every x in [lower("A")] { x == "a" }`, `every k, v in {"a": count([1])} { v == 1 }`, `every x in [http.send({"method": "get", "url": "http://127.0.0.1:1"})] { x == x }`} {
		p := "#%Validation Profile 1.0\nprofile: P\nviolation:\n  - v1\nvalidations:\n  v1:\n    targetClass: apiContract.WebAPI\n    message: m\n    rego: |\n      " + body + "\n      $result = true\n"
		c17Run(c17Case{"custom rego " + strconv.Quote(body), p, baseData}, sigs)
		n++
	}
	for n < budget {
		if r.Intn(2) == 0 && len(profiles) > 0 {
			pf := profiles[r.Intn(len(profiles))]
			m, d := c17MutateYaml(r, read(pf))
			c17Run(c17Case{"profile " + strings.TrimPrefix(pf, root+"/") + ": " + d, m, baseData}, sigs)
		} else if len(datas) > 0 {
			df := datas[r.Intn(len(datas))]
			var v any
			if json.Unmarshal([]byte(read(df)), &v) != nil {
				continue
			}
			mv, d := c17MutateJSON(r, v, 0)
			b, _ := json.Marshal(mv)
			c17Run(c17Case{"data " + strings.TrimPrefix(df, root+"/") + ": " + d, baseProfile, string(b)}, sigs)
		}
		n++
	}
	var keys []string
	for k := range sigs {
		keys = append(keys, k)
	}
	sort.Strings(keys)
	for _, k := range keys {
		t.Logf("PANIC %s  <= %s", k, strings.Join(sigs[k], " | "))
	}
	if out := os.Getenv("C17_OUT"); out != "" {
		b, _ := json.MarshalIndent(map[string]any{"inputs": n, "seed": seed, "panic_signatures": sigs}, "", " ")
		os.WriteFile(out, b, 0644)
	}
	t.Logf("inputs=%d distinct panic signatures=%d", n, len(sigs))
}
