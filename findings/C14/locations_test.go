package validator

// Bounded witness search for property C14: documents whose nodes carry lexical source maps are validated with a profile that
// reports every endpoint; the location of each result must reproduce the recorded range, and its uri must be the file that
// lists the node among its elements (the root location otherwise, "" when the unit has no source information). Scenarios:
// libraries listing one, two and three elements, ranges starting at line 0 and with large magnitudes, no source information,
// the same unit validated twice with nodes moved between files; results and their traces. Witness search only.

import (
	"encoding/json"
	"fmt"
	"sort"
	"strings"
	"testing"
)

const c14Profile = `#%Validation Profile 1.0
profile: Loc
violation:
  - named
validations:
  named:
    message: Endpoints must have a name
    targetClass: apiContract.EndPoint
    propertyConstraints:
      core.name:
        minCount: 1
`

type c14Node struct{ id, rng, file string } // file "" = root

func c14Doc(root string, withInfo bool, nodes []c14Node) string {
	var out []string
	byFile := map[string][]string{}
	var files []string
	for _, n := range nodes {
		out = append(out, fmt.Sprintf(`{"@id": %q, "@type": ["http://a.ml/vocabularies/apiContract#EndPoint"], "http://a.ml/vocabularies/apiContract#path": "/p", "http://a.ml/vocabularies/document-source-maps#sources": [{"@id": "%s/sm"}]}`, n.id, n.id))
		out = append(out, fmt.Sprintf(`{"@id": "%s/sm", "@type": ["http://a.ml/vocabularies/document-source-maps#SourceMap"], "http://a.ml/vocabularies/document-source-maps#lexical": [{"@id": "%s/sm/l1"}, {"@id": "%s/sm/l0"}]}`, n.id, n.id, n.id))
		out = append(out, fmt.Sprintf(`{"@id": "%s/sm/l1", "http://a.ml/vocabularies/document-source-maps#element": %q, "http://a.ml/vocabularies/document-source-maps#value": %q}`, n.id, n.id, n.rng))
		out = append(out, fmt.Sprintf(`{"@id": "%s/sm/l0", "http://a.ml/vocabularies/document-source-maps#element": "http://a.ml/vocabularies/apiContract#path", "http://a.ml/vocabularies/document-source-maps#value": "[(990,1)-(990,9)]"}`, n.id))
		if n.file != "" {
			if _, seen := byFile[n.file]; !seen {
				files = append(files, n.file)
			}
			byFile[n.file] = append(byFile[n.file], n.id)
		}
	}
	if withInfo {
		var refs []string
		for i, f := range files {
			id := fmt.Sprintf("amf://id/info/location_%d", i)
			refs = append(refs, fmt.Sprintf(`{"@id": %q}`, id))
			var els []string
			for _, e := range byFile[f] {
				els = append(els, fmt.Sprintf(`{"@id": %q}`, e))
			}
			out = append(out, fmt.Sprintf(`{"@id": %q, "@type": ["http://a.ml/vocabularies/document#LocationInformation"], "http://a.ml/vocabularies/document#location": %q, "http://a.ml/vocabularies/document#elements": [%s]}`, id, f, strings.Join(els, ",")))
		}
		info := fmt.Sprintf(`{"@id": "amf://id/info", "@type": ["http://a.ml/vocabularies/document#BaseUnitSourceInformation"], "http://a.ml/vocabularies/document#rootLocation": %q`, root)
		if len(refs) > 0 {
			info += `, "http://a.ml/vocabularies/document#additionalLocations": [` + strings.Join(refs, ",") + `]`
		}
		out = append(out, info+"}")
	}
	return `{"@graph": [` + strings.Join(out, ",\n") + `]}`
}

func c14Loc(x any) string {
	loc, ok := x.(map[string]any)
	if !ok {
		return "none"
	}
	rng, _ := loc["range"].(map[string]any)
	s, _ := rng["start"].(map[string]any)
	e, _ := rng["end"].(map[string]any)
	return fmt.Sprintf("%v [(%v,%v)-(%v,%v)]", loc["uri"], s["line"], s["column"], e["line"], e["column"])
}

func c14Check(t *testing.T, scenario, root string, withInfo bool, nodes []c14Node) {
	dec := json.NewDecoder(strings.NewReader(""))
	_ = dec
	rep, err := Validate(c14Profile, c14Doc(root, withInfo, nodes), false, nil)
	if err != nil {
		t.Errorf("C14 violated: %s: validation failed: %v", scenario, strings.Split(err.Error(), "\n")[0])
		return
	}
	var doc []map[string]any
	d := json.NewDecoder(strings.NewReader(rep))
	d.UseNumber()
	if d.Decode(&doc) != nil || len(doc) == 0 {
		t.Errorf("C14 violated: %s: unreadable report", scenario)
		return
	}
	r := doc[0]["doc:encodes"].([]any)[0].(map[string]any)
	got := map[string]string{}
	if res, ok := r["result"].([]any); ok {
		for _, x := range res {
			m := x.(map[string]any)
			key := fmt.Sprintf("%v %v", m["sourceShapeName"], m["focusNode"])
			got[key] = c14Loc(m["location"])
			if tr, ok := m["trace"].([]any); ok {
				for _, y := range tr {
					tm := y.(map[string]any)
					got[key+" trace "+fmt.Sprint(tm["component"])] = c14Loc(tm["location"])
				}
			}
		}
	}
	var keys []string
	for _, n := range nodes {
		uri := root
		if n.file != "" {
			uri = n.file
		}
		if !withInfo {
			uri = ""
		}
		want := uri + " " + n.rng
		for _, k := range []string{"named " + n.id, "named " + n.id + " trace minCount"} {
			keys = append(keys, k)
			if g, ok := got[k]; !ok {
				t.Errorf("C14 violated: %s: %s is not in the report", scenario, k)
			} else if g != want {
				t.Errorf("C14 violated: %s: %s is located at %q, the source maps say %q", scenario, k, g, want)
			}
		}
	}
	sort.Strings(keys)
}

func TestReplayC14Locations(t *testing.T) {
	root := "file:///api/root.raml"
	c14Check(t, "root only", root, true, []c14Node{{"amf://id#1", "[(3,0)-(5,12)]", ""}, {"amf://id#2", "[(7,2)-(9,4)]", ""}})
	c14Check(t, "libraries with one, two and three elements", root, true, []c14Node{
		{"amf://id#1", "[(3,0)-(5,12)]", ""}, {"amf://id#2", "[(7,2)-(9,4)]", "file:///libs/single.raml"},
		{"amf://id#3", "[(11,0)-(12,8)]", "file:///libs/pair.raml"}, {"amf://id#4", "[(14,0)-(15,8)]", "file:///libs/pair.raml"},
		{"amf://id#5", "[(1,0)-(1,1)]", "file:///libs/three.raml"}, {"amf://id#6", "[(2,0)-(2,1)]", "file:///libs/three.raml"}, {"amf://id#7", "[(4,0)-(4,1)]", "file:///libs/three.raml"}})
	c14Check(t, "line zero and large magnitudes", root, true, []c14Node{
		{"amf://id#1", "[(0,0)-(0,0)]", ""}, {"amf://id#2", "[(0,4)-(2,7)]", "file:///libs/single.raml"},
		{"amf://id#3", "[(100000,0)-(100001,250)]", ""}, {"amf://id#4", "[(9007199254740993,1)-(9007199254740995,2)]", "file:///libs/other.raml"}})
	c14Check(t, "no source information", root, false, []c14Node{{"amf://id#1", "[(3,0)-(5,12)]", ""}, {"amf://id#2", "[(7,2)-(9,4)]", ""}})
	// the same unit again with its nodes moved between files: nothing of the earlier validations may survive
	c14Check(t, "unit revisited, nodes moved", root, true, []c14Node{
		{"amf://id#1", "[(3,0)-(5,12)]", "file:///libs/pair.raml"}, {"amf://id#2", "[(7,2)-(9,4)]", ""},
		{"amf://id#3", "[(11,0)-(12,8)]", "file:///libs/single.raml"}, {"amf://id#4", "[(14,0)-(15,8)]", ""}})
	c14Check(t, "no source information, after units that had it", root, false, []c14Node{{"amf://id#1", "[(3,0)-(5,12)]", ""}})
}

// Custom rego may name the node a trace entry is about ($traceNode): the entry is then located at THAT node's recorded range and
// file, whatever way the code spells the assignment, the result itself stays at the focus node, and a constraint that follows
// in the same validation is traced at its own node again.
func TestReplayC14TraceNodeOfCustomRego(t *testing.T) {
	root := "file:///api/root.raml"
	nodes := []c14Node{{"amf://id#1", "[(3,0)-(5,12)]", ""}, {"amf://id#2", "[(7,2)-(9,4)]", "file:///libs/single.raml"}}
	doc := strings.Replace(c14Doc(root, true, nodes), `{"@id": "amf://id#1", "@type":`, `{"@id": "amf://id#1", "http://a.ml/vocabularies/apiContract#next": {"@id": "amf://id#2"}, "@type":`, 1)
	if !strings.Contains(doc, "apiContract#next") {
		t.Errorf("C14 harness: the link between the two nodes could not be added")
		return
	}
	collect := `nexts = collect with data.nodes as [$node] with data.property as "http://a.ml/vocabularies/apiContract#next"` + "\n      n = nexts[_]\n      "
	for _, spelling := range []string{"$traceNode = n", "$traceNode := n", "$traceNode=n", "n = $traceNode"} {
		for _, shape := range []string{"alone", "followed by a constraint in an or"} {
			body := "    rego: |\n      " + collect + spelling + "\n      $result = false\n"
			if shape != "alone" {
				body = "    or:\n      - rego: |\n          " + strings.ReplaceAll(collect, "\n      ", "\n          ") + spelling + "\n          $result = false\n      - propertyConstraints:\n          core.name:\n            minCount: 1\n"
			}
			p := "#%Validation Profile 1.0\nprofile: Loc\nviolation:\n  - linked\nvalidations:\n  linked:\n    message: m\n    targetClass: apiContract.EndPoint\n" + body
			scenario := "custom rego with `" + spelling + "`, " + shape
			rep, err := Validate(p, doc, false, nil)
			if err != nil {
				t.Errorf("C14 violated: %s: validation failed: %v", scenario, strings.Split(err.Error(), "\n")[0])
				continue
			}
			var parsed []map[string]any
			if json.Unmarshal([]byte(rep), &parsed) != nil || len(parsed) == 0 {
				t.Errorf("C14 violated: %s: unreadable report", scenario)
				continue
			}
			r := parsed[0]["doc:encodes"].([]any)[0].(map[string]any)
			res, _ := r["result"].([]any)
			seen := false
			for _, x := range res {
				m, _ := x.(map[string]any)
				if fmt.Sprint(m["focusNode"]) != "amf://id#1" {
					continue
				}
				seen = true
				if got, want := c14Loc(m["location"]), root+" [(3,0)-(5,12)]"; got != want {
					t.Errorf("C14 violated: %s: the result about amf://id#1 is located at %q, the source maps say %q", scenario, got, want)
				}
				tr, _ := m["trace"].([]any)
				for _, y := range tr {
					tm, _ := y.(map[string]any)
					got := c14Loc(tm["location"])
					switch fmt.Sprint(tm["component"]) {
					case "rego":
						if want := "file:///libs/single.raml [(7,2)-(9,4)]"; got != want {
							t.Errorf("C14 violated: %s: the trace entry of the custom rego names amf://id#2 as its node but is located at %q, the source maps say %q", scenario, got, want)
						}
					case "minCount":
						if want := root + " [(3,0)-(5,12)]"; got != want {
							t.Errorf("C14 violated: %s: the trace entry of minCount is about amf://id#1 but is located at %q, the source maps say %q", scenario, got, want)
						}
					}
				}
			}
			if !seen {
				t.Errorf("C14 violated: %s: no result about amf://id#1", scenario)
			}
		}
	}
}
