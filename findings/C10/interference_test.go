package pkg

// Bounded witness suite for property C10 (concurrent validations do not interfere): calls to CompileProfile, Validate,
// ValidateWithConfiguration, ValidateCompiled and ValidateCompiledWithConfiguration made at the same time from several
// goroutines - same or different profiles, one compiled profile shared by all - do not panic, do not deadlock, and each
// returns exactly what the same call returns when it runs alone: the same error-or-not, a byte-identical report (the
// dateCreated of the calls that use the wall clock is masked), the same sequence of events on its own event channel and the
// same closed-or-open state of that channel. A profile compiled concurrently is judged by the report it gives afterwards.
//
// Bound. A catalogue of 53 work items (c10Catalogue) over 16 profiles: profiles relying on the built-in prefixes, profiles
// that rebind built-in prefixes or declare a new one, a profile that uses that prefix undeclared (rejected by the generator),
// profiles rejected by the parser and by the Rego compiler, 24-rule profiles (minCount, maxCount), profiles with path
// sequences / or / nested, three fixtures of test/data/integration; data that conform, violate, carry source maps, reference
// a context document (files under t.TempDir()), are unreadable, have trailing text, or make indexing panic; the default
// configuration and per-item report schema IRIs / clocks / dateCreated switched off; with and without an event channel;
// 15 items share four profiles compiled once. Every item is run alone (pass 1: 53 calls, each also checked against the outcome
// it is built to have - rejected or not, number of results, profile name, its own reportSchema and dateCreated), then alone a
// second time (53 calls, same outcome demanded; if the calls interfere already here the suite stops), then
//   - 8 mixed waves of 13-14 different items (two different partitions of the catalogue into four),
//   - 6 waves of 16 calls over few items (one profile text 16 times; one shared compiled profile with nine report
//     configurations, 4 rounds; compilations only),
//   - 1 free-running phase: 8 goroutines each walk the whole catalogue from their own offset (424 calls),
//   - 4 waves of 16 fresh items (profile names, property paths and node ids never seen before in the process; the reference is
//     taken alone afterwards),
//   - 1 wave of 2 items that revisit a document after the context document it references was rewritten,
// and finally every item is run alone again (pass 2, 53 calls) and must return what it returned in pass 1. In a wave all calls
// start together, and the calls that have an event channel are additionally held through that channel until all of them are
// about to enter the same stage (generation, Rego compilation, input parsing, normalisation, evaluation, report building), so
// that the stages really overlap. 692 concurrent calls in all; a wave has 30 s and a call alone 20 s before it counts as a
// deadlock. The race detector is not needed (outcomes are compared), the suite also passes under -race. Witness search only.

import (
	"encoding/json"
	"fmt"
	"os"
	"path/filepath"
	"regexp"
	"strings"
	"sync"
	"sync/atomic"
	"testing"
	"time"

	c "github.com/aml-org/amf-custom-validator/pkg/config"
	e "github.com/aml-org/amf-custom-validator/pkg/events"
	"github.com/open-policy-agent/opa/rego"
)

type c10Kind int

const (
	c10Compile     c10Kind = iota // CompileProfile; the compiled profile then validates the item's data (alone) with the item's configuration
	c10Validate                   // Validate
	c10ValidateCfg                // ValidateWithConfiguration
	c10Compiled                   // ValidateCompiled on a shared compiled profile
	c10CompiledCfg                // ValidateCompiledWithConfiguration on a shared compiled profile
)

var c10KindName = map[c10Kind]string{c10Compile: "CompileProfile", c10Validate: "Validate", c10ValidateCfg: "ValidateWithConfiguration", c10Compiled: "ValidateCompiled", c10CompiledCfg: "ValidateCompiledWithConfiguration"}

type c10Clock struct{ t time.Time }

func (x c10Clock) ReportCreationTime() time.Time { return x.t }

type c10Item struct {
	label   string
	kind    c10Kind
	profile string // profile text, or the key of the shared compiled profile
	pname   string // profile name
	data    string
	events  bool
	vc      c.ValidationConfiguration
	rc      c.ReportConfiguration
	design  string       // "error", "conforms", "violates" or the number of results
	like    string       // catalogue item with the same stages (fresh items only)
	setup   func() error // brings the files the data reference into the state this item is about
}

type c10Outcome struct {
	failed   bool
	errLine  string
	report   string
	events   string
	panicked string
}

var c10Date = regexp.MustCompile(`"dateCreated": "[^"]*"`)

// ---------------------------------------------------------------------------------------------------------------- profiles

func c10Named(name, prefixes string) string {
	return "#%Validation Profile 1.0\nprofile: " + name + "\n" + prefixes + "violation:\n  - named\nvalidations:\n  named:\n    message: end points must have a name\n    targetClass: apiContract.EndPoint\n    propertyConstraints:\n      core.name:\n        minCount: 1\n"
}

const c10Rebind = "prefixes:\n  apiContract: http://other.example/contract#\n  core: http://other.example/core#\n"

func c10Acme(name, prefixes string) string {
	return "#%Validation Profile 1.0\nprofile: " + name + "\n" + prefixes + "violation:\n  - labelled\nvalidations:\n  labelled:\n    message: things must have a label\n    targetClass: acme.Thing\n    propertyConstraints:\n      acme.label:\n        minCount: 1\n"
}

const c10AcmePrefix = "prefixes:\n  acme: http://acme.example/vocab#\n"

// n rules; rule i constrains apiContract.<pp><i> of every end point (minCount 1, or maxCount 1)
func c10Many(name string, n int, constraint, pp, class string) string {
	var b strings.Builder
	b.WriteString("#%Validation Profile 1.0\nprofile: " + name + "\nviolation:\n")
	for i := 0; i < n; i++ {
		fmt.Fprintf(&b, "  - rule-%d\n", i)
	}
	b.WriteString("validations:\n")
	for i := 0; i < n; i++ {
		fmt.Fprintf(&b, "  rule-%d:\n    targetClass: %s\n    message: about %s%d\n    propertyConstraints:\n      apiContract.%s%d:\n        %s: 1\n", i, class, pp, i, pp, i, constraint)
	}
	return b.String()
}

// n rules over path sequences apiContract.endpoint / apiContract.<pp><i>
func c10Seq(name string, n int, pp string) string {
	var b strings.Builder
	b.WriteString("#%Validation Profile 1.0\nprofile: " + name + "\nwarning:\n")
	for i := 0; i < n; i++ {
		fmt.Fprintf(&b, "  - seq-%d\n", i)
	}
	b.WriteString("validations:\n")
	for i := 0; i < n; i++ {
		fmt.Fprintf(&b, "  seq-%d:\n    targetClass: apiContract.WebAPI\n    message: about %s%d\n    propertyConstraints:\n      apiContract.endpoint / apiContract.%s%d:\n        minCount: 1\n", i, pp, i, pp, i)
	}
	return b.String()
}

const c10Paths = `#%Validation Profile 1.0
profile: Paths
violation:
  - methods
  - slashes
warning:
  - named-or-described
info:
  - operations
validations:
  methods:
    message: only get and post
    targetClass: apiContract.WebAPI
    propertyConstraints:
      apiContract.endpoint / apiContract.supportedOperation / apiContract.method:
        in: [ get, post ]
  slashes:
    message: paths start with a slash
    targetClass: apiContract.WebAPI
    propertyConstraints:
      apiContract.endpoint / apiContract.path:
        pattern: ^/
  named-or-described:
    message: end points have a name or a description
    targetClass: apiContract.EndPoint
    or:
      - propertyConstraints:
          core.name:
            minCount: 1
      - propertyConstraints:
          core.description:
            minCount: 1
  operations:
    message: end points have operations
    targetClass: apiContract.WebAPI
    propertyConstraints:
      apiContract.endpoint:
        nested:
          propertyConstraints:
            apiContract.supportedOperation:
              minCount: 1
`

const c10Thing = `#%Validation Profile 1.0
profile: Things
prefixes:
  ex: http://example.org/
violation:
  - r1
validations:
  r1:
    targetClass: ex.Thing
    message: a thing needs a name
    propertyConstraints:
      ex.name:
        minCount: 1
`

const c10BadYaml = "#%Validation Profile 1.0\nprofile: [\n"

const c10BadPath = "#%Validation Profile 1.0\nprofile: BadPath\nviolation:\n  - v\nvalidations:\n  v:\n    message: m\n    targetClass: apiContract.EndPoint\n    propertyConstraints:\n      core.name / :\n        minCount: 1\n"

var c10BadRego = strings.Replace(c10Named("BadRego", ""), "violation:", "rego_extensions: |\n  this is ( not rego\nviolation:", 1)

// ---------------------------------------------------------------------------------------------------------------------- data

const c10AMF = "http://a.ml/vocabularies/"

func c10Graph(nodes []string) string { return `{"@graph": [` + strings.Join(nodes, ",\n") + `]}` }

func c10EndPoints(tag, contract, core string, n int, named func(int) bool) []string {
	var out []string
	for i := 0; i < n; i++ {
		name := ""
		if named(i) {
			name = fmt.Sprintf(`, "%sname": "n%d"`, core, i)
		}
		out = append(out, fmt.Sprintf(`{"@id": "amf://%s#%d", "@type": ["%sEndPoint"]%s}`, tag, i, contract, name))
	}
	return out
}

// four AMF end points (three unnamed) and three end points of the other vocabulary (one unnamed)
func c10Mixed(tag string) string {
	nodes := c10EndPoints(tag+"/amf", c10AMF+"apiContract#", c10AMF+"core#", 4, func(i int) bool { return i == 0 })
	nodes = append(nodes, c10EndPoints(tag+"/other", "http://other.example/contract#", "http://other.example/core#", 3, func(i int) bool { return i < 2 })...)
	return c10Graph(nodes)
}

func c10AllNamed(tag string) string {
	return c10Graph(c10EndPoints(tag, c10AMF+"apiContract#", c10AMF+"core#", 3, func(int) bool { return true }))
}

// three things, the first one labelled
func c10AcmeData(tag string) string {
	var nodes []string
	for i := 0; i < 3; i++ {
		label := ""
		if i == 0 {
			label = `, "http://acme.example/vocab#label": "l"`
		}
		nodes = append(nodes, fmt.Sprintf(`{"@id": "amf://%s#%d", "@type": ["http://acme.example/vocab#Thing"]%s}`, tag, i, label))
	}
	return c10Graph(nodes)
}

// one end point that has the even numbered properties <pp><i>, each with one value
func c10Evens(tag string, n int, pp string) string {
	var props []string
	for i := 0; i < n; i += 2 {
		props = append(props, fmt.Sprintf(`"%sapiContract#%s%d": "v%d"`, c10AMF, pp, i, i))
	}
	return c10Graph([]string{fmt.Sprintf(`{"@id": "amf://%s#1", "@type": ["%sapiContract#EndPoint"], %s}`, tag, c10AMF, strings.Join(props, ", "))})
}

// an API with four end points: #1 has a path without slash, #2 has neither name nor description and a trace operation, #3 has no operation
func c10API(tag string) string {
	ac, core := c10AMF+"apiContract#", c10AMF+"core#"
	var nodes, refs []string
	for i := 0; i < 4; i++ {
		id := fmt.Sprintf("amf://%s/e%d", tag, i)
		refs = append(refs, fmt.Sprintf(`{"@id": %q}`, id))
		path, method := fmt.Sprintf("/p%d", i), "get"
		extra := fmt.Sprintf(`, "%sname": "e%d"`, core, i)
		if i == 1 {
			path, extra = "p1", fmt.Sprintf(`, "%sdescription": "d"`, core)
		}
		if i == 2 {
			method, extra = "trace", ""
		}
		if i != 3 {
			extra += fmt.Sprintf(`, "%ssupportedOperation": [{"@id": "%s/op"}]`, ac, id)
			nodes = append(nodes, fmt.Sprintf(`{"@id": "%s/op", "@type": ["%sOperation"], "%smethod": %q}`, id, ac, ac, method))
		}
		nodes = append(nodes, fmt.Sprintf(`{"@id": %q, "@type": ["%sEndPoint"], "%spath": %q%s}`, id, ac, ac, path, extra))
	}
	nodes = append(nodes, fmt.Sprintf(`{"@id": "amf://%s/api", "@type": ["%sWebAPI"], "%sendpoint": [%s]}`, tag, ac, ac, strings.Join(refs, ", ")))
	return c10Graph(nodes)
}

// two unnamed end points with lexical source maps, the second one in a library file
func c10Located(tag string) string {
	sm, doc := c10AMF+"document-source-maps#", c10AMF+"document#"
	var nodes []string
	for i := 0; i < 2; i++ {
		id := fmt.Sprintf("amf://%s#%d", tag, i)
		nodes = append(nodes, fmt.Sprintf(`{"@id": %q, "@type": ["%sapiContract#EndPoint"], "%ssources": [{"@id": "%s/sm"}]}`, id, c10AMF, sm, id))
		nodes = append(nodes, fmt.Sprintf(`{"@id": "%s/sm", "@type": ["%sSourceMap"], "%slexical": [{"@id": "%s/sm/l"}]}`, id, sm, sm, id))
		nodes = append(nodes, fmt.Sprintf(`{"@id": "%s/sm/l", "%selement": %q, "%svalue": "[(%d,0)-(%d,9)]"}`, id, sm, id, sm, 3+i, 4+i))
	}
	nodes = append(nodes, fmt.Sprintf(`{"@id": "amf://%s/info/lib", "@type": ["%sLocationInformation"], "%slocation": "file:///%s/lib.raml", "%selements": [{"@id": "amf://%s#1"}]}`, tag, doc, doc, tag, doc, tag))
	nodes = append(nodes, fmt.Sprintf(`{"@id": "amf://%s/info", "@type": ["%sBaseUnitSourceInformation"], "%srootLocation": "file:///%s/root.raml", "%sadditionalLocations": [{"@id": "amf://%s/info/lib"}]}`, tag, doc, doc, tag, doc, tag))
	return c10Graph(nodes)
}

const c10Unreadable = `{"@graph": [`
const c10Trailing = `{"@graph": []} {"@graph": []}`

// a source map whose lexical entry is not a node of the graph: indexing panics, the entry point reports an error
const c10IndexPanic = `{"@graph": [{"@id": "amf://panic/sm", "@type": ["http://a.ml/vocabularies/document-source-maps#SourceMap"], "http://a.ml/vocabularies/document-source-maps#lexical": [{"@id": "amf://panic/missing"}]}]}`

const c10ContextWithName = `{"@context": {"Thing": "http://example.org/Thing", "name": "http://example.org/name"}}`
const c10ContextWithoutName = `{"@context": {"Thing": "http://example.org/Thing", "name": "http://example.org/label"}}`

func c10Referencing(contextFile, tag string) string {
	return fmt.Sprintf(`{"@context": %q, "@graph": [{"@id": "http://example.org/%s", "@type": "Thing", "name": "a"}]}`, contextFile, tag)
}

// ----------------------------------------------------------------------------------------------------------------- catalogue

type c10Suite struct {
	t          *testing.T
	items      []*c10Item
	byLabel    map[string]*c10Item
	ref        map[string]c10Outcome
	shared     map[string]*rego.PreparedEvalQuery
	sharedText map[string]string
	messages   int32
}

const (
	c10Ev  = 1 // the call gets an event channel
	c10Own = 2 // the call gets its own report configuration and clock
)

func (s *c10Suite) add(label string, kind c10Kind, profile, pname, data, design string, flags int) *c10Item {
	i := len(s.items)
	it := &c10Item{label: label, kind: kind, profile: profile, pname: pname, data: data, design: design, events: flags&c10Ev != 0,
		vc: c.TestValidationConfiguration{}, rc: c.DefaultReportConfiguration()}
	if flags&c10Own != 0 {
		slug := regexp.MustCompile(`[^a-z0-9]+`).ReplaceAllString(strings.ToLower(label), "-")
		it.vc = c10Clock{time.Date(2001+i%20, time.Month(1+i%12), 1+i%28, i%24, i%60, 0, 0, time.FixedZone("", (i%5)*3600))}
		it.rc = c.ReportConfiguration{IncludeReportCreationTime: i%3 != 0, ReportSchemaIri: "file:///schemas/" + slug + "/report.yaml", LexicalSchemaIri: "file:///schemas/" + slug + "/lexical.yaml"}
	}
	if kind == c10Validate || kind == c10Compiled {
		it.vc, it.rc = nil, c.DefaultReportConfiguration()
	}
	it.like = label
	s.items = append(s.items, it)
	s.byLabel[label] = it
	return it
}

func c10Fixture(t *testing.T, rel string) string {
	b, err := os.ReadFile(filepath.Join("..", "test", "data", "integration", rel))
	if err != nil {
		t.Errorf("C10 harness: fixture %s: %v", rel, err)
	}
	return string(b)
}

func c10WriteFile(file, content string) func() error {
	return func() error { return os.WriteFile(file, []byte(content), 0644) }
}

// Items that rely on the built-in prefixes come first, the profiles that rebind or declare prefixes after them: in pass 1 an
// item is run before anything that could leak into it.
func c10Catalogue(t *testing.T, dir string) *c10Suite {
	s := &c10Suite{t: t, byLabel: map[string]*c10Item{}, ref: map[string]c10Outcome{}, shared: map[string]*rego.PreparedEvalQuery{}, sharedText: map[string]string{}}
	named, rebound := c10Named("Named", ""), c10Named("Rebound", c10Rebind)
	manyMin, manyMax := c10Many("ManyMin", 24, "minCount", "p", "apiContract.EndPoint"), c10Many("ManyMax", 24, "maxCount", "p", "apiContract.EndPoint")
	s.sharedText["named"], s.sharedText["many-max"], s.sharedText["paths"], s.sharedText["rebound"] = named, manyMax, c10Paths, rebound

	s.add("named on mixed", c10ValidateCfg, named, "Named", c10Mixed("i0"), "3", c10Ev)
	s.add("named on mixed, default configuration", c10Validate, named, "Named", c10Mixed("i1"), "3", 0)
	s.add("named on mixed, own configuration", c10ValidateCfg, named, "Named", c10Mixed("i2"), "3", c10Own)
	s.add("compile named", c10Compile, named, "Named", c10Mixed("i3"), "3", c10Ev)
	s.add("undeclared acme prefix", c10ValidateCfg, c10Acme("AcmeUndeclared", ""), "", c10AcmeData("i4"), "error", c10Ev)
	s.add("compile undeclared acme prefix", c10Compile, c10Acme("AcmeUndeclared", ""), "", c10AcmeData("i5"), "error", 0)
	s.add("paths on api", c10ValidateCfg, c10Paths, "Paths", c10API("i6"), "4", c10Ev|c10Own)
	s.add("compile paths", c10Compile, c10Paths, "Paths", c10API("i7"), "4", c10Ev)
	s.add("many-min on evens", c10ValidateCfg, manyMin, "ManyMin", c10Evens("i8", 24, "p"), "12", c10Ev)
	s.add("many-max on evens", c10ValidateCfg, manyMax, "ManyMax", c10Evens("i9", 24, "p"), "0", c10Ev|c10Own)
	s.add("compile many-min", c10Compile, manyMin, "ManyMin", c10Evens("i10", 24, "p"), "12", 0)
	s.add("compile many-max", c10Compile, manyMax, "ManyMax", c10Evens("i11", 24, "p"), "0", c10Ev|c10Own)
	s.add("named on located", c10ValidateCfg, named, "Named", c10Located("i12"), "2", c10Ev)
	s.add("named on empty graph", c10ValidateCfg, named, "Named", c10Graph(nil), "0", c10Own)
	s.add("named on all named", c10ValidateCfg, named, "Named", c10AllNamed("i14"), "0", c10Ev|c10Own)
	s.add("named on all named, default configuration", c10Validate, named, "Named", c10AllNamed("i15"), "0", c10Ev)
	s.add("named on unreadable data", c10ValidateCfg, named, "", c10Unreadable, "error", c10Ev)
	s.add("named on data with trailing text", c10Validate, named, "", c10Trailing, "error", 0)
	s.add("named on data that makes indexing panic", c10ValidateCfg, named, "", c10IndexPanic, "error", c10Ev)
	s.add("profile that is not YAML", c10ValidateCfg, c10BadYaml, "", c10Mixed("i19"), "error", c10Ev)
	s.add("compile profile with a malformed path", c10Compile, c10BadPath, "", c10Mixed("i20"), "error", c10Ev)
	s.add("profile with malformed rego_extensions", c10ValidateCfg, c10BadRego, "", c10Mixed("i21"), "error", c10Ev)
	s.add("sequences on api", c10ValidateCfg, c10Seq("Sequences", 8, "s"), "Sequences", c10API("i22"), "8", c10Own)
	for _, n := range []string{"6", "10", "16"} {
		profile := c10Fixture(t, "profile"+n+"/profile.yaml")
		pname := map[string]string{"6": "Test6", "10": "Kiali", "16": "Anypoint Best Practices"}[n]
		s.add("fixture "+n+" negative", c10ValidateCfg, profile, pname, c10Fixture(t, "profile"+n+"/negative.data.jsonld"), "violates", c10Ev)
		s.add("fixture "+n+" positive", c10ValidateCfg, profile, pname, c10Fixture(t, "profile"+n+"/positive.data.jsonld"), "conforms", c10Own)
	}
	s.add("compile fixture 6, lexical negative", c10Compile, c10Fixture(t, "profile6/profile.yaml"), "Test6", c10Fixture(t, "profile6/negative.data.lexical.jsonld"), "violates", 0)
	// one compiled profile shared by many calls
	s.add("shared named on mixed", c10CompiledCfg, "named", "Named", c10Mixed("i30"), "3", c10Ev|c10Own)
	s.add("shared named on mixed, default configuration", c10Compiled, "named", "Named", c10Mixed("i31"), "3", c10Ev)
	s.add("shared named on empty graph", c10CompiledCfg, "named", "Named", c10Graph(nil), "0", c10Ev|c10Own)
	s.add("shared named on all named", c10CompiledCfg, "named", "Named", c10AllNamed("i33"), "0", c10Own)
	for k := 2; k <= 7; k++ {
		s.add(fmt.Sprintf("shared named on all named, configuration %d", k), c10CompiledCfg, "named", "Named", c10AllNamed("i34"), "0", c10Ev|c10Own)
	}
	s.add("shared named on unreadable data", c10CompiledCfg, "named", "", c10Unreadable, "error", c10Ev)
	s.add("shared named on data that makes indexing panic", c10Compiled, "named", "", c10IndexPanic, "error", 0)
	s.add("shared many-max on evens", c10CompiledCfg, "many-max", "ManyMax", c10Evens("i37", 24, "p"), "0", c10Ev|c10Own)
	s.add("shared paths on api", c10CompiledCfg, "paths", "Paths", c10API("i38"), "4", c10Ev)
	// data that reference a context document
	withName, withoutName := filepath.Join(dir, "context-1.jsonld"), filepath.Join(dir, "context-2.jsonld")
	s.add("things, context with name", c10ValidateCfg, c10Thing, "Things", c10Referencing(withName, "i39"), "0", c10Ev).setup = c10WriteFile(withName, c10ContextWithName)
	s.add("things, context without name", c10ValidateCfg, c10Thing, "Things", c10Referencing(withoutName, "i40"), "1", 0).setup = c10WriteFile(withoutName, c10ContextWithoutName)
	// profiles that rebind built-in prefixes or declare their own
	s.add("rebound on mixed", c10ValidateCfg, rebound, "Rebound", c10Mixed("i41"), "1", c10Ev)
	s.add("rebound on mixed, default configuration", c10Validate, rebound, "Rebound", c10Mixed("i42"), "1", 0)
	s.add("compile rebound", c10Compile, rebound, "Rebound", c10Mixed("i43"), "1", c10Ev|c10Own)
	s.add("shared rebound on mixed", c10CompiledCfg, "rebound", "Rebound", c10Mixed("i44"), "1", c10Ev)
	s.add("declared acme prefix", c10ValidateCfg, c10Acme("AcmeDeclared", c10AcmePrefix), "AcmeDeclared", c10AcmeData("i45"), "2", c10Ev)
	s.add("compile declared acme prefix", c10Compile, c10Acme("AcmeDeclared", c10AcmePrefix), "AcmeDeclared", c10AcmeData("i46"), "2", 0)
	s.add("rebound many-min on evens", c10ValidateCfg, strings.Replace(c10Many("ReboundMany", 12, "minCount", "p", "apiContract.EndPoint"), "violation:", c10Rebind+"violation:", 1), "ReboundMany", c10Evens("i47", 12, "p"), "0", c10Ev|c10Own)
	return s
}

// the same documents again after the context documents they reference were exchanged
func (s *c10Suite) revisits(dir string) []*c10Item {
	withName, withoutName := filepath.Join(dir, "context-1.jsonld"), filepath.Join(dir, "context-2.jsonld")
	a := s.add("things, context 1 rewritten without name", c10ValidateCfg, c10Thing, "Things", c10Referencing(withName, "i39"), "1", c10Ev)
	a.setup = c10WriteFile(withName, c10ContextWithoutName)
	b := s.add("things, context 2 rewritten with name", c10ValidateCfg, c10Thing, "Things", c10Referencing(withoutName, "i40"), "0", 0)
	b.setup = c10WriteFile(withoutName, c10ContextWithName)
	return []*c10Item{a, b}
}

// sixteen items nothing of which (profile name, property paths, node ids) has been seen by the process before
func (s *c10Suite) fresh(round int) []*c10Item {
	var out []*c10Item
	for slot := 0; slot < 16; slot++ {
		tag := fmt.Sprintf("r%ds%d", round, slot)
		var it *c10Item
		switch slot % 4 {
		case 0:
			it = s.add("fresh many-min "+tag, c10ValidateCfg, c10Many("Fresh"+tag, 12, "minCount", "f_"+tag+"_", "apiContract.EndPoint"), "Fresh"+tag, c10Evens(tag, 12, "f_"+tag+"_"), "6", c10Ev)
			it.like = "many-min on evens"
		case 1:
			it = s.add("fresh rejected "+tag, c10ValidateCfg, c10Many("Fresh"+tag, 30, "minCount", "g_"+tag+"_", "acme.Thing"), "", c10AcmeData(tag), "error", c10Ev)
			it.like = "undeclared acme prefix"
		case 2:
			it = s.add("fresh compile sequences "+tag, c10Compile, c10Seq("Fresh"+tag, 6, "h_"+tag+"_"), "Fresh"+tag, c10API(tag), "6", 0)
		case 3:
			it = s.add("fresh many-max "+tag, c10ValidateCfg, c10Many("Fresh"+tag, 8, "maxCount", "k_"+tag+"_", "apiContract.EndPoint"), "Fresh"+tag, c10Evens(tag, 8, "k_"+tag+"_"), "0", c10Ev|c10Own)
			it.like = "many-max on evens"
		}
		out = append(out, it)
	}
	return out
}

// ------------------------------------------------------------------------------------------------------------------ running

func (s *c10Suite) violated(format string, args ...any) {
	if n := atomic.AddInt32(&s.messages, 1); n <= 40 {
		s.t.Errorf("C10 violated: "+format, args...)
	}
}

// c10Exec makes the call of the item. gate, when given, is told every event just received: while it blocks, the call is held at
// its next event.
func c10Exec(it *c10Item, shared *rego.PreparedEvalQuery, gate func(e.EventType)) (out c10Outcome, compiled *rego.PreparedEvalQuery) {
	var chp *chan e.Event
	var seen []string
	returned, drained := make(chan struct{}), make(chan struct{})
	if it.events {
		ch := make(chan e.Event)
		chp = &ch
		go func() {
			defer close(drained)
			for {
				select {
				case ev, open := <-ch:
					if !open {
						seen = append(seen, "closed")
						return
					}
					seen = append(seen, fmt.Sprint(int(ev.EventType)))
					if gate != nil {
						gate(ev.EventType)
					}
				case <-returned:
					select {
					case _, open := <-ch:
						if !open {
							seen = append(seen, "closed")
						}
					default:
					}
					return
				}
			}
		}()
	} else {
		close(drained)
	}
	var report string
	var err error
	func() {
		defer func() {
			if r := recover(); r != nil {
				out.panicked = strings.Split(fmt.Sprint(r), "\n")[0]
			}
		}()
		switch it.kind {
		case c10Compile:
			compiled, err = CompileProfile(it.profile, false, chp)
		case c10Validate:
			report, err = Validate(it.profile, it.data, false, chp)
		case c10ValidateCfg:
			report, err = ValidateWithConfiguration(it.profile, it.data, false, chp, it.vc, it.rc)
		case c10Compiled:
			report, err = ValidateCompiled(shared, it.data, false, chp)
		case c10CompiledCfg:
			report, err = ValidateCompiledWithConfiguration(shared, it.data, false, chp, it.vc, it.rc)
		}
	}()
	close(returned)
	<-drained
	out.events = strings.Join(seen, " ")
	if err != nil {
		out.failed, out.errLine = true, strings.Split(err.Error(), "\n")[0]
		if len(out.errLine) > 120 {
			out.errLine = out.errLine[:120] + "..."
		}
		compiled = nil
	}
	if it.kind == c10Validate || it.kind == c10Compiled {
		report = c10Date.ReplaceAllString(report, `"dateCreated": "<now>"`)
	}
	out.report = report
	return out, compiled
}

// c10Finish: what a compiled profile is worth is the report it gives (called when nothing else runs)
func c10Finish(it *c10Item, out c10Outcome, compiled *rego.PreparedEvalQuery) c10Outcome {
	if it.kind != c10Compile || out.failed || out.panicked != "" {
		return out
	}
	if compiled == nil {
		out.report = "no compiled profile and no error"
		return out
	}
	defer func() {
		if r := recover(); r != nil {
			out.report = "evaluation of the compiled profile panics: " + strings.Split(fmt.Sprint(r), "\n")[0]
		}
	}()
	report, err := ValidateCompiledWithConfiguration(compiled, it.data, false, nil, it.vc, it.rc)
	if err != nil {
		out.report = "evaluation of the compiled profile fails: " + strings.Split(err.Error(), "\n")[0]
	} else {
		out.report = report
	}
	return out
}

func c10Results(report string) (n int, encoded map[string]any, context map[string]any, ok bool) {
	var doc []map[string]any
	if json.Unmarshal([]byte(report), &doc) != nil || len(doc) != 1 {
		return 0, nil, nil, false
	}
	enc, _ := doc[0]["doc:encodes"].([]any)
	if len(enc) != 1 {
		return 0, nil, nil, false
	}
	encoded, _ = enc[0].(map[string]any)
	context, _ = doc[0]["@context"].(map[string]any)
	res, _ := encoded["result"].([]any)
	return len(res), encoded, context, encoded != nil && context != nil
}

func c10Describe(out c10Outcome) string {
	switch {
	case out.panicked != "":
		return "panics (" + out.panicked + ")"
	case out.failed:
		return "fails (" + out.errLine + ")"
	}
	if n, enc, _, ok := c10Results(out.report); ok {
		return fmt.Sprintf("returns a report of %d bytes with %d results, conforms=%v", len(out.report), n, enc["conforms"])
	}
	r := out.report
	if len(r) > 80 {
		r = r[:80] + "..."
	}
	return fmt.Sprintf("returns %d bytes that are not one report (%q)", len(out.report), r)
}

// c10Diff: "" when the two outcomes are the same
func c10Diff(got, want c10Outcome, alone string) string {
	switch {
	case got.panicked != want.panicked || got.failed != want.failed:
		return "it " + c10Describe(got) + ", " + alone + " it " + c10Describe(want)
	case got.report != want.report:
		at := 0
		for at < len(got.report) && at < len(want.report) && got.report[at] == want.report[at] {
			at++
		}
		cut := func(s string) string {
			from, to := at-20, at+40
			if from < 0 {
				from = 0
			}
			if to > len(s) {
				to = len(s)
			}
			return strings.Join(strings.Fields(s[from:to]), " ")
		}
		return fmt.Sprintf("it %s, %s it %s; first difference at byte %d: %q, %s %q", c10Describe(got), alone, c10Describe(want), at, cut(got.report), alone, cut(want.report))
	case got.events != want.events:
		return fmt.Sprintf("its event channel saw [%s], %s [%s]", got.events, alone, want.events)
	}
	return ""
}

// c10Designed: "" when the outcome is the one the item is built to have when nothing interferes
func c10Designed(it *c10Item, out c10Outcome) string {
	if out.panicked != "" {
		return "it panics: " + out.panicked
	}
	if it.design == "error" {
		if !out.failed {
			return "it " + c10Describe(out) + "; this call has to be rejected"
		}
		return ""
	}
	if out.failed {
		return "it " + c10Describe(out) + "; this call has to return a report (" + it.design + ")"
	}
	n, enc, ctx, ok := c10Results(out.report)
	if !ok {
		return "it " + c10Describe(out)
	}
	conforms, _ := enc["conforms"].(bool)
	switch it.design {
	case "conforms", "violates":
		if conforms != (it.design == "conforms") {
			return fmt.Sprintf("it reports conforms=%v with %d results, the data %s", conforms, n, it.design)
		}
	default:
		if fmt.Sprint(n) != it.design {
			return fmt.Sprintf("it reports %d results, the data have %s nodes that break a rule of the profile", n, it.design)
		}
	}
	if enc["profileName"] != it.pname {
		return fmt.Sprintf("its report is about profile %q, the call was made with profile %q", enc["profileName"], it.pname)
	}
	if want := it.rc.ReportSchemaIri + "#/declarations/"; ctx["reportSchema"] != want {
		return fmt.Sprintf("its report declares reportSchema %q, the configuration of the call says %q", ctx["reportSchema"], want)
	}
	date, present := enc["dateCreated"]
	switch {
	case present != it.rc.IncludeReportCreationTime:
		return fmt.Sprintf("dateCreated present=%v, the configuration of the call says %v", present, it.rc.IncludeReportCreationTime)
	case present && it.vc != nil && date != it.vc.ReportCreationTime().Format(time.RFC3339):
		return fmt.Sprintf("dateCreated is %v, the clock of the call says %s", date, it.vc.ReportCreationTime().Format(time.RFC3339))
	}
	return ""
}

// sharedFor compiles a shared profile the first time an item needs it (pass 1, nothing else running)
func (s *c10Suite) sharedFor(it *c10Item) *rego.PreparedEvalQuery {
	if it.kind != c10Compiled && it.kind != c10CompiledCfg {
		return nil
	}
	if q, ok := s.shared[it.profile]; ok {
		return q
	}
	var q *rego.PreparedEvalQuery
	var err error
	if !c10Within(20*time.Second, func() { q, err = CompileProfile(s.sharedText[it.profile], false, nil) }) {
		s.t.Fatalf("C10 violated: CompileProfile of the shared profile %q, nothing else running, did not return within 20 s", it.profile)
	}
	if err != nil || q == nil {
		s.t.Fatalf("C10 harness: the shared profile %q does not compile: %v", it.profile, err)
	}
	s.shared[it.profile] = q
	return q
}

func c10Within(limit time.Duration, f func()) bool {
	done := make(chan struct{})
	go func() { defer close(done); f() }()
	select {
	case <-done:
		return true
	case <-time.After(limit):
		return false
	}
}

// alone runs the item with nothing else running
func (s *c10Suite) alone(it *c10Item, after string) c10Outcome {
	if it.setup != nil {
		if err := it.setup(); err != nil {
			s.t.Fatalf("C10 harness: %s: %v", it.label, err)
		}
	}
	shared := s.sharedFor(it)
	var out c10Outcome
	if !c10Within(20*time.Second, func() {
		o, q := c10Exec(it, shared, nil)
		out = c10Finish(it, o, q)
	}) {
		s.t.Fatalf("C10 violated: %s (%s): the call, nothing else running, did not return within 20 s%s", it.label, c10KindName[it.kind], after)
	}
	return out
}

type c10Gate struct {
	mu      sync.Mutex
	n, here int
	open    chan struct{}
}

func (g *c10Gate) wait() {
	g.mu.Lock()
	g.here++
	if g.here == g.n {
		close(g.open)
	}
	g.mu.Unlock()
	select {
	case <-g.open:
	case <-time.After(time.Second): // the calls do not go through the stages they go through alone: do not insist
	}
}

// wave starts all items together; fresh items get their reference afterwards
func (s *c10Suite) wave(name string, items []*c10Item, fresh bool) {
	gates := map[e.EventType]*c10Gate{}
	shared := make([]*rego.PreparedEvalQuery, len(items))
	for i, it := range items {
		if it.setup != nil {
			if err := it.setup(); err != nil {
				s.t.Fatalf("C10 harness: %s: %v", it.label, err)
			}
		}
		shared[i] = s.sharedFor(it)
		if !it.events {
			continue
		}
		// hold the call after every event that ends a stage, i.e. right before the next stage
		for _, ev := range strings.Fields(s.ref[it.like].events) {
			for _, ty := range []e.EventType{e.ProfileParsingDone, e.RegoGenerationDone, e.RegoCompilationDone, e.InputDataParsingDone, e.InputDataNormalizationDone, e.OpaValidationDone} {
				if ev == fmt.Sprint(int(ty)) {
					if gates[ty] == nil {
						gates[ty] = &c10Gate{open: make(chan struct{})}
					}
					gates[ty].n++
				}
			}
		}
	}
	gate := func(ty e.EventType) {
		if g := gates[ty]; g != nil {
			g.wait()
		}
	}
	outs := make([]c10Outcome, len(items))
	compiled := make([]*rego.PreparedEvalQuery, len(items))
	var back int32
	start := make(chan struct{})
	var wg sync.WaitGroup
	for i := range items {
		wg.Add(1)
		go func(i int) {
			defer wg.Done()
			<-start
			outs[i], compiled[i] = c10Exec(items[i], shared[i], gate)
			atomic.AddInt32(&back, 1)
		}(i)
	}
	if !c10Within(30*time.Second, func() { close(start); wg.Wait() }) {
		s.t.Fatalf("C10 violated: wave %q: %d of the %d concurrent calls did not return within 30 s", name, len(items)-int(atomic.LoadInt32(&back)), len(items))
	}
	for i, it := range items {
		got := c10Finish(it, outs[i], compiled[i])
		if fresh {
			want := s.alone(it, " (after wave "+name+")")
			s.ref[it.label] = want
			if d := c10Designed(it, want); d != "" {
				s.violated("%s (%s): run alone after wave %q %s", it.label, c10KindName[it.kind], name, d)
			}
		}
		if d := c10Diff(got, s.ref[it.label], "alone"); d != "" {
			s.violated("wave %q, call %d of %d, %s (%s): %s", name, i+1, len(items), it.label, c10KindName[it.kind], d)
		}
	}
}

// freeRun: every goroutine walks the whole catalogue, starting at its own offset, no synchronisation at all
func (s *c10Suite) freeRun(items []*c10Item, goroutines int) {
	shared := make([]*rego.PreparedEvalQuery, len(items))
	for i, it := range items {
		shared[i] = s.sharedFor(it)
	}
	var back int32
	var wg sync.WaitGroup
	for g := 0; g < goroutines; g++ {
		wg.Add(1)
		go func(g int) {
			defer wg.Done()
			for k := range items {
				i := (k + g*len(items)/goroutines) % len(items)
				o, q := c10Exec(items[i], shared[i], nil)
				// the compiled profile is evaluated while the other goroutines go on: that is a concurrent call as well
				if d := c10Diff(c10Finish(items[i], o, q), s.ref[items[i].label], "alone"); d != "" {
					s.violated("free run, goroutine %d of %d, %s (%s): %s", g+1, goroutines, items[i].label, c10KindName[items[i].kind], d)
				}
			}
			atomic.AddInt32(&back, 1)
		}(g)
	}
	if !c10Within(60*time.Second, wg.Wait) {
		s.t.Fatalf("C10 violated: free run: %d of the %d goroutines did not finish within 60 s", goroutines-int(atomic.LoadInt32(&back)), goroutines)
	}
}

func (s *c10Suite) pick(labels ...string) []*c10Item {
	var out []*c10Item
	for _, l := range labels {
		it := s.byLabel[l]
		if it == nil {
			s.t.Fatalf("C10 harness: no item %q", l)
		}
		out = append(out, it)
	}
	return out
}

func c10Times(n int, labels ...string) []string {
	var out []string
	for i := 0; i < n; i++ {
		out = append(out, labels[i%len(labels)])
	}
	return out
}

func TestReplayC10Concurrent(t *testing.T) {
	began := time.Now()
	dir := t.TempDir()
	s := c10Catalogue(t, dir)
	if t.Failed() {
		return
	}
	catalogue := append([]*c10Item(nil), s.items...)

	// pass 1: every item alone, and what it is designed to return
	previous := ""
	for _, it := range catalogue {
		out := s.alone(it, previous)
		s.ref[it.label] = out
		if d := c10Designed(it, out); d != "" {
			s.violated("%s (%s): run alone%s %s", it.label, c10KindName[it.kind], previous, d)
		}
		previous = " (the call before it was: " + it.label + ")"
	}

	// ... and alone once more, now that every other item has run: nothing may have stayed behind
	for _, it := range catalogue {
		if d := c10Diff(s.alone(it, " (second run alone)"), s.ref[it.label], "the first time"); d != "" {
			s.violated("%s (%s): run alone a second time, after every item of the catalogue had run alone, %s", it.label, c10KindName[it.kind], d)
		}
	}
	t.Logf("pass 1: %d items, %v", len(catalogue), time.Since(began))
	if atomic.LoadInt32(&s.messages) > 0 {
		t.Logf("the calls interfere already when they are made one after the other: the concurrent phases are not run")
		return
	}
	// mixed waves: two partitions of the catalogue into 4 waves
	for _, stride := range []int{1, 7} {
		for w := 0; w < 4; w++ {
			var items []*c10Item
			for k := w; k < len(catalogue); k += 4 {
				items = append(items, catalogue[(k*stride)%len(catalogue)])
			}
			s.wave(fmt.Sprintf("mixed %d/4, stride %d", w+1, stride), items, false)
		}
	}
	// waves of few distinct items
	s.wave("one profile text 16 times", s.pick(c10Times(16, "many-min on evens", "many-min on evens", "many-max on evens", "compile many-min")...), false)
	for round := 1; round <= 4; round++ {
		s.wave(fmt.Sprintf("one compiled profile shared by 16 calls, round %d", round), s.pick("shared named on mixed", "shared named on empty graph", "shared named on all named", "shared named on all named, configuration 2",
			"shared named on all named, configuration 3", "shared named on all named, configuration 4", "shared named on all named, configuration 5", "shared named on all named, configuration 6",
			"shared named on all named, configuration 7", "shared named on mixed, default configuration", "shared named on unreadable data", "shared named on data that makes indexing panic",
			"shared named on mixed", "shared named on empty graph", "shared named on mixed, default configuration", "shared named on all named"), false)
	}
	s.wave("compilations only", s.pick(c10Times(16, "compile named", "compile rebound", "compile many-min", "compile many-max", "compile paths", "compile undeclared acme prefix", "compile declared acme prefix", "compile profile with a malformed path")...), false)

	t.Logf("waves done %v", time.Since(began))
	s.freeRun(catalogue, 8)
	t.Logf("free run done %v", time.Since(began))

	for round := 1; round <= 4; round++ {
		s.wave(fmt.Sprintf("fresh items, round %d", round), s.fresh(round), true)
	}

	t.Logf("fresh waves done %v", time.Since(began))
	revisits := s.revisits(dir)
	for _, it := range revisits {
		out := s.alone(it, "")
		s.ref[it.label] = out
		if d := c10Designed(it, out); d != "" {
			s.violated("%s (%s): run alone after the context document was rewritten %s", it.label, c10KindName[it.kind], d)
		}
	}
	s.wave("documents revisited", revisits, false)

	t.Logf("revisits done %v", time.Since(began))
	// pass 2: every item alone again
	for _, it := range catalogue {
		if d := c10Diff(s.alone(it, " (pass 2)"), s.ref[it.label], "before them"); d != "" {
			s.violated("%s (%s): run alone after the concurrent phases %s", it.label, c10KindName[it.kind], d)
		}
	}
	if n := atomic.LoadInt32(&s.messages); n > 40 {
		t.Errorf("C10 violated: %d further violations not shown", n-40)
	}
}
