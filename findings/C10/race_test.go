package pkg

// Witness for property C10 / obligation frame:pkg.CompileProfile#no-unsynchronised-package-state
// run with: go test -race

import (
	"sync"
	"testing"
)

const raceProfile = `#%Validation Profile 1.0
profile: Race
violation:
  - v1
validations:
  v1:
    targetClass: apiContract.WebAPI
    message: m
    propertyConstraints:
      core.name:
        minCount: 1
      apiContract.endpoint / apiContract.path:
        pattern: ^/
`

func TestReplayC10Race(t *testing.T) {
	var wg sync.WaitGroup
	for i := 0; i < 8; i++ {
		wg.Add(1)
		go func() {
			defer wg.Done()
			for k := 0; k < 5; k++ {
				if _, err := CompileProfile(raceProfile, false, nil); err != nil {
					t.Error(err)
				}
			}
		}()
	}
	wg.Wait()
}
