package validator

// Bounded witness search for property C01, second suite: EVERY constraint kind of the profile language as the atom of a
// formula. The truth-table suite (truth_table_test.go) uses minCount as its only atom; the generator has a separate template,
// with a separate negated form, for every kind. For each kind there are two nodes on which the constraint, read as the
// documentation reads it, holds (node H) and fails (node F) - single-valued wherever the kind allows it, so that the recorded
// non-classical negation of multi-valued leaves (finding F2) plays no part. Each kind is validated as: k, not k, not not k,
// if k then never, if k then never else always, or [k, never], and [k, always], if never then k, not (k and always),
// k on an inverse path (where the kind is about the values of a path) - never / always being a constraint no node / every
// node satisfies. The reported nodes must be exactly those on which the formula, read classically, is false.
// 27 kinds x 9 formulas. Witness search only.

import (
	"encoding/json"
	"fmt"
	"sort"
	"strings"
	"testing"
)

type c01Kind struct {
	name       string
	constraint string // YAML of the constraint body under the property ex.p (indented by the harness)
	holds      string // JSON members of node H (besides @id / @type)
	fails      string // JSON members of node F
	extra      string // further nodes of the graph (JSON objects, comma separated), e.g. children
}

const c01Ex = "http://example.org/k#"

func c01KindTable() []c01Kind {
	p := func(v string) string { return `"` + c01Ex + `p": ` + v }
	pq := func(a, b string) string { return `"` + c01Ex + `p": ` + a + `, "` + c01Ex + `q": ` + b }
	child := func(id string, named bool) string {
		s := `{"@id": "http://example.org/` + id + `", "@type": ["` + c01Ex + `Child"]`
		if named {
			s += `, "` + c01Ex + `name": "n"`
		}
		return s + "}"
	}
	link := func(id string) string { return p(`{"@id": "http://example.org/` + id + `"}`) }
	nestedBody := "propertyConstraints:\n  ex.name:\n    minCount: 1\n"
	return []c01Kind{
		{"minCount", "minCount: 1", p(`"v"`), `"` + c01Ex + `other": "v"`, ""},
		{"maxCount", "maxCount: 1", p(`"v"`), p(`["v", "w"]`), ""},
		{"exactCount", "exactCount: 1", p(`"v"`), p(`["v", "w"]`), ""},
		{"pattern", "pattern: ^a", p(`"abc"`), p(`"xbc"`), ""},
		{"in", "in: [a, b]", p(`"a"`), p(`"z"`), ""},
		{"in (numbers)", "in: [1, 2]", p(`1`), p(`3`), ""},
		{"containsAll", "containsAll: [a, b]", p(`["a", "b"]`), p(`["a"]`), ""},
		{"containsSome", "containsSome: [a, b]", p(`["a", "z"]`), p(`["y", "z"]`), ""},
		{"minInclusive", "minInclusive: 5", p(`5`), p(`3`), ""},
		{"maxInclusive", "maxInclusive: 5", p(`5`), p(`7`), ""},
		{"minExclusive", "minExclusive: 5", p(`6`), p(`5`), ""},
		{"maxExclusive", "maxExclusive: 5", p(`4`), p(`5`), ""},
		{"minInclusive (float)", "minInclusive: 2.5", p(`2.5`), p(`2.25`), ""},
		{"minLength", "minLength: 2", p(`"abc"`), p(`"a"`), ""},
		{"maxLength", "maxLength: 2", p(`"a"`), p(`"abc"`), ""},
		{"datatype integer", "datatype: xsd.integer", p(`5`), p(`"five"`), ""},
		{"datatype string", "datatype: xsd.string", p(`"five"`), p(`5`), ""},
		{"datatype boolean", "datatype: xsd.boolean", p(`true`), p(`"yes"`), ""},
		{"lessThanProperty", "lessThanProperty: ex.q", pq(`1`, `2`), pq(`2`, `1`), ""},
		{"lessThanOrEqualsToProperty", "lessThanOrEqualsToProperty: ex.q", pq(`2`, `2`), pq(`3`, `2`), ""},
		{"equalsToProperty", "equalsToProperty: ex.q", pq(`2`, `2`), pq(`2`, `3`), ""},
		{"disjointWithProperty", "disjointWithProperty: ex.q", pq(`2`, `3`), pq(`2`, `2`), ""},
		{"nested", "nested:\n" + c01KIndent(nestedBody, 2), link("c1"), link("c2"), child("c1", true) + ", " + child("c2", false)},
		{"atLeast", "atLeast:\n  count: 1\n  validation:\n" + c01KIndent(nestedBody, 4), link("c1"), link("c2"), child("c1", true) + ", " + child("c2", false)},
		{"atMost", "atMost:\n  count: 0\n  validation:\n" + c01KIndent(nestedBody, 4), link("c2"), link("c1"), child("c1", true) + ", " + child("c2", false)},
		{"several leaves on one property", "minCount: 1\npattern: ^a\nmaxLength: 3", p(`"abc"`), p(`"abcd"`), ""},
		{"uniqueValues", "uniqueValues: true", p(`["a", "b"]`), `"` + c01Ex + `other": "v"`, ""}, // F: no values - nothing repeats, so it holds there too (see below)
	}
}

func c01KIndent(s string, n int) string {
	pad := strings.Repeat(" ", n)
	var out []string
	for _, l := range strings.Split(strings.TrimRight(s, "\n"), "\n") {
		out = append(out, pad+l)
	}
	return strings.Join(out, "\n") + "\n"
}

func c01KindProfile(body string) string {
	return "#%Validation Profile 1.0\nprofile: Kinds\nprefixes:\n  ex: " + c01Ex + "\nviolation:\n  - v\nvalidations:\n  v:\n    targetClass: ex.T\n    message: m\n" + c01KIndent(body, 4)
}

func c01KindReported(t *testing.T, scenario, profile, data string) (map[string]bool, bool) {
	rep, err := Validate(profile, data, false, nil)
	if err != nil {
		t.Errorf("C01 violated: %s: no report: %v", scenario, strings.Split(err.Error(), "\n")[0])
		return nil, false
	}
	var doc []map[string]any
	if json.Unmarshal([]byte(rep), &doc) != nil || len(doc) == 0 {
		t.Errorf("C01 violated: %s: unreadable report", scenario)
		return nil, false
	}
	r := doc[0]["doc:encodes"].([]any)[0].(map[string]any)
	got := map[string]bool{}
	if res, ok := r["result"].([]any); ok {
		for _, x := range res {
			if m, ok := x.(map[string]any); ok {
				got[strings.TrimPrefix(fmt.Sprint(m["focusNode"]), "http://example.org/")] = true
			}
		}
	}
	return got, true
}

func TestReplayC01AtomKinds(t *testing.T) {
	leaf := func(path, constraint string) string {
		return "propertyConstraints:\n  " + path + ":\n" + c01KIndent(constraint, 4)
	}
	never := leaf("ex.never", "minCount: 1")  // no node has ex.never
	always := leaf("ex.never", "maxCount: 0") // every node has at most zero values of it
	item := func(body string) string { return "  - " + strings.TrimPrefix(c01KIndent(body, 4), "    ") }
	for _, k := range c01KindTable() {
		atom := leaf("ex.p", k.constraint)
		holdsOnF := k.name == "uniqueValues" // the F node of that row has no values at all: nothing repeats
		type form struct {
			label string
			body  string
			truth func(a bool) bool
		}
		forms := []form{
			{"k", atom, func(a bool) bool { return a }},
			{"not k", "not:\n" + c01KIndent(atom, 2), func(a bool) bool { return !a }},
			{"not not k", "not:\n  not:\n" + c01KIndent(atom, 4), func(a bool) bool { return a }},
			{"if k then never", "if:\n" + c01KIndent(atom, 2) + "then:\n" + c01KIndent(never, 2), func(a bool) bool { return !a }},
			{"if k then never else always", "if:\n" + c01KIndent(atom, 2) + "then:\n" + c01KIndent(never, 2) + "else:\n" + c01KIndent(always, 2), func(a bool) bool { return !a }},
			{"or [k, never]", "or:\n" + item(atom) + item(never), func(a bool) bool { return a }},
			{"and [k, always]", "and:\n" + item(atom) + item(always), func(a bool) bool { return a }},
			{"if always then k", "if:\n" + c01KIndent(always, 2) + "then:\n" + c01KIndent(atom, 2), func(a bool) bool { return a }},
			{"not and [k, always]", "not:\n  and:\n" + c01KIndent(item(atom)+item(always), 2), func(a bool) bool { return !a }},
		}
		data := `{"@graph": [{"@id": "http://example.org/H", "@type": ["` + c01Ex + `T"], ` + k.holds + `}, {"@id": "http://example.org/F", "@type": ["` + c01Ex + `T"], ` + k.fails + `}`
		if k.extra != "" {
			data += ", " + k.extra
		}
		data += "]}"
		for _, f := range forms {
			scenario := fmt.Sprintf("constraint %s as the atom of `%s`", k.name, f.label)
			got, ok := c01KindReported(t, scenario, c01KindProfile(f.body), data)
			if !ok {
				continue
			}
			want := map[string]bool{}
			if !f.truth(true) {
				want["H"] = true
			}
			if !f.truth(!false && holdsOnF || false) { // F: the atom is false there, except in the uniqueValues row
				want["F"] = true
			}
			var g, w []string
			for n := range got {
				if n == "H" || n == "F" {
					g = append(g, n)
				}
			}
			for n := range want {
				w = append(w, n)
			}
			sort.Strings(g)
			sort.Strings(w)
			if strings.Join(g, ",") != strings.Join(w, ",") {
				t.Errorf("C01 violated: %s: reported [%s], the formula is false exactly on [%s] (H: the constraint holds, F: it fails)", scenario, strings.Join(g, ","), strings.Join(w, ","))
			}
		}
	}
}
