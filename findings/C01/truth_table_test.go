package validator

// Bounded witness search for property C01: formulas over three atoms (a, b, c: "the node has property ex.a / ex.b / ex.c",
// written as minCount 1) built with not / and / or / if-then / if-then-else up to depth two are validated against the eight
// nodes that realise every truth assignment; the reported nodes must be exactly those on which the formula, read classically,
// is false. Witness search only: a disagreement is a concrete formula and node.
//   C01_STRIDE  use every n-th depth-two formula (default 9), C01_OUT json summary

import (
	"encoding/json"
	"fmt"
	"os"
	"sort"
	"strconv"
	"strings"
	"testing"
)

type c01F struct {
	op      string // atom not and or if ite
	atom    string
	x, y, z *c01F
}

func (f *c01F) eval(v map[string]bool) bool {
	switch f.op {
	case "atom":
		return v[f.atom]
	case "not":
		return !f.x.eval(v)
	case "and":
		return f.x.eval(v) && f.y.eval(v)
	case "or":
		return f.x.eval(v) || f.y.eval(v)
	case "if":
		return !f.x.eval(v) || f.y.eval(v)
	}
	return (!f.x.eval(v) || f.y.eval(v)) && (f.x.eval(v) || f.z.eval(v))
}

func (f *c01F) String() string {
	switch f.op {
	case "atom":
		return f.atom
	case "not":
		return "not(" + f.x.String() + ")"
	case "and", "or":
		return f.op + "(" + f.x.String() + "," + f.y.String() + ")"
	case "if":
		return "if(" + f.x.String() + " then " + f.y.String() + ")"
	}
	return "if(" + f.x.String() + " then " + f.y.String() + " else " + f.z.String() + ")"
}

func (f *c01F) yaml(ind string) string {
	switch f.op {
	case "atom":
		return ind + "propertyConstraints:\n" + ind + "  ex." + f.atom + ":\n" + ind + "    minCount: 1\n"
	case "not":
		return ind + "not:\n" + f.x.yaml(ind+"  ")
	case "and", "or":
		item := func(g *c01F) string {
			s := g.yaml(ind + "    ")
			return ind + "  - " + strings.TrimPrefix(s, ind+"    ")
		}
		return ind + f.op + ":\n" + item(f.x) + item(f.y)
	case "if":
		return ind + "if:\n" + f.x.yaml(ind+"  ") + ind + "then:\n" + f.y.yaml(ind+"  ")
	}
	return ind + "if:\n" + f.x.yaml(ind+"  ") + ind + "then:\n" + f.y.yaml(ind+"  ") + ind + "else:\n" + f.z.yaml(ind+"  ")
}

func c01Formulas(stride int) (all int, out []*c01F) {
	var atoms []*c01F
	for _, a := range []string{"a", "b", "c"} {
		atoms = append(atoms, &c01F{op: "atom", atom: a})
	}
	build := func(ops []*c01F) []*c01F {
		var r []*c01F
		for _, x := range ops {
			r = append(r, &c01F{op: "not", x: x})
		}
		for _, op := range []string{"and", "or", "if"} {
			for _, x := range ops {
				for _, y := range ops {
					r = append(r, &c01F{op: op, x: x, y: y})
				}
			}
		}
		return r
	}
	d1 := build(atoms)
	for _, x := range atoms {
		for _, y := range atoms {
			for _, z := range atoms {
				d1 = append(d1, &c01F{op: "ite", x: x, y: y, z: z})
			}
		}
	}
	upTo1 := append(append([]*c01F{}, atoms...), d1...)
	d2 := build(upTo1)
	// if-then-else with composite parts: one composite position at a time
	for _, c := range d1 {
		for _, a := range atoms {
			d2 = append(d2, &c01F{op: "ite", x: c, y: a, z: atoms[2]}, &c01F{op: "ite", x: a, y: c, z: atoms[1]}, &c01F{op: "ite", x: a, y: atoms[0], z: c})
		}
	}
	out = append(out, d1...)
	for i, f := range d2 {
		if i%stride == 0 {
			out = append(out, f)
		}
	}
	return len(d1) + len(d2), out
}

func TestReplayC01TruthTables(t *testing.T) {
	stride := 9
	if s := os.Getenv("C01_STRIDE"); s != "" {
		if n, err := strconv.Atoi(s); err == nil && n > 0 {
			stride = n
		}
	}
	all, fs := c01Formulas(stride)
	var nodes []string
	vals := map[string]map[string]bool{}
	for i := 0; i < 8; i++ {
		id := fmt.Sprintf("n%d%d%d", i>>2&1, i>>1&1, i&1)
		vals[id] = map[string]bool{"a": i>>2&1 == 1, "b": i>>1&1 == 1, "c": i&1 == 1}
		s := `{"@id":"http://example.org/` + id + `","@type":"http://example.org/T"`
		for _, a := range []string{"a", "b", "c"} {
			if vals[id][a] {
				s += `,"http://example.org/` + a + `":"1"`
			}
		}
		nodes = append(nodes, s+"}")
	}
	data := `{"@graph":[` + strings.Join(nodes, ",") + `]}`
	checked, bad := 0, 0
	var examples []string
	const batch = 10
	for start := 0; start < len(fs); start += batch {
		end := start + batch
		if end > len(fs) {
			end = len(fs)
		}
		var names, bodies []string
		byName := map[string]*c01F{}
		for i, f := range fs[start:end] {
			name := fmt.Sprintf("v%d", start+i)
			names = append(names, name)
			byName[name] = f
			bodies = append(bodies, "  "+name+":\n    targetClass: ex.T\n    message: m\n"+f.yaml("    "))
		}
		profile := "#%Validation Profile 1.0\nprofile: P\nprefixes:\n  ex: http://example.org/\nviolation:\n  - " + strings.Join(names, "\n  - ") + "\nvalidations:\n" + strings.Join(bodies, "")
		rep, err := Validate(profile, data, false, nil)
		if err != nil {
			bad++
			if len(examples) < 12 {
				examples = append(examples, fmt.Sprintf("formulas %s ... do not validate: %s", fs[start].String(), strings.Split(err.Error(), "\n")[0]))
			}
			continue
		}
		reported := map[string]map[string]bool{}
		var doc []map[string]any
		if json.Unmarshal([]byte(rep), &doc) == nil && len(doc) > 0 {
			if enc, ok := doc[0]["doc:encodes"].([]any); ok && len(enc) > 0 {
				if r, ok := enc[0].(map[string]any); ok {
					if res, ok := r["result"].([]any); ok {
						for _, x := range res {
							m, _ := x.(map[string]any)
							n, _ := m["sourceShapeName"].(string)
							id, _ := m["focusNode"].(string)
							if fn, ok := m["focusNode"].(map[string]any); ok {
								id, _ = fn["@id"].(string)
							}
							if reported[n] == nil {
								reported[n] = map[string]bool{}
							}
							reported[n][strings.TrimPrefix(id, "http://example.org/")] = true
						}
					}
				}
			}
		}
		for name, f := range byName {
			for id, v := range vals {
				checked++
				want := !f.eval(v)
				if reported[name][id] != want {
					bad++
					if len(examples) < 12 {
						examples = append(examples, fmt.Sprintf("%s on node %s (a,b,c present: %v,%v,%v): reported=%v, the classical reading says %v", f.String(), id, v["a"], v["b"], v["c"], reported[name][id], want))
					}
				}
			}
		}
	}
	sort.Strings(examples)
	for _, e := range examples {
		t.Errorf("C01 violated: %s", e)
	}
	if out := os.Getenv("C01_OUT"); out != "" {
		b, _ := json.MarshalIndent(map[string]any{"formulas": len(fs), "of": all, "node_checks": checked, "disagreements": bad, "examples": examples}, "", " ")
		os.WriteFile(out, b, 0644)
	}
	t.Logf("formulas=%d of %d, node checks=%d, disagreements=%d", len(fs), all, checked, bad)
}
