package validator

// Witness for property C01 / obligation post:profile.ConditionalRule.Negate#profile.Rule.Negate.negates :
// not:{if,then,else} must report exactly the nodes on which (if -> then) and (not if -> else) is true.

import (
	"fmt"
	"strings"
	"testing"
)

const iteProfile = `#%Validation Profile 1.0
profile: ITE
prefixes:
  ex: http://example.org/
violation:
  - v1
validations:
  v1:
    targetClass: ex.T
    message: m
    not:
      if:
        propertyConstraints:
          ex.i:
            minCount: 1
      then:
        propertyConstraints:
          ex.t:
            minCount: 1
      else:
        propertyConstraints:
          ex.e:
            minCount: 1
`

func TestReplayC01NegatedIfThenElse(t *testing.T) {
	for i := 0; i < 2; i++ {
		for th := 0; th < 2; th++ {
			for e := 0; e < 2; e++ {
				node := `{"@id":"http://example.org/n","@type":"http://example.org/T"`
				if i == 1 {
					node += `,"http://example.org/i":"1"`
				}
				if th == 1 {
					node += `,"http://example.org/t":"1"`
				}
				if e == 1 {
					node += `,"http://example.org/e":"1"`
				}
				node += "}"
				rep, err := Validate(iteProfile, node, false, nil)
				if err != nil {
					t.Fatal(err)
				}
				inner := (i == 0 || th == 1) && (i == 1 || e == 1) // the if-then-else formula
				wantReported := inner                            // the validation is its negation: reported when the inner formula holds
				reported := strings.Contains(rep, `"conforms": false`)
				if reported != wantReported {
					t.Errorf("C01 violated: not:{if,then,else} with (if,then,else)=(%d,%d,%d): reported=%v, classical meaning says %v", i, th, e, reported, wantReported)
				}
			}
		}
	}
	_ = fmt.Sprint
}
