package validator

// Witness for the recorded finding of property C01 on assumed:generator.Generate<Leaf>#A-FRAGMENT :
// `not` over an atomic constraint must report exactly the nodes the plain constraint does not report.
// For constraints that iterate the values of a property the plain form means "some value fails" and the negated form
// "some value passes": a node with one passing and one failing value is reported by both, a node without values by neither.

import (
	"fmt"
	"strings"
	"testing"
)

func leafProfile(constraint string, negated bool) string {
	body := "    propertyConstraints:\n      ex.p:\n        " + constraint + "\n"
	if negated {
		body = "    not:\n      propertyConstraints:\n        ex.p:\n          " + constraint + "\n"
	}
	return "#%Validation Profile 1.0\nprofile: LEAF\nprefixes:\n  ex: http://example.org/\nviolation:\n  - v1\nvalidations:\n  v1:\n    targetClass: ex.T\n    message: m\n" + body
}

func TestKnownFindingC01NegatedIteratingLeaf(t *testing.T) {
	cases := []struct{ name, constraint, values string }{
		{"pattern", "pattern: ^get$", `["get","xx"]`},
		{"in", "in: [ get ]", `["get","xx"]`},
		{"minInclusive", "minInclusive: 5", `[7,3]`},
		{"maxInclusive", "maxInclusive: 5", `[7,3]`},
		{"minExclusive", "minExclusive: 5", `[7,3]`},
		{"maxExclusive", "maxExclusive: 5", `[7,3]`},
		{"pattern-empty", "pattern: ^get$", ``},
	}
	for _, c := range cases {
		node := `{"@id":"http://example.org/n","@type":"http://example.org/T"`
		if c.values != "" {
			node += `,"http://example.org/p":` + c.values
		}
		node += "}"
		var reported [2]bool
		for k, neg := range []bool{false, true} {
			rep, err := Validate(leafProfile(c.constraint, neg), node, false, nil)
			if err != nil {
				t.Fatalf("%s negated=%v: %v", c.name, neg, err)
			}
			reported[k] = strings.Contains(rep, `"conforms": false`)
		}
		if reported[0] == reported[1] {
			t.Errorf("C01 violated: %s on values %s: reported plain=%v and under not=%v; classical negation reports exactly one of the two", c.name, c.values, reported[0], reported[1])
		}
	}
	_ = fmt.Sprint
}
