package main

// Bounded witness suite for property C18: the built `acv` binary emits exactly the library's output. `acv validate PROFILE
// DATA` must print the report validator.Validate returns for the two texts (dateCreated blanked on both sides; one line
// terminator after the report is accepted), with an output path it must leave that path holding exactly that report whatever
// was there before, `acv generate` / `acv normalize` must print validator.GenerateRego(..).Code / validator.Encode(
// validator.ProcessInput(..)), and whenever the library (or reading an argument, or writing the output) fails the exit status
// must be non-zero and stdout must not carry anything that looks like a report, a policy or a normalised document.
// Bound (the binary is built once, about 150 runs of it):
//   - validate to stdout: 13 (profile, data) pairs - plain ASCII, a profile and data full of '%', printf verbs, '<', '>', '&',
//     quotes, backslashes and non-ASCII text, a custom-Rego profile, conforming data (short report), 3 and 200 failing nodes
//     (report larger than a pipe buffer), integration profiles 1, 8 and 29 of the repository's test data (negative and positive);
//   - validate to a file: 3 pairs (ASCII, special characters, short report with non-ASCII profile name) x 12 prior states of
//     the output path: absent, empty, shorter, one byte shorter, same length, one byte longer, much longer, the longer report of
//     a previous run of the CLI, symlink to a longer file, dangling symlink, read-only file, absent in a read-only directory
//     (for the last two a refusal - non-zero exit, clean stdout - is accepted as well), plus the 200-node report over a longer file;
//   - arguments that are not regular files: DATA and PROFILE read from /dev/stdin (a pipe, also 100 kB of data) for the three
//     subcommands;
//   - generate: 7 profiles; normalize: 8 documents (the same special characters, in literals and in IRIs);
//   - failures: 9 broken profiles x {validate to stdout, validate to a file, generate}, 8 broken documents x {validate to stdout,
//     validate to a file, normalize}, missing paths and directories as arguments, wrong argument counts, an output path that is a
//     directory, lies in a missing directory, or accepts no bytes (/dev/full). What the library says about a text decides which
//     side of the property a scenario is judged on.
// The library's policy for a profile is the one a fresh process generates: the process-wide counter that numbers generated rule
// names is reset (profile.GenReset, as the repository's own tests do) before each library call. Witness search only.

import (
	"bytes"
	"context"
	"errors"
	"fmt"
	"os"
	"os/exec"
	"path/filepath"
	"regexp"
	"strings"
	"testing"
	"time"

	c18profile "github.com/aml-org/amf-custom-validator/internal/parser/profile"
	"github.com/aml-org/amf-custom-validator/internal/validator"
)

const c18ProfilePlain = `#%Validation Profile 1.0
profile: Plain
prefixes:
  ex: http://example.org/
violation:
  - has-name
warning:
  - code-format
validations:
  has-name:
    message: Every T must have a name
    targetClass: ex.T
    propertyConstraints:
      ex.name:
        minCount: 1
  code-format:
    message: The code must be numeric
    targetClass: ex.T
    propertyConstraints:
      ex.code:
        pattern: "^[0-9]+$"
`

const c18ProfileSpecial = `#%Validation Profile 1.0
profile: "Perfil 100% <ñ> & — 日本語"
prefixes:
  ex: http://example.org/
violation:
  - code-format
warning:
  - has-name
validations:
  code-format:
    message: "must reach 100% of %s %d %v %% %!s(MISSING) <b>bold</b> & 'más' — 検証 \\ \"q\""
    targetClass: ex.T
    propertyConstraints:
      ex.code:
        pattern: "^[0-9]{1,3}%$"
  has-name:
    message: name missing
    targetClass: ex.T
    propertyConstraints:
      ex.name:
        minCount: 1
`

const c18ProfileRego = `#%Validation Profile 1.0
profile: Custom
prefixes:
  ex: http://example.org/
violation:
  - even-length
validations:
  even-length:
    message: "code length must be even (%v)"
    targetClass: ex.T
    rego: |
      code = object.get($node, "http://example.org/code", "")
      text = sprintf("%v%%", [code])
      $result = (count(text) % 2 == 0)
`

const c18DataSpecial = `{"@graph":[
 {"@id":"file:///specs/my%20api.raml#/end%2Fpoint?a=1&b=2","@type":"http://example.org/T","http://example.org/code":"50% <off> & más — 検証 %d","http://example.org/name":"x"},
 {"@id":"http://example.org/n2","@type":"http://example.org/T","http://example.org/code":"12%"},
 {"@id":"http://example.org/n3","@type":"http://example.org/T","http://example.org/code":"abc"}
]}`

const c18DataOK = `{"@graph":[
 {"@id":"http://example.org/ok","@type":"http://example.org/T","http://example.org/code":"7%","http://example.org/name":"fine"}
]}`

func c18DataMany(n int) string {
	var nodes []string
	for i := 0; i < n; i++ {
		nodes = append(nodes, fmt.Sprintf(`{"@id":"http://example.org/many/%d","@type":"http://example.org/T","http://example.org/code":"c-%d"}`, i, i))
	}
	return `{"@graph":[` + strings.Join(nodes, ",\n") + `]}`
}

var c18BrokenProfiles = []struct{ label, text string }{
	{"empty profile", ""},
	{"profile that is a YAML syntax error", "#%Validation Profile 1.0\nprofile: [unclosed\nviolation:\n  - a\n"},
	{"profile that is a scalar", "#%Validation Profile 1.0\njust text\n"},
	{"profile without validations", "#%Validation Profile 1.0\nprofile: Nothing\n"},
	{"profile listing an undefined validation", "#%Validation Profile 1.0\nprofile: P\nviolation:\n  - missing\nvalidations:\n  other:\n    message: m\n    targetClass: ex.T\n    propertyConstraints:\n      ex.a:\n        minCount: 1\n"},
	{"profile with an undeclared prefix", "#%Validation Profile 1.0\nprofile: P\nviolation:\n  - v\nvalidations:\n  v:\n    message: m\n    targetClass: nope.T\n    propertyConstraints:\n      nope.a:\n        minCount: 1\n"},
	{"profile with an unknown constraint", "#%Validation Profile 1.0\nprofile: P\nprefixes:\n  ex: http://example.org/\nviolation:\n  - v\nvalidations:\n  v:\n    message: m\n    targetClass: ex.T\n    propertyConstraints:\n      ex.a:\n        noSuchConstraint: 1\n"},
	{"profile whose custom Rego does not compile", "#%Validation Profile 1.0\nprofile: P\nprefixes:\n  ex: http://example.org/\nviolation:\n  - v\nvalidations:\n  v:\n    message: m\n    targetClass: ex.T\n    rego: |\n      $result = ((( not rego at all\n"},
	{"profile whose custom Rego calls a blocked builtin", "#%Validation Profile 1.0\nprofile: P\nprefixes:\n  ex: http://example.org/\nviolation:\n  - v\nvalidations:\n  v:\n    message: m\n    targetClass: ex.T\n    rego: |\n      r = http.send({\"method\": \"get\", \"url\": \"http://localhost/\"})\n      $result = (r != null)\n"},
}

var c18BrokenData = []struct{ label, text string }{
	{"empty data", ""},
	{"blank data", " \n"},
	{"truncated data", `{"@graph":[{"@id":"http://example.org/n1","@type":"http://example.org/T"`},
	{"data that is not JSON", "openapi: 3.0.0\ninfo: {}\n"},
	{"data with a trailing comma", `{"@graph":[{"@id":"http://example.org/n1"},]}`},
	{"data whose @id is a number", `{"@graph":[{"@id": 5, "@type": "http://example.org/T"}]}`},
	{"data whose @context is invalid", `{"@context": 17, "@id":"http://example.org/n1", "@type": "http://example.org/T"}`},
	{"data whose @type is an object", `{"@graph":[{"@id":"http://example.org/n1","@type": {"a": 1}}]}`},
}

var c18DateRe = regexp.MustCompile(`"dateCreated": "[^"]*"`)

func c18Mask(s string) string { return c18DateRe.ReplaceAllString(s, `"dateCreated": ""`) }

// c18Brief renders a position-of-first-difference summary that fits one line.
func c18Brief(got, want string) string {
	i := 0
	for i < len(got) && i < len(want) && got[i] == want[i] {
		i++
	}
	cut := func(s string) string {
		from, to := i-30, i+50
		if from < 0 {
			from = 0
		}
		if to > len(s) {
			to = len(s)
		}
		if from > to {
			from = to
		}
		return s[from:to]
	}
	return fmt.Sprintf("%d bytes against the library's %d, first difference at byte %d: got %q, want %q", len(got), len(want), i, cut(got), cut(want))
}

type c18Result struct {
	stdout, stderr string
	code           int
}

type c18Env struct {
	t   *testing.T
	bin string
	dir string
	n   int
}

func (e *c18Env) run(stdin string, args ...string) (c18Result, bool) {
	ctx, cancel := context.WithTimeout(context.Background(), 15*time.Second)
	defer cancel()
	cmd := exec.CommandContext(ctx, e.bin, args...)
	var out, errb bytes.Buffer
	cmd.Stdout, cmd.Stderr = &out, &errb
	cmd.Stdin = strings.NewReader(stdin)
	cmd.Dir = e.dir
	err := cmd.Run()
	res := c18Result{out.String(), errb.String(), 0}
	if err != nil {
		var ee *exec.ExitError
		if errors.As(err, &ee) && ctx.Err() == nil {
			res.code = ee.ExitCode()
			if res.code == 0 {
				res.code = -1
			}
		} else {
			e.t.Errorf("C18 harness: acv %s could not be run: %v", strings.Join(args, " "), err)
			return res, false
		}
	}
	return res, true
}

// file writes a text under the scenario directory and returns its path.
func (e *c18Env) file(name, text string) string {
	e.n++
	p := filepath.Join(e.dir, fmt.Sprintf("%03d-%s", e.n, name))
	if err := os.WriteFile(p, []byte(text), 0644); err != nil {
		e.t.Fatalf("C18 harness: cannot write %s: %v", p, err)
	}
	return p
}

func (e *c18Env) fresh(name string) string {
	e.n++
	return filepath.Join(e.dir, fmt.Sprintf("%03d-%s", e.n, name))
}

func c18LibReport(profile, data string) (rep string, err error) {
	defer func() {
		if r := recover(); r != nil {
			rep, err = "", fmt.Errorf("panic: %v", r)
		}
	}()
	return validator.Validate(profile, data, false, nil)
}

func c18LibRego(profile string) (code string, err error) {
	defer func() {
		if r := recover(); r != nil {
			code, err = "", fmt.Errorf("panic: %v", r)
		}
	}()
	c18profile.GenReset() // generated names are numbered by a process-wide counter; the CLI is a fresh process
	unit, err := validator.GenerateRego(profile, false, nil)
	if err != nil {
		return "", err
	}
	return unit.Code, nil
}

func c18LibNormalized(data string) (text string, err error) {
	defer func() {
		if r := recover(); r != nil {
			text, err = "", fmt.Errorf("panic: %v", r)
		}
	}()
	res, err := validator.ProcessInput(data, false, nil)
	if err != nil {
		return "", err
	}
	return validator.Encode(res), nil
}

// c18Silent reports whether stdout is free of anything that looks like a report, a policy or a normalised document.
func c18Silent(stdout string) bool {
	for _, mark := range []string{"{", "conforms", "@id", "package ", "report["} {
		if strings.Contains(stdout, mark) {
			return false
		}
	}
	return true
}

func c18Short(s string) string {
	s = strings.TrimSpace(s)
	if i := strings.IndexByte(s, '\n'); i >= 0 {
		s = s[:i]
	}
	if len(s) > 120 {
		s = s[:120] + "..."
	}
	return s
}

// expectFailure judges a run that the property demands to fail.
func (e *c18Env) expectFailure(scenario, why string, r c18Result) {
	if r.code == 0 {
		e.t.Errorf("C18 violated: %s: exit status 0 (stdout %d bytes) although %s; a failure must give a non-zero exit status", scenario, len(r.stdout), why)
	}
	if !c18Silent(r.stdout) {
		e.t.Errorf("C18 violated: %s: stdout carries %q although %s; a failure must leave no report on stdout", scenario, c18Short(r.stdout), why)
	}
}

// expectStdout judges a successful run whose stdout must be exactly want (one line terminator after it is accepted).
func (e *c18Env) expectStdout(scenario string, r c18Result, want string, mask bool) {
	if r.code != 0 {
		e.t.Errorf("C18 violated: %s: exit status %d (%s) although the library succeeds; stdout must be the library's output", scenario, r.code, c18Short(r.stderr))
		return
	}
	got := r.stdout
	if mask {
		got, want = c18Mask(got), c18Mask(want)
	}
	if got != want && got != want+"\n" && got != want+"\r\n" {
		e.t.Errorf("C18 violated: %s: stdout is not the library's output: %s", scenario, c18Brief(got, want+"\n"))
	}
}

// expectFile judges the bytes found at the output path after a successful run.
func (e *c18Env) expectFile(scenario string, r c18Result, path, want string) {
	if r.code != 0 {
		e.t.Errorf("C18 violated: %s: exit status %d (%s) although the library succeeds and the path is writable; the file must hold the library's report", scenario, r.code, c18Short(r.stderr))
		return
	}
	got, err := os.ReadFile(path)
	if err != nil {
		e.t.Errorf("C18 violated: %s: exit status 0 but the output path cannot be read (%v); it must hold the library's report", scenario, err)
		return
	}
	if c18Mask(string(got)) != c18Mask(want) {
		e.t.Errorf("C18 violated: %s: the output file is not the library's report: %s", scenario, c18Brief(c18Mask(string(got)), c18Mask(want)))
	}
}

// validateStdout runs `acv validate P D` and judges it by what the library says about the two texts.
func (e *c18Env) validateStdout(scenario, profile, data string) {
	want, err := c18LibReport(profile, data)
	r, ok := e.run("", "validate", e.file("profile.yaml", profile), e.file("data.jsonld", data))
	if !ok {
		return
	}
	scenario = "validate to stdout, " + scenario
	if err != nil {
		e.expectFailure(scenario, "the library fails with: "+c18Short(err.Error()), r)
		return
	}
	e.expectStdout(scenario, r, want, true)
}

type c18Prior struct {
	label     string
	mayRefuse bool // a refusal (non-zero exit, clean stdout) is accepted as well
	// prepare puts the output path into its prior state and returns it
	prepare func(e *c18Env, want string) string
}

func c18Priors(longProfile, longData string) []c18Prior {
	content := func(label string, f func(want string) string) c18Prior {
		return c18Prior{label: label, prepare: func(e *c18Env, want string) string { return e.file("out.jsonld", f(want)) }}
	}
	fill := func(n int) string {
		if n < 0 {
			n = 0
		}
		return strings.Repeat("#", n)
	}
	return []c18Prior{
		{label: "absent", prepare: func(e *c18Env, want string) string { return e.fresh("out.jsonld") }},
		content("empty", func(string) string { return "" }),
		content("shorter", func(string) string { return "{}\n" }),
		content("one byte shorter", func(w string) string { return fill(len(w) - 1) }),
		content("same length", func(w string) string { return fill(len(w)) }),
		content("one byte longer", func(w string) string { return fill(len(w) + 1) }),
		content("much longer", func(w string) string { return w + "\n" + fill(8192) + "\n]\n" }),
		{label: "longer report of a previous run", prepare: func(e *c18Env, want string) string {
			p := e.fresh("out.jsonld")
			first, err := c18LibReport(longProfile, longData)
			if err != nil || len(first) <= len(want) {
				e.t.Errorf("C18 harness: the first report of the sequence is not longer (%d against %d bytes, %v)", len(first), len(want), err)
				return p
			}
			if r, ok := e.run("", "validate", e.file("profile.yaml", longProfile), e.file("data.jsonld", longData), p); ok {
				e.expectFile("validate to a file, first run of a sequence (12 failing nodes, absent path)", r, p, first)
			}
			return p
		}},
		{label: "symlink to a longer file", prepare: func(e *c18Env, want string) string {
			target := e.file("target.jsonld", want+fill(4096))
			p := e.fresh("link.jsonld")
			if err := os.Symlink(target, p); err != nil {
				e.t.Errorf("C18 harness: symlink: %v", err)
			}
			return p
		}},
		{label: "dangling symlink", prepare: func(e *c18Env, want string) string {
			p := e.fresh("latest.jsonld")
			if err := os.Symlink(filepath.Base(e.fresh("not-yet.jsonld")), p); err != nil {
				e.t.Errorf("C18 harness: symlink: %v", err)
			}
			return p
		}},
		{label: "read-only longer file", mayRefuse: true, prepare: func(e *c18Env, want string) string {
			p := e.file("out.jsonld", want+fill(4096))
			if err := os.Chmod(p, 0444); err != nil {
				e.t.Errorf("C18 harness: chmod: %v", err)
			}
			return p
		}},
		{label: "absent in a read-only directory", mayRefuse: true, prepare: func(e *c18Env, want string) string {
			d := e.fresh("readonly")
			if err := os.Mkdir(d, 0755); err != nil {
				e.t.Errorf("C18 harness: mkdir: %v", err)
			}
			if err := os.Chmod(d, 0555); err != nil {
				e.t.Errorf("C18 harness: chmod: %v", err)
			}
			e.t.Cleanup(func() { os.Chmod(d, 0755) })
			return filepath.Join(d, "out.jsonld")
		}},
	}
}

func (e *c18Env) readRepoFile(rel string) (string, bool) {
	b, err := os.ReadFile(filepath.Join("..", "test", "data", "integration", rel))
	if err != nil {
		e.t.Errorf("C18 harness: test data %s: %v", rel, err)
		return "", false
	}
	return string(b), true
}

func TestReplayC18CLI(t *testing.T) {
	root, err := filepath.Abs("..")
	if err != nil {
		t.Fatalf("C18 harness: %v", err)
	}
	tmp := t.TempDir()
	bin := filepath.Join(tmp, "acv")
	build := exec.Command("go", "build", "-p", "2", "-o", bin, "./cmd")
	build.Dir = root
	if out, err := build.CombinedOutput(); err != nil {
		t.Fatalf("C18 harness: go build ./cmd failed: %v: %s", err, c18Short(string(out)))
	}
	newEnv := func(t *testing.T) *c18Env {
		d := filepath.Join(tmp, strings.NewReplacer("/", "_", " ", "_").Replace(t.Name()))
		if err := os.MkdirAll(d, 0755); err != nil {
			t.Fatalf("C18 harness: %v", err)
		}
		return &c18Env{t: t, bin: bin, dir: d}
	}
	_, errStdin := os.Stat("/dev/stdin")
	hasStdin := errStdin == nil

	t.Run("ValidateStdout", func(t *testing.T) {
		e := newEnv(t)
		e.validateStdout("plain profile, 3 failing nodes", c18ProfilePlain, c18DataMany(3))
		e.validateStdout("plain profile, one node with a warning only", c18ProfilePlain, c18DataOK)
		e.validateStdout("plain profile, data with '%', '<', '&', non-ASCII", c18ProfilePlain, c18DataSpecial)
		e.validateStdout("profile with '%', printf verbs, '<', '&', non-ASCII and data with the same", c18ProfileSpecial, c18DataSpecial)
		e.validateStdout("profile with '%', printf verbs, '<', '&', non-ASCII and conforming data", c18ProfileSpecial, c18DataOK)
		e.validateStdout("custom Rego profile using sprintf and the modulo operator", c18ProfileRego, c18DataSpecial)
		e.validateStdout("plain profile, 200 failing nodes", c18ProfilePlain, c18DataMany(200))
		for _, n := range []string{"profile1", "profile8", "profile29"} {
			p, ok := e.readRepoFile(n + "/profile.yaml")
			if !ok {
				continue
			}
			for _, k := range []string{"negative", "positive"} {
				if d, ok := e.readRepoFile(n + "/" + k + ".data.jsonld"); ok {
					e.validateStdout("test/data/integration/"+n+" with its "+k+" data", p, d)
				}
			}
		}
	})

	t.Run("ValidateFile", func(t *testing.T) {
		e := newEnv(t)
		pairs := []struct{ label, profile, data string }{
			{"plain profile, 3 failing nodes", c18ProfilePlain, c18DataMany(3)},
			{"profile and data with '%', printf verbs, '<', '&', non-ASCII", c18ProfileSpecial, c18DataSpecial},
			{"non-ASCII profile name, conforming data", c18ProfileSpecial, c18DataOK},
		}
		for _, pair := range pairs {
			want, err := c18LibReport(pair.profile, pair.data)
			if err != nil {
				t.Errorf("C18 harness: %s: the library fails: %v", pair.label, c18Short(err.Error()))
				continue
			}
			for _, prior := range c18Priors(c18ProfilePlain, c18DataMany(12)) {
				scenario := "validate to a file, " + pair.label + ", output path " + prior.label
				out := prior.prepare(e, want)
				r, ok := e.run("", "validate", e.file("profile.yaml", pair.profile), e.file("data.jsonld", pair.data), out)
				if !ok {
					continue
				}
				if prior.mayRefuse && r.code != 0 {
					e.expectFailure(scenario, "the output path was refused", r)
					continue
				}
				e.expectFile(scenario, r, out, want)
			}
		}
		// a report larger than a pipe buffer over a longer file
		big := c18DataMany(200)
		if want, err := c18LibReport(c18ProfilePlain, big); err != nil {
			t.Errorf("C18 harness: 200 failing nodes: the library fails: %v", c18Short(err.Error()))
		} else {
			out := e.file("out.jsonld", want+"tail")
			if r, ok := e.run("", "validate", e.file("profile.yaml", c18ProfilePlain), e.file("data.jsonld", big), out); ok {
				e.expectFile("validate to a file, plain profile, 200 failing nodes, output path 4 bytes longer", r, out, want)
			}
		}
	})

	t.Run("Generate", func(t *testing.T) {
		e := newEnv(t)
		profiles := []struct{ label, text string }{
			{"plain profile", c18ProfilePlain},
			{"profile with '%', printf verbs, '<', '&', non-ASCII", c18ProfileSpecial},
			{"custom Rego profile using sprintf and the modulo operator", c18ProfileRego},
			{"profile whose custom Rego does not compile (generation does not compile it)", c18BrokenProfiles[7].text},
		}
		for _, n := range []string{"profile1", "profile8", "profile29"} {
			if p, ok := e.readRepoFile(n + "/profile.yaml"); ok {
				profiles = append(profiles, struct{ label, text string }{"test/data/integration/" + n, p})
			}
		}
		for _, p := range profiles {
			e.generate(p.label, p.text)
		}
	})

	t.Run("Normalize", func(t *testing.T) {
		e := newEnv(t)
		docs := []struct{ label, text string }{
			{"3 plain nodes", c18DataMany(3)},
			{"data with '%', '<', '&', non-ASCII in IRIs and literals", c18DataSpecial},
			{"literals that are printf verbs and HTML", `{"@id":"http://example.org/a?x=1&y=<2>","@type":"http://example.org/T","http://example.org/d":["100%","%s %d %v %%","<b>&amp;</b>","a > b","\u2028 \\ \" ñ — 検証"]}`},
			{"nested nodes with numbers and booleans", `{"@context":{"ex":"http://example.org/"},"@id":"ex:root","@type":"ex:T","ex:child":{"@id":"ex:kid%2F1","ex:n":[1,2.5,1e3,true,null],"ex:s":{"@value":"5%","@type":"http://www.w3.org/2001/XMLSchema#string"}}}`},
			{"500 nodes (more than a pipe buffer)", c18DataMany(500)},
		}
		for _, n := range []string{"profile1/negative", "profile29/negative", "profile29/positive"} {
			if d, ok := e.readRepoFile(n + ".data.jsonld"); ok {
				docs = append(docs, struct{ label, text string }{"test/data/integration/" + n + ".data.jsonld", d})
			}
		}
		for _, d := range docs {
			e.normalize(d.label, d.text)
		}
	})

	t.Run("Pipes", func(t *testing.T) {
		if !hasStdin {
			t.Skip("no /dev/stdin")
		}
		e := newEnv(t)
		big := c18DataMany(1200) // about 100 kB
		for _, s := range []struct{ label, profile, data string }{
			{"special characters", c18ProfileSpecial, c18DataSpecial},
			{"100 kB of data", c18ProfilePlain, big},
		} {
			want, err := c18LibReport(s.profile, s.data)
			if err != nil {
				t.Errorf("C18 harness: %s: the library fails: %v", s.label, c18Short(err.Error()))
				continue
			}
			if r, ok := e.run(s.data, "validate", e.file("profile.yaml", s.profile), "/dev/stdin"); ok {
				e.expectStdout("validate to stdout, DATA read from /dev/stdin (a pipe), "+s.label, r, want, true)
			}
			if r, ok := e.run(s.profile, "validate", "/dev/stdin", e.file("data.jsonld", s.data)); ok {
				e.expectStdout("validate to stdout, PROFILE read from /dev/stdin (a pipe), "+s.label, r, want, true)
			}
			out := e.file("out.jsonld", want+"tail")
			if r, ok := e.run(s.data, "validate", e.file("profile.yaml", s.profile), "/dev/stdin", out); ok {
				e.expectFile("validate to a file, DATA read from /dev/stdin (a pipe), "+s.label+", output path longer", r, out, want)
			}
			if norm, err := c18LibNormalized(s.data); err != nil {
				t.Errorf("C18 harness: %s: the library cannot normalise: %v", s.label, c18Short(err.Error()))
			} else if r, ok := e.run(s.data, "normalize", "/dev/stdin"); ok {
				e.expectStdout("normalize, DATA read from /dev/stdin (a pipe), "+s.label, r, norm, false)
			}
			if code, err := c18LibRego(s.profile); err != nil {
				t.Errorf("C18 harness: %s: the library cannot generate: %v", s.label, c18Short(err.Error()))
			} else if r, ok := e.run(s.profile, "generate", "/dev/stdin"); ok {
				e.expectStdout("generate, PROFILE read from /dev/stdin (a pipe), "+s.label, r, code, false)
			}
		}
		// a broken text through the pipe is still a failure
		if r, ok := e.run(c18BrokenData[2].text, "validate", e.file("profile.yaml", c18ProfilePlain), "/dev/stdin"); ok {
			e.expectFailure("validate to stdout, truncated data read from /dev/stdin", "the library cannot decode the data", r)
		}
	})

	t.Run("Failures", func(t *testing.T) {
		e := newEnv(t)
		for _, p := range c18BrokenProfiles {
			e.validateStdout(p.label+", conforming data", p.text, c18DataOK)
			e.validateFileAbsent(p.label+", conforming data", p.text, c18DataOK)
			e.generate(p.label, p.text)
		}
		for _, d := range c18BrokenData {
			e.validateStdout("plain profile, "+d.label, c18ProfilePlain, d.text)
			e.validateFileAbsent("plain profile, "+d.label, c18ProfilePlain, d.text)
			e.normalize(d.label, d.text)
		}
		e.validateStdout("empty profile, empty data", "", "")
		e.validateStdout("PROFILE and DATA swapped", c18DataMany(3), c18ProfilePlain)

		profile, data := e.file("profile.yaml", c18ProfilePlain), e.file("data.jsonld", c18DataMany(3))
		missing := e.fresh("missing")
		adir := e.fresh("directory")
		if err := os.Mkdir(adir, 0755); err != nil {
			t.Fatalf("C18 harness: %v", err)
		}
		failing := []struct {
			label, why string
			args       []string
		}{
			{"validate, PROFILE path missing", "the profile cannot be read", []string{"validate", missing, data}},
			{"validate, DATA path missing", "the data cannot be read", []string{"validate", profile, missing}},
			{"validate to a file, DATA path missing", "the data cannot be read", []string{"validate", profile, missing, e.fresh("out.jsonld")}},
			{"validate, PROFILE is a directory", "the profile cannot be read", []string{"validate", adir, data}},
			{"validate, DATA is a directory", "the data cannot be read", []string{"validate", profile, adir}},
			{"validate to a file, output path is a directory", "the report cannot be written", []string{"validate", profile, data, adir}},
			{"validate to a file, output path in a missing directory", "the report cannot be written", []string{"validate", profile, data, filepath.Join(missing, "out.jsonld")}},
			{"validate to a file, output path is the empty string", "the report cannot be written", []string{"validate", profile, data, ""}},
			{"validate without arguments", "PROFILE and DATA are required", []string{"validate"}},
			{"validate with PROFILE only", "DATA is required", []string{"validate", profile}},
			{"validate with 4 paths", "at most PROFILE DATA OUTPUT are accepted", []string{"validate", profile, data, e.fresh("out.jsonld"), e.fresh("extra")}},
			{"generate, PROFILE path missing", "the profile cannot be read", []string{"generate", missing}},
			{"generate, PROFILE is a directory", "the profile cannot be read", []string{"generate", adir}},
			{"generate without arguments", "PROFILE is required", []string{"generate"}},
			{"generate with 2 paths", "only PROFILE is accepted", []string{"generate", profile, data}},
			{"normalize, DATA path missing", "the data cannot be read", []string{"normalize", missing}},
			{"normalize, DATA is a directory", "the data cannot be read", []string{"normalize", adir}},
			{"normalize without arguments", "DATA is required", []string{"normalize"}},
			{"normalize with 2 paths", "only DATA is accepted", []string{"normalize", data, data}},
		}
		if fi, err := os.Stat("/dev/full"); err == nil && fi.Mode()&os.ModeCharDevice != 0 {
			failing = append(failing, struct {
				label, why string
				args       []string
			}{"validate to a file, output path accepts no bytes (/dev/full)", "the report cannot be written", []string{"validate", profile, data, "/dev/full"}})
		}
		for _, f := range failing {
			if r, ok := e.run("", f.args...); ok {
				e.expectFailure(f.label, f.why, r)
			}
		}
	})
}

// validateFileAbsent runs `acv validate P D OUT` on an absent OUT and judges it by what the library says about the two texts.
func (e *c18Env) validateFileAbsent(scenario, profile, data string) {
	want, err := c18LibReport(profile, data)
	out := e.fresh("out.jsonld")
	r, ok := e.run("", "validate", e.file("profile.yaml", profile), e.file("data.jsonld", data), out)
	if !ok {
		return
	}
	scenario = "validate to a file, " + scenario + ", output path absent"
	if err != nil {
		e.expectFailure(scenario, "the library fails with: "+c18Short(err.Error()), r)
		return
	}
	e.expectFile(scenario, r, out, want)
}

func (e *c18Env) generate(scenario, profile string) {
	want, err := c18LibRego(profile)
	r, ok := e.run("", "generate", e.file("profile.yaml", profile))
	if !ok {
		return
	}
	scenario = "generate, " + scenario
	if err != nil {
		e.expectFailure(scenario, "the library fails with: "+c18Short(err.Error()), r)
		return
	}
	e.expectStdout(scenario, r, want, false)
}

func (e *c18Env) normalize(scenario, data string) {
	want, err := c18LibNormalized(data)
	r, ok := e.run("", "normalize", e.file("data.jsonld", data))
	if !ok {
		return
	}
	scenario = "normalize, " + scenario
	if err != nil {
		e.expectFailure(scenario, "the library fails with: "+c18Short(err.Error()), r)
		return
	}
	e.expectStdout(scenario, r, want, false)
}
