package helpers

// Witness for property C18 / obligation post:helpers.OpenFile#opened:
// the output file must contain exactly the report whatever it held before.

import (
	"os"
	"path/filepath"
	"testing"
)

func TestReplayC18LongerPriorFile(t *testing.T) {
	dir := t.TempDir()
	path := filepath.Join(dir, "out.json")
	if err := os.WriteFile(path, []byte("0123456789-a-much-longer-previous-report"), 0644); err != nil {
		t.Fatal(err)
	}
	f := OpenOrCreateFile(path)
	WriteString(f, "REPORT")
	f.Close()
	got, _ := os.ReadFile(path)
	if string(got) != "REPORT" {
		t.Errorf("C18 violated: file holds %q, want %q", got, "REPORT")
	}
}
