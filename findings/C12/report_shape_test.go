package validator

// Bounded witness search for property C12 (reports are well-formed). Every report produced below is parsed again and must be:
// one JSON document (nothing but white space after it) that is a list of exactly one dialect instance whose doc:encodes holds
// exactly one validation-report node; every node object of the document (every JSON object outside @context) carries a non-empty
// @id that no other node of the document carries; `result`, when present, is a list of result nodes (never null), and every result
// - at the top level and in every traceValue.subResult list at any depth - has exactly one focusNode that is the @id of a node of
// the input graph (the graph is flattened here with the JSON-LD library itself, not with the validator's normaliser), a
// sourceShapeName that is a key of the profile's `validations` map (read here with the YAML library; `nested` is also accepted in
// sub-results), a non-empty resultMessage, and a non-empty trace whose entries are nodes with a non-empty component and a
// resultPath (a string; it may only be empty for the path-less component `rego`, an inline Rego constraint at validation level).
// Severities, counts of results and locations' values are other properties' business and are not judged.
//
// Bound (about 490 reports, sequential unless stated):
//  1. corpus (about 270 reports): every directory under ../../test/data/{tck,integration,shacl,semex,production} that holds a
//     profile.yaml, with every *.jsonld data file (not a report) next to it, at most the first 12 in name order for a production
//     directory; a profile that does not compile yields no report and is skipped;
//  2. level mixes: 27 profiles listing {none, one, two} validations under each of violation / warning / info, 5 data nodes;
//  3. nesting chains: `nested` constraints of depth 1..6 with two failing property constraints next to the nested one at every
//     level (several traces), two children at each of the first two levels (several sub-results per trace), with and without
//     lexical source maps (location nodes at every level): 12 reports;
//  4. qualified nested constraints: atLeast / atMost x count 0..2 x two inner constraints x plain / negated on parents with 0..3
//     failing children out of 3 and a parent without children: 24 reports;
//  5. messages: absent, text, blank, null, ~, integer, float, booleans, list, map, quoted, multi-line, template; each on a simple
//     and on a nested validation: 28 profiles (an explicitly empty message is TestNotJudgedC12EmptyMessage);
//  6. validation names: the first n of 10 names (spaces, quotes of both kinds, backslash, non-ASCII letters, dots, the word
//     `nested`, a lone quote) for n = 1..10, spread over the three levels, simple and nested bodies;
//  7. graph forms: flattened, expanded list, embedded tree, compacted with @context, blank nodes, @base-relative ids, ids that
//     need JSON escaping, a referenced but undescribed child: 8 reports;
//  8. the report as the command writes it to a file (helpers.OpenOrCreateFile + WriteString, read back before the file is
//     closed, as the command exits without closing): 4 reports x {no file, empty file, 3 earlier reports shorter or longer};
//  9. one compiled profile shared by 6 goroutines x 12 graphs with 0, 3, 6 or 9 failing nodes whose ids are private to the
//     goroutine and graph (each report judged against its own graph): 72 reports.
// Known findings of the unchanged tree, kept apart: TestNotJudgedC12EmptyMessage, TestNotJudgedC12EmptyOr.
// Witness search only.

import (
	"encoding/json"
	"fmt"
	"io"
	"os"
	"path/filepath"
	"sort"
	"strings"
	"sync"
	"testing"

	h "github.com/aml-org/amf-custom-validator/cmd/commands/helpers"
	"github.com/piprate/json-gold/ld"
	"gopkg.in/yaml.v3"
)

// ---- oracles ------------------------------------------------------------------------------------------------------------

// c12Ids is the set of node ids of the input graph, obtained from the JSON-LD library directly
func c12Ids(data string) (map[string]bool, error) {
	dec := json.NewDecoder(strings.NewReader(data))
	dec.UseNumber()
	var in any
	if err := dec.Decode(&in); err != nil {
		return nil, err
	}
	flat, err := ld.NewJsonLdProcessor().Flatten(in, map[string]any{}, ld.NewJsonLdOptions(""))
	if err != nil {
		return nil, err
	}
	ids := map[string]bool{}
	var nodes []any
	switch f := flat.(type) {
	case map[string]any:
		nodes, _ = f["@graph"].([]any)
	case []any:
		nodes = f
	}
	for _, n := range nodes {
		if m, ok := n.(map[string]any); ok {
			if id, ok := m["@id"].(string); ok {
				ids[id] = true
			}
		}
	}
	return ids, nil
}

// c12Names is the set of validations a profile defines, read with the YAML library
func c12Names(profile string) (map[string]bool, error) {
	var doc struct {
		Validations map[string]yaml.Node `yaml:"validations"`
	}
	if err := yaml.Unmarshal([]byte(profile), &doc); err != nil {
		return nil, err
	}
	names := map[string]bool{}
	for k := range doc.Validations {
		names[k] = true
	}
	return names, nil
}

// ---- the judge ----------------------------------------------------------------------------------------------------------

type c12Judge struct {
	t        *testing.T
	scenario string
	ids      map[string]bool
	names    map[string]bool
	seen     map[string]string
	reported int
	results  int // result nodes met, at any depth
	depth    int // deepest sub-result level met (1 = top level)
}

func (j *c12Judge) fail(format string, args ...any) {
	j.reported++
	if j.reported <= 4 {
		msg := fmt.Sprintf(format, args...)
		if len(msg) > 400 {
			msg = msg[:400] + "..."
		}
		j.t.Errorf("C12 violated: %s: %s", j.scenario, strings.ReplaceAll(msg, "\n", " "))
	} else if j.reported == 5 {
		j.t.Errorf("C12 violated: %s: further violations of this report are not listed", j.scenario)
	}
}

func c12Short(v any) string {
	b, _ := json.Marshal(v)
	if len(b) > 80 {
		return string(b[:80]) + "..."
	}
	return string(b)
}

// nodes: every JSON object outside @context (value objects excepted) is a node and needs a document-unique @id
func (j *c12Judge) nodes(v any, where string) {
	switch x := v.(type) {
	case []any:
		for i, e := range x {
			j.nodes(e, fmt.Sprintf("%s[%d]", where, i))
		}
	case map[string]any:
		if _, isValue := x["@value"]; isValue {
			return
		}
		id, ok := x["@id"].(string)
		if !ok || id == "" {
			j.fail("a node of @type %s has no @id, every node of a report has one; it is at %s", c12Short(x["@type"]), where)
		} else if other, dup := j.seen[id]; dup {
			j.fail("@id %q is carried by the node at %s and by the node at %s; ids are unique in the document", id, other, where)
		} else {
			j.seen[id] = where
		}
		keys := make([]string, 0, len(x))
		for k := range x {
			if k != "@context" {
				keys = append(keys, k)
			}
		}
		sort.Strings(keys)
		for _, k := range keys {
			j.nodes(x[k], where+"."+k)
		}
	}
}

func (j *c12Judge) resultList(v any, where string, level int) {
	list, ok := v.([]any)
	if !ok {
		j.fail("%s is %s, not a list of result nodes", where, c12Short(v))
		return
	}
	for i, e := range list {
		j.result(e, fmt.Sprintf("%s[%d]", where, i), level)
	}
}

func (j *c12Judge) result(v any, where string, level int) {
	m, ok := v.(map[string]any)
	if !ok {
		j.fail("%s is %s, not a result node (no focus node, validation name, message or trace)", where, c12Short(v))
		return
	}
	j.results++
	if level > j.depth {
		j.depth = level
	}
	switch f := m["focusNode"].(type) {
	case string:
		if !j.ids[f] {
			j.fail("%s has focusNode %q, which is not the @id of a node of the input graph", where, f)
		}
	default:
		j.fail("%s has focusNode %s; a result names exactly one focus node", where, c12Short(m["focusNode"]))
	}
	name, ok := m["sourceShapeName"].(string)
	if !ok {
		j.fail("%s has sourceShapeName %s; a result names a validation of the profile", where, c12Short(m["sourceShapeName"]))
	} else if !j.names[name] && !(level > 1 && name == "nested") {
		j.fail("%s has sourceShapeName %q, which is not a validation defined in the profile", where, name)
	}
	if msg, ok := m["resultMessage"].(string); !ok || msg == "" {
		j.fail("%s (validation %s) has resultMessage %s; a result has a non-empty message", where, c12Short(m["sourceShapeName"]), c12Short(m["resultMessage"]))
	}
	trace, ok := m["trace"].([]any)
	if !ok || len(trace) == 0 {
		j.fail("%s (validation %s) has trace %s; a result has a non-empty trace", where, c12Short(m["sourceShapeName"]), c12Short(m["trace"]))
	}
	for i, e := range trace {
		tw := fmt.Sprintf("%s.trace[%d]", where, i)
		tm, ok := e.(map[string]any)
		if !ok {
			j.fail("%s is %s, not a trace node", tw, c12Short(e))
			continue
		}
		comp, ok := tm["component"].(string)
		if !ok || comp == "" {
			j.fail("%s (path %s) has component %s; a trace entry names the failed component", tw, c12Short(tm["resultPath"]), c12Short(tm["component"]))
		}
		if path, ok := tm["resultPath"].(string); !ok || (path == "" && comp != "rego") {
			j.fail("%s (component %s) has resultPath %s; a trace entry names the path", tw, c12Short(tm["component"]), c12Short(tm["resultPath"]))
		}
		if tv, present := tm["traceValue"]; present {
			tvm, ok := tv.(map[string]any)
			if !ok {
				j.fail("%s.traceValue is %s, not a node", tw, c12Short(tv))
			} else if sub, present := tvm["subResult"]; present {
				j.resultList(sub, tw+".traceValue.subResult", level+1)
			}
		}
	}
}

// c12Judge judges one report text; it returns the judge so that scenarios can check that they exercised what they meant to
func c12Report(t *testing.T, scenario, report string, ids, names map[string]bool) *c12Judge {
	j := &c12Judge{t: t, scenario: scenario, ids: ids, names: names, seen: map[string]string{}}
	dec := json.NewDecoder(strings.NewReader(report))
	dec.UseNumber()
	var doc any
	if err := dec.Decode(&doc); err != nil {
		j.fail("the report (%d bytes) is not a JSON document: %v", len(report), err)
		return j
	}
	if _, err := dec.Token(); err != io.EOF {
		j.fail("the report text holds more than one JSON document (%d bytes, the first one ends at byte %d)", len(report), dec.InputOffset())
	}
	top, ok := doc.([]any)
	if !ok || len(top) != 1 {
		j.fail("the report is %s, not a list of exactly one dialect instance", c12Short(doc))
		return j
	}
	inst, ok := top[0].(map[string]any)
	if !ok || !strings.Contains(c12Short(inst["@type"]), `"meta:DialectInstance"`) {
		j.fail("the report holds %s, not a dialect instance", c12Short(top[0]))
		return j
	}
	j.nodes(doc, "$")
	enc, ok := inst["doc:encodes"].([]any)
	if !ok || len(enc) != 1 {
		j.fail("doc:encodes is %s, not exactly one validation-report node", c12Short(inst["doc:encodes"]))
		return j
	}
	rep, ok := enc[0].(map[string]any)
	if !ok || !strings.Contains(c12Short(rep["@type"]), `"shacl:ValidationReport"`) {
		j.fail("doc:encodes holds %s, not a validation-report node", c12Short(enc[0]))
		return j
	}
	if res, present := rep["result"]; present {
		j.resultList(res, "result", 1)
	}
	return j
}

// c12Run validates and judges; a failed validation is no report and is not judged (nil)
func c12Run(t *testing.T, scenario, profile, data string) *c12Judge {
	ids, err := c12Ids(data)
	if err != nil {
		t.Errorf("C12 harness: %s: cannot flatten the data: %v", scenario, err)
		return nil
	}
	names, err := c12Names(profile)
	if err != nil {
		t.Errorf("C12 harness: %s: cannot read the profile: %v", scenario, err)
		return nil
	}
	rep, err := Validate(profile, data, false, nil)
	if err != nil {
		t.Errorf("C12 harness: %s: no report: %v", scenario, strings.Split(err.Error(), "\n")[0])
		return nil
	}
	return c12Report(t, scenario, rep, ids, names)
}

// ---- 1. corpus ----------------------------------------------------------------------------------------------------------

func TestReplayC12Corpus(t *testing.T) {
	root := "../../test/data"
	reports, withResults, deep := 0, 0, 0
	for _, sub := range []string{"tck", "integration", "shacl", "semex", "production"} {
		var dirs []string
		_ = filepath.Walk(filepath.Join(root, sub), func(p string, info os.FileInfo, err error) error {
			if err == nil && !info.IsDir() && info.Name() == "profile.yaml" {
				dirs = append(dirs, filepath.Dir(p))
			}
			return nil
		})
		sort.Strings(dirs)
		if len(dirs) == 0 {
			t.Errorf("C12 harness: no profile found under %s/%s", root, sub)
		}
		for _, dir := range dirs {
			profile := read(filepath.Join(dir, "profile.yaml"))
			files, _ := filepath.Glob(filepath.Join(dir, "*.jsonld"))
			sort.Strings(files)
			var data []string
			for _, f := range files {
				if !strings.Contains(filepath.Base(f), "report") {
					data = append(data, f)
				}
			}
			if sub == "production" && len(data) > 12 {
				data = data[:12] // in name order: the negative examples first
			}
			if len(data) == 0 {
				continue
			}
			names, err := c12Names(profile)
			if err != nil {
				t.Errorf("C12 harness: %s: cannot read the profile: %v", dir, err)
				continue
			}
			compiled, err := ProcessProfile(profile, false, nil)
			if err != nil {
				t.Logf("skipped %s: the profile does not compile (no report to judge): %v", dir, strings.Split(err.Error(), "\n")[0])
				continue
			}
			for _, f := range data {
				scenario := strings.TrimPrefix(f, root+"/")
				text := read(f)
				ids, err := c12Ids(text)
				if err != nil {
					t.Errorf("C12 harness: %s: cannot flatten the data: %v", scenario, err)
					continue
				}
				rep, err := ValidateCompiled(compiled, text, false, nil)
				if err != nil {
					t.Errorf("C12 harness: %s: no report: %v", scenario, strings.Split(err.Error(), "\n")[0])
					continue
				}
				j := c12Report(t, scenario, rep, ids, names)
				reports++
				if j.results > 0 {
					withResults++
				}
				if j.depth > 2 {
					deep++
				}
			}
		}
	}
	t.Logf("corpus: %d reports, %d with results, %d with sub-results below the second level", reports, withResults, deep)
	if reports < 100 || withResults < 50 || deep < 3 {
		t.Errorf("C12 harness: the corpus shrank: %d reports, %d with results, %d deep", reports, withResults, deep)
	}
}

// ---- hand-written profiles ----------------------------------------------------------------------------------------------

const c12Head = "#%Validation Profile 1.0\nprofile: C12\nprefixes:\n  ex: http://example.org/\n"

func c12Node(id, class string, props ...string) string {
	s := fmt.Sprintf(`{"@id": "http://example.org/%s", "@type": ["http://example.org/%s"]`, id, class)
	for i := 0; i+1 < len(props); i += 2 {
		s += fmt.Sprintf(`, "http://example.org/%s": %s`, props[i], props[i+1])
	}
	return s + "}"
}

func c12Graph(nodes []string) string { return `{"@graph": [` + strings.Join(nodes, ",\n") + `]}` }

func c12Refs(ids ...string) string {
	var r []string
	for _, id := range ids {
		r = append(r, fmt.Sprintf(`{"@id": "http://example.org/%s"}`, id))
	}
	return "[" + strings.Join(r, ",") + "]"
}

// 2. level mixes

func TestReplayC12LevelMixes(t *testing.T) {
	data := c12Graph([]string{
		c12Node("n1", "T", "a", `"1"`),
		c12Node("n2", "T", "b", `"1"`),
		c12Node("n3", "T", "a", `"1"`, "b", `"1"`, "c", `"1"`),
		c12Node("n4", "T", "c", `"1"`),
		c12Node("n5", "T"),
	})
	choices := [][]string{{}, {"has-a"}, {"has-c", "has-d"}}
	other := [][]string{{}, {"has-b"}, {"has-d", "has-a"}}
	third := [][]string{{}, {"has-d"}, {"has-b", "has-c"}}
	for v := 0; v < 3; v++ {
		for w := 0; w < 3; w++ {
			for i := 0; i < 3; i++ {
				p := c12Head
				expectResults := false
				for _, l := range []struct {
					level string
					vs    []string
				}{{"violation", choices[v]}, {"warning", other[w]}, {"info", third[i]}} {
					if len(l.vs) > 0 {
						expectResults = true
						p += l.level + ":\n"
						for _, n := range l.vs {
							p += "  - " + n + "\n"
						}
					}
				}
				p += "validations:\n"
				for _, n := range []string{"has-a", "has-b", "has-c", "has-d"} {
					p += "  " + n + ":\n    targetClass: ex.T\n    message: missing " + n[4:] + "\n    propertyConstraints:\n      ex." + n[4:] + ":\n        minCount: 1\n"
				}
				scenario := fmt.Sprintf("level mix violation=%v warning=%v info=%v on 5 nodes", choices[v], other[w], third[i])
				j := c12Run(t, scenario, p, data)
				if j != nil && expectResults != (j.results > 0) {
					t.Errorf("C12 harness: %s: %d results", scenario, j.results)
				}
			}
		}
	}
}

// 3. nesting chains

func c12ChainProfile(depth int) string {
	p := c12Head + "violation:\n  - chain\nvalidations:\n  chain:\n    targetClass: ex.L0\n    message: broken chain\n"
	indent := "    "
	for d := 0; d < depth; d++ {
		p += indent + "propertyConstraints:\n"
		p += indent + "  ex.v:\n" + indent + "    minCount: 1\n"
		p += indent + "  ex.w:\n" + indent + "    pattern: ^ok$\n"
		p += indent + "  ex.child:\n" + indent + "    nested:\n"
		indent += "      "
	}
	p += indent + "propertyConstraints:\n"
	p += indent + "  ex.v:\n" + indent + "    minCount: 1\n"
	p += indent + "  ex.w:\n" + indent + "    pattern: ^ok$\n"
	return p
}

// a tree of depth `depth`: two children at the first two levels, one below; no node has ex:v and every ex:w is wrong
func c12ChainData(depth int, lexical bool) string {
	var nodes []string
	var build func(id string, level int)
	build = func(id string, level int) {
		props := []string{"w", `"bad"`}
		if level < depth {
			kids := []string{id + "-0"}
			if level < 2 {
				kids = append(kids, id+"-1")
			}
			props = append(props, "child", c12Refs(kids...))
			for _, k := range kids {
				build(k, level+1)
			}
		}
		n := c12Node(id, fmt.Sprintf("L%d", level), props...)
		if lexical {
			full := "http://example.org/" + id
			n = strings.TrimSuffix(n, "}") + fmt.Sprintf(`, "http://a.ml/vocabularies/document-source-maps#sources": [{"@id": "%s/sm"}]}`, full)
			nodes = append(nodes, fmt.Sprintf(`{"@id": "%s/sm", "@type": ["http://a.ml/vocabularies/document-source-maps#SourceMap"], "http://a.ml/vocabularies/document-source-maps#lexical": [{"@id": "%s/sm/l"}]}`, full, full))
			nodes = append(nodes, fmt.Sprintf(`{"@id": "%s/sm/l", "http://a.ml/vocabularies/document-source-maps#element": %q, "http://a.ml/vocabularies/document-source-maps#value": "[(%d,%d)-(%d,%d)]"}`, full, full, level+1, len(id), level+2, len(id)+3))
		}
		nodes = append(nodes, n)
	}
	build("r", 0)
	if lexical {
		nodes = append(nodes, `{"@id": "http://example.org/info", "@type": ["http://a.ml/vocabularies/document#BaseUnitSourceInformation"], "http://a.ml/vocabularies/document#rootLocation": "file:///api/root.raml"}`)
	}
	return c12Graph(nodes)
}

func TestReplayC12NestingChains(t *testing.T) {
	for depth := 1; depth <= 6; depth++ {
		for _, lexical := range []bool{false, true} {
			scenario := fmt.Sprintf("nested chain of depth %d, 3 failing constraints per level, lexical=%v", depth, lexical)
			j := c12Run(t, scenario, c12ChainProfile(depth), c12ChainData(depth, lexical))
			if j != nil && j.depth != depth+1 {
				t.Errorf("C12 harness: %s: sub-results reach level %d, expected %d", scenario, j.depth, depth+1)
			}
		}
	}
}

// 4. qualified nested constraints

func TestReplayC12QualifiedNested(t *testing.T) {
	// p<k> has 3 children of which k lack ex:v
	var nodes []string
	for k := 0; k <= 3; k++ {
		var kids []string
		for c := 0; c < 3; c++ {
			id := fmt.Sprintf("p%d-c%d", k, c)
			kids = append(kids, id)
			if c < k {
				nodes = append(nodes, c12Node(id, "C"))
			} else {
				nodes = append(nodes, c12Node(id, "C", "v", `"1"`))
			}
		}
		nodes = append(nodes, c12Node(fmt.Sprintf("p%d", k), "P", "child", c12Refs(kids...)))
	}
	nodes = append(nodes, c12Node("p-none", "P"))
	data := c12Graph(nodes)
	total := 0
	for _, op := range []string{"atLeast", "atMost"} {
		for count := 0; count <= 2; count++ {
			for _, inner := range []string{"minCount: 1", "maxCount: 0"} { // children with / without ex:v satisfy the inner validation
				for _, negated := range []bool{false, true} {
					p := c12Head + "warning:\n  - qualified\nvalidations:\n  qualified:\n    targetClass: ex.P\n    message: wrong number of good children\n"
					indent := "    "
					if negated {
						p += "    not:\n"
						indent = "      "
					}
					p += indent + "propertyConstraints:\n" + indent + "  ex.child:\n" + indent + "    " + op + ":\n"
					p += indent + "      count: " + fmt.Sprint(count) + "\n" + indent + "      validation:\n"
					p += indent + "        propertyConstraints:\n" + indent + "          ex.v:\n" + indent + "            " + inner + "\n"
					scenario := fmt.Sprintf("%s count %d of children with ex.v %s, negated=%v, parents with 0..3 children lacking ex.v", op, count, inner, negated)
					if j := c12Run(t, scenario, p, data); j != nil {
						total += j.results
					}
				}
			}
		}
	}
	t.Logf("qualified nested constraints: %d results", total)
	if total < 40 {
		t.Errorf("C12 harness: the qualified scenarios produced only %d results", total)
	}
}

// 5. messages

func TestReplayC12Messages(t *testing.T) {
	data := c12Graph([]string{
		c12Node("n1", "T", "child", c12Refs("k1", "k2")),
		c12Node("k1", "K"), c12Node("k2", "K", "v", `"1"`),
	})
	messages := []struct{ label, line string }{
		{"absent", ""},
		{"plain text", "    message: The node is wrong\n"},
		{"blank", "    message:\n"},
		{"null", "    message: null\n"},
		{"tilde", "    message: ~\n"},
		{"number", "    message: 42\n"},
		{"float", "    message: 1.5\n"},
		{"boolean true", "    message: true\n"},
		{"boolean false", "    message: false\n"},
		{"list", "    message:\n      - one\n      - two\n"},
		{"map", "    message:\n      text: one\n"},
		{"double-quoted with quotes", "    message: \"say \\\"hi\\\" and 'bye'\"\n"},
		{"multi-line", "    message: |\n      first line\n      second line\n"},
		{"template", "    message: Value {{ex.v}} is wrong\n"},
	}
	bodies := []struct{ label, text string }{
		{"simple", "    propertyConstraints:\n      ex.v:\n        minCount: 1\n"},
		{"nested", "    propertyConstraints:\n      ex.child:\n        nested:\n          propertyConstraints:\n            ex.v:\n              minCount: 1\n"},
	}
	for _, m := range messages {
		for _, b := range bodies {
			p := c12Head + "violation:\n  - v1\nvalidations:\n  v1:\n    targetClass: ex.T\n" + m.line + b.text
			scenario := fmt.Sprintf("message %s (%q) on a %s validation", m.label, strings.TrimSpace(m.line), b.label)
			names, _ := c12Names(p)
			ids, _ := c12Ids(data)
			rep, err := Validate(p, data, false, nil)
			if err != nil {
				t.Logf("skipped %s: no report to judge: %v", scenario, strings.Split(err.Error(), "\n")[0])
				continue // a profile the parser rejects yields no report: nothing to judge
			}
			if j := c12Report(t, scenario, rep, ids, names); j.results == 0 {
				t.Errorf("C12 harness: %s: no result", scenario)
			}
		}
	}
}

// Not part of the suite (not matched by the run pattern): an explicitly empty message is reported as written, so the result has an
// empty resultMessage. C13 demands the message "as written", C12 a non-empty one; on this input the two statements disagree and the
// design reads "as written" as the stronger demand (DESIGN.md, C12).
func TestNotJudgedC12EmptyMessage(t *testing.T) {
	data := c12Graph([]string{c12Node("n1", "T")})
	for _, line := range []string{"    message: \"\"\n", "    message: ''\n"} {
		p := c12Head + "violation:\n  - v1\nvalidations:\n  v1:\n    targetClass: ex.T\n" + line + "    propertyConstraints:\n      ex.v:\n        minCount: 1\n"
		c12Run(t, fmt.Sprintf("message written as an empty string (%q)", strings.TrimSpace(line)), p, data)
	}
}

// Not part of the suite: a validation whose body is an empty disjunction (`or: []`) fails every target node with an empty trace;
// an empty connective is outside the well-formed profiles the property is read over (DESIGN.md, C12).
func TestNotJudgedC12EmptyOr(t *testing.T) {
	data := c12Graph([]string{c12Node("n1", "T")})
	p := c12Head + "violation:\n  - v1\nvalidations:\n  v1:\n    targetClass: ex.T\n    message: m\n    or: []\n"
	c12Run(t, "validation with the body `or: []`", p, data)
}

// 6. validation names

func TestReplayC12ValidationNames(t *testing.T) {
	data := c12Graph([]string{c12Node("n1", "T", "child", c12Refs("k1")), c12Node("k1", "K"), c12Node("n2", "T", "v", `"1"`)})
	names := []string{"plain", "with space", "dotted.name-1", `say "hi"`, `it's`, `both "a" and 'b'`, `back\slash`, "válidación-ñ", "nested", `"`}
	for n := 1; n <= len(names); n++ {
		// the first n names at once, spread over the levels
		p := c12Head
		levels := map[string][]string{}
		for i, name := range names[:n] {
			l := []string{"violation", "warning", "info"}[i%3]
			levels[l] = append(levels[l], name)
		}
		for _, l := range []string{"violation", "warning", "info"} {
			if len(levels[l]) > 0 {
				p += l + ":\n"
				for _, name := range levels[l] {
					q, _ := json.Marshal(name)
					p += "  - " + string(q) + "\n"
				}
			}
		}
		p += "validations:\n"
		for i, name := range names[:n] {
			q, _ := json.Marshal(name)
			p += "  " + string(q) + ":\n    targetClass: ex.T\n    message: m\n"
			if i%2 == 0 {
				p += "    propertyConstraints:\n      ex.v:\n        minCount: 1\n"
			} else {
				p += "    propertyConstraints:\n      ex.child:\n        nested:\n          propertyConstraints:\n            ex.v:\n              minCount: 1\n"
			}
		}
		scenario := fmt.Sprintf("validations named %q", names[:n])
		if j := c12Run(t, scenario, p, data); j != nil && j.results < n {
			t.Errorf("C12 harness: %s: %d results", scenario, j.results)
		}
	}
}

// 7. graph forms

func TestReplayC12GraphForms(t *testing.T) {
	p := c12Head + "violation:\n  - has-v\n  - kids\nvalidations:\n  has-v:\n    targetClass: ex.T\n    message: no v\n    propertyConstraints:\n      ex.v:\n        minCount: 1\n" +
		"  kids:\n    targetClass: ex.T\n    message: bad kid\n    propertyConstraints:\n      ex.child:\n        nested:\n          propertyConstraints:\n            ex.v:\n              minCount: 1\n"
	forms := []struct{ label, data string }{
		{"flattened @graph", c12Graph([]string{c12Node("n1", "T", "child", c12Refs("k1", "k2")), c12Node("k1", "K"), c12Node("k2", "K")})},
		{"expanded list without @graph", "[" + c12Node("n1", "T", "child", c12Refs("k1", "k2")) + "," + c12Node("k1", "K") + "," + c12Node("k2", "K") + "]"},
		{"single embedded tree", c12Node("n1", "T", "child", "["+c12Node("k1", "K")+","+c12Node("k2", "K")+"]")},
		{"compacted with @context", `{"@context": {"ex": "http://example.org/", "child": {"@id": "ex:child", "@type": "@id"}}, "@graph": [{"@id": "ex:n1", "@type": "ex:T", "child": ["ex:k1", "ex:k2"]}, {"@id": "ex:k1", "@type": "ex:K"}, {"@id": "ex:k2", "@type": "ex:K"}]}`},
		{"blank nodes", `{"@graph": [{"@type": ["http://example.org/T"], "http://example.org/child": [{"@type": ["http://example.org/K"]}, {"@type": ["http://example.org/K"]}]}, {"@type": ["http://example.org/T"]}]}`},
		{"relative ids under @base", `{"@context": {"@base": "http://example.org/base/", "ex": "http://example.org/"}, "@graph": [{"@id": "n1", "@type": "ex:T", "ex:child": [{"@id": "k1"}]}, {"@id": "k1", "@type": "ex:K"}]}`},
		{"ids that need escaping", `{"@graph": [{"@id": "http://example.org/a b\"c\\d/é#x", "@type": ["http://example.org/T"], "http://example.org/child": [{"@id": "http://example.org/k?q=1&r=<2>"}]}, {"@id": "http://example.org/k?q=1&r=<2>", "@type": ["http://example.org/K"]}]}`},
		{"child referenced but not described", c12Graph([]string{c12Node("n1", "T", "child", c12Refs("ghost"))})},
	}
	for _, f := range forms {
		scenario := "graph given as " + f.label
		if j := c12Run(t, scenario, p, f.data); j != nil && j.results < 1 {
			t.Errorf("C12 harness: %s: %d results", scenario, j.results)
		}
	}
}

// 8. the report file

func TestReplayC12ReportFile(t *testing.T) {
	profile := c12Head + "violation:\n  - has-v\nvalidations:\n  has-v:\n    targetClass: ex.T\n    message: no v\n    propertyConstraints:\n      ex.v:\n        minCount: 1\n"
	names, _ := c12Names(profile)
	graphs := map[string]string{
		"conforming":           c12Graph([]string{c12Node("n1", "T", "v", `"1"`)}),
		"one result":           c12Graph([]string{c12Node("n1", "T")}),
		"three results":        c12Graph([]string{c12Node("n1", "T"), c12Node("n2", "T"), c12Node("n3", "T")}),
		"conforming, no nodes": c12Graph(nil),
	}
	reports := map[string]string{}
	for k, g := range graphs {
		rep, err := Validate(profile, g, false, nil)
		if err != nil {
			t.Errorf("C12 harness: report file, %s: %v", k, err)
			return
		}
		reports[k] = rep
	}
	dir := t.TempDir()
	n := 0
	for _, now := range []string{"conforming", "one result", "three results", "conforming, no nodes"} {
		for _, before := range []string{"(no file)", "(empty file)", "conforming", "one result", "three results"} {
			n++
			path := filepath.Join(dir, fmt.Sprintf("report%d.jsonld", n))
			switch before {
			case "(no file)":
			case "(empty file)":
				_ = os.WriteFile(path, nil, 0644)
			default:
				_ = os.WriteFile(path, []byte(reports[before]), 0644)
			}
			file := h.OpenOrCreateFile(path)
			h.WriteString(file, reports[now])
			written, err := os.ReadFile(path) // the command exits without closing the file
			_ = file.Close()
			if err != nil {
				t.Errorf("C12 harness: report file: %v", err)
				continue
			}
			ids, _ := c12Ids(graphs[now])
			c12Report(t, fmt.Sprintf("report %q (%d bytes) written to an output file that held %s", now, len(reports[now]), before), string(written), ids, names)
		}
	}
}

// 9. one compiled profile shared by goroutines

func TestReplayC12SharedProfile(t *testing.T) {
	profile := c12Head + "violation:\n  - has-v\nvalidations:\n  has-v:\n    targetClass: ex.T\n    message: no v\n    propertyConstraints:\n      ex.v:\n        minCount: 1\n"
	names, _ := c12Names(profile)
	compiled, err := ProcessProfile(profile, false, nil)
	if err != nil {
		t.Errorf("C12 harness: shared profile: %v", err)
		return
	}
	const workers, graphs = 6, 12
	type outcome struct {
		scenario, report string
		ids              map[string]bool
		err              error
	}
	out := make([][]outcome, workers)
	var wg sync.WaitGroup
	for w := 0; w < workers; w++ {
		wg.Add(1)
		go func(w int) {
			defer wg.Done()
			for g := 0; g < graphs; g++ {
				var nodes []string
				for k := 0; k < (w+g)%4*3; k++ { // 0, 3, 6 or 9 failing nodes, ids private to the worker and the graph
					nodes = append(nodes, c12Node(fmt.Sprintf("w%d-g%d-n%d", w, g, k), "T"))
				}
				nodes = append(nodes, c12Node(fmt.Sprintf("w%d-g%d-ok", w, g), "T", "v", `"1"`))
				data := c12Graph(nodes)
				ids, _ := c12Ids(data)
				rep, err := ValidateCompiled(compiled, data, false, nil)
				out[w] = append(out[w], outcome{fmt.Sprintf("goroutine %d of %d sharing one compiled profile, graph %d with %d failing nodes", w, workers, g, len(nodes)-1), rep, ids, err})
			}
		}(w)
	}
	wg.Wait()
	for _, perWorker := range out {
		for _, o := range perWorker {
			if o.err != nil {
				t.Errorf("C12 harness: %s: %v", o.scenario, o.err)
				continue
			}
			c12Report(t, o.scenario, o.report, o.ids, names)
		}
	}
}

// Added after the seventh round of seeded changes: templates no golden file pins. (a) A message that is nothing but one
// placeholder, with values of every JSON type: the message stays a non-empty string. (b) Every constraint kind, failing, at top
// level and inside a nested validation: each trace entry names a non-empty component. (c) Constraints on a path with an inverse
// step, plain and nested: the path named by the trace entry is the path of the constraint as the profile wrote it (expanded),
// inverse marker included.
func TestReplayC12UnpinnedTemplates(t *testing.T) {
	// (a)
	data := c12Graph([]string{
		c12Node("n1", "T", "age", `30`, "tag", `["x", "y"]`, "flag", `true`, "ratio", `1.5`, "ref", c12Refs("k1"), "name", `"Ann"`),
		c12Node("k1", "K"),
	})
	ids, _ := c12Ids(data)
	for _, ph := range []string{"{{ex.age}}", "{{ ex.tag }}", "{{ex.flag}}", "{{ex.ratio}}", "{{ex.ref}}", "{{ex.name}}", "{{ex.absent}}", "{{ex.age}}{{ex.name}}"} {
		p := c12Head + "violation:\n  - v1\nvalidations:\n  v1:\n    targetClass: ex.T\n    message: \"" + ph + "\"\n    propertyConstraints:\n      ex.missing:\n        minCount: 1\n"
		names, _ := c12Names(p)
		scenario := "message that is only the placeholder " + ph
		rep, err := Validate(p, data, false, nil)
		if err != nil {
			t.Errorf("C12 violated: %s: no report: %v", scenario, strings.Split(err.Error(), "\n")[0])
			continue
		}
		if j := c12Report(t, scenario, rep, ids, names); j.results == 0 {
			t.Errorf("C12 harness: %s: no result", scenario)
		}
	}
	// (b) and (c)
	data = c12Graph([]string{
		c12Node("n1", "T", "p", `"zzz"`, "q", `"aaa"`, "num", `5`, "other", `3`, "child", c12Refs("k1")),
		c12Node("k1", "K", "p", `"zzz"`, "q", `"aaa"`, "num", `5`, "other", `3`, "parent", c12Refs("n1")),
	})
	ids, _ = c12Ids(data)
	kinds := []struct{ label, path, constraint string }{
		{"minCount", "ex.none", "minCount: 1"}, {"maxCount", "ex.p", "maxCount: 0"}, {"exactCount", "ex.p", "exactCount: 2"},
		{"pattern", "ex.p", "pattern: ^a"}, {"in", "ex.p", "in: [a]"}, {"containsAll", "ex.p", "containsAll: [a]"}, {"containsSome", "ex.p", "containsSome: [a]"},
		{"minInclusive", "ex.num", "minInclusive: 9"}, {"maxInclusive", "ex.num", "maxInclusive: 1"}, {"minExclusive", "ex.num", "minExclusive: 5"}, {"maxExclusive", "ex.num", "maxExclusive: 5"},
		{"minLength", "ex.p", "minLength: 9"}, {"maxLength", "ex.p", "maxLength: 1"}, {"datatype", "ex.p", "datatype: xsd.integer"},
		{"lessThanProperty", "ex.num", "lessThanProperty: ex.other"}, {"lessThanOrEqualsToProperty", "ex.num", "lessThanOrEqualsToProperty: ex.other"},
		{"equalsToProperty", "ex.num", "equalsToProperty: ex.other"}, {"disjointWithProperty", "ex.num", "disjointWithProperty: ex.num"},
		{"moreThanProperty", "ex.other", "moreThanProperty: ex.num"}, {"moreThanOrEqualsToProperty", "ex.other", "moreThanOrEqualsToProperty: ex.num"},
		{"minCount on an inverse path", "ex.none^", "minCount: 1"}, {"maxCount on an inverse path (top level)", "ex.parent^", "maxCount: 0"}, {"maxCount on an inverse path (nested)", "ex.child^", "maxCount: 0"},
	}
	for _, k := range kinds {
		for _, nested := range []bool{false, true} {
			if (nested && strings.HasSuffix(k.label, "(top level)")) || (!nested && strings.HasSuffix(k.label, "(nested)")) {
				continue
			}
			body := "    propertyConstraints:\n      " + k.path + ":\n        " + k.constraint + "\n"
			target := "ex.T"
			scenario := "failing constraint " + k.label
			if nested {
				body = "    propertyConstraints:\n      ex.child:\n        nested:\n          propertyConstraints:\n            " + k.path + ":\n              " + k.constraint + "\n"
				scenario += " inside a nested validation"
			}
			p := c12Head + "violation:\n  - v1\nvalidations:\n  v1:\n    targetClass: " + target + "\n    message: m\n" + body
			names, _ := c12Names(p)
			rep, err := Validate(p, data, false, nil)
			if err != nil {
				t.Errorf("C12 violated: %s: no report: %v", scenario, strings.Split(err.Error(), "\n")[0])
				continue
			}
			if j := c12Report(t, scenario, rep, ids, names); j.results == 0 {
				t.Errorf("C12 harness: %s: no result", scenario)
			}
		}
	}
	// (c) the path a trace entry names
	for _, c := range []struct{ label, body, want string }{
		{"nested on an inverse path", "    propertyConstraints:\n      ex.parent^:\n        nested:\n          propertyConstraints:\n            ex.none:\n              minCount: 1\n", "http://example.org/parent^"},
		{"atLeast on an inverse path", "    propertyConstraints:\n      ex.parent^:\n        atLeast:\n          count: 1\n          validation:\n            propertyConstraints:\n              ex.none:\n                minCount: 1\n", "http://example.org/parent^"},
		{"maxCount on an inverse path", "    propertyConstraints:\n      ex.parent^:\n        maxCount: 0\n", "http://example.org/parent^"},
		{"minCount on a forward path", "    propertyConstraints:\n      ex.none:\n        minCount: 1\n", "http://example.org/none"},
	} {
		p := c12Head + "violation:\n  - v1\nvalidations:\n  v1:\n    targetClass: ex.T\n    message: m\n" + c.body
		rep, err := Validate(p, data, false, nil)
		if err != nil {
			t.Errorf("C12 violated: %s: no report: %v", c.label, strings.Split(err.Error(), "\n")[0])
			continue
		}
		var doc []map[string]any
		if json.Unmarshal([]byte(rep), &doc) != nil || len(doc) == 0 {
			continue
		}
		r := doc[0]["doc:encodes"].([]any)[0].(map[string]any)
		res, _ := r["result"].([]any)
		found := false
		for _, x := range res {
			m, _ := x.(map[string]any)
			tr, _ := m["trace"].([]any)
			for _, y := range tr {
				tm, _ := y.(map[string]any)
				if fmt.Sprint(tm["resultPath"]) == c.want {
					found = true
				}
			}
		}
		if !found {
			t.Errorf("C12 violated: %s: no trace entry of the result names the path %s of the failed constraint", c.label, c.want)
		}
	}
}
