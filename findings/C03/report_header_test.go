package validator

// Bounded witness search for property C03: profiles that list validations under every mix of levels (also the same validation
// under two levels) are run on data where a known set of nodes fails each validation; the report must list exactly one result
// per (level, validation, failing node) with the severity of that level, conforms must be true exactly when no result has
// Violation severity, the result list must be absent exactly when empty, profileName must be the profile's name, and
// dateCreated must be present exactly when the report configuration asks for it and then equal the configured instant
// (also for a configured time outside UTC). Witness search only.

import (
	"encoding/json"
	"fmt"
	"sort"
	"strings"
	"testing"
	"time"

	c "github.com/aml-org/amf-custom-validator/pkg/config"
)

type c03Config struct{ t time.Time }

func (x c03Config) ReportCreationTime() time.Time { return x.t }

const c03Data = `{"@graph":[
 {"@id":"http://example.org/n1","@type":"http://example.org/T","http://example.org/a":"1"},
 {"@id":"http://example.org/n2","@type":"http://example.org/T","http://example.org/b":"1"},
 {"@id":"http://example.org/n3","@type":"http://example.org/T","http://example.org/a":"1","http://example.org/b":"1","http://example.org/c":"1"}
]}`

// which nodes fail "has-x" (minCount 1 on ex.x)
var c03Fails = map[string][]string{"has-a": {"n2"}, "has-b": {"n1"}, "has-c": {"n1", "n2"}, "has-d": {"n1", "n2", "n3"}, "has-t": {}}

func c03Profile(name string, levels map[string][]string) string {
	q, _ := json.Marshal(name)
	p := "#%Validation Profile 1.0\nprofile: " + string(q) + "\nprefixes:\n  ex: http://example.org/\n"
	for _, l := range []string{"violation", "warning", "info"} {
		if len(levels[l]) > 0 {
			p += l + ":\n"
			for _, v := range levels[l] {
				p += "  - " + v + "\n"
			}
		}
	}
	p += "validations:\n"
	for _, v := range []string{"has-a", "has-b", "has-c", "has-d"} {
		p += "  " + v + ":\n    targetClass: ex.T\n    message: missing " + v[4:] + "\n    propertyConstraints:\n      ex." + v[4:] + ":\n        minCount: 1\n"
	}
	p += "  has-t:\n    targetClass: ex.T\n    message: never fails\n    propertyConstraints:\n      ex.zzz:\n        maxCount: 5\n"
	return p
}

func TestReplayC03ReportHeader(t *testing.T) {
	sev := map[string]string{"violation": "http://www.w3.org/ns/shacl#Violation", "warning": "http://www.w3.org/ns/shacl#Warning", "info": "http://www.w3.org/ns/shacl#Info"}
	plus5 := time.FixedZone("UTC+5", 5*3600)
	configs := []struct {
		label   string
		vc      c.ValidationConfiguration
		rc      c.ReportConfiguration
		instant time.Time
	}{
		{"time included, UTC", c03Config{time.Date(2001, 2, 3, 4, 5, 6, 0, time.UTC)}, c.ReportConfiguration{IncludeReportCreationTime: true, ReportSchemaIri: c.DefaultReportConfiguration().ReportSchemaIri, LexicalSchemaIri: c.DefaultReportConfiguration().LexicalSchemaIri}, time.Date(2001, 2, 3, 4, 5, 6, 0, time.UTC)},
		{"time included, UTC+5", c03Config{time.Date(2001, 2, 3, 4, 5, 6, 0, plus5)}, c.ReportConfiguration{IncludeReportCreationTime: true, ReportSchemaIri: c.DefaultReportConfiguration().ReportSchemaIri, LexicalSchemaIri: c.DefaultReportConfiguration().LexicalSchemaIri}, time.Date(2001, 2, 3, 4, 5, 6, 0, plus5)},
		{"time not included", c03Config{time.Date(2001, 2, 3, 4, 5, 6, 0, time.UTC)}, c.ReportConfiguration{IncludeReportCreationTime: false, ReportSchemaIri: c.DefaultReportConfiguration().ReportSchemaIri, LexicalSchemaIri: c.DefaultReportConfiguration().LexicalSchemaIri}, time.Time{}},
	}
	mixes := []map[string][]string{
		{"violation": {"has-a"}},
		{"warning": {"has-a", "has-c"}},
		{"info": {"has-d"}},
		{"violation": {"has-t"}},
		{"violation": {"has-a"}, "info": {"has-b"}},
		{"violation": {"has-a", "has-c"}, "warning": {"has-b"}, "info": {"has-d", "has-t"}},
		{"warning": {"has-b"}, "info": {"has-c"}},
		{"violation": {"has-a", "has-b"}, "info": {"has-a"}},   // the same validation under two levels
		{"violation": {"has-c"}, "warning": {"has-c"}, "info": {"has-c", "has-t"}},
		{"violation": {"has-t"}, "warning": {"has-d"}},
	}
	names := []string{"P", `The "strict" profile`, "perfil de validación", "  padded with blanks  ", "ends in a tab\t"}
	for ci, cfg := range configs {
		for mi, mix := range mixes {
			name := names[(ci+mi)%len(names)]
			label := fmt.Sprintf("%s, levels %v", cfg.label, mix)
			rep, err := ValidateWithConfiguration(c03Profile(name, mix), c03Data, false, nil, cfg.vc, cfg.rc)
			if err != nil {
				t.Errorf("C03 violated: %s: no report: %v", label, strings.Split(err.Error(), "\n")[0])
				continue
			}
			var doc []map[string]any
			if json.Unmarshal([]byte(rep), &doc) != nil || len(doc) == 0 {
				t.Errorf("C03 violated: %s: unreadable report", label)
				continue
			}
			r := doc[0]["doc:encodes"].([]any)[0].(map[string]any)
			var want []string
			violations := 0
			for l, vs := range mix {
				for _, v := range vs {
					for _, n := range c03Fails[v] {
						want = append(want, sev[l]+"|"+v+"|http://example.org/"+n)
						if l == "violation" {
							violations++
						}
					}
				}
			}
			sort.Strings(want)
			var got []string
			res, hasResult := r["result"].([]any)
			if _, present := r["result"]; present && !hasResult {
				t.Errorf("C03 violated: %s: result is not a list", label)
			}
			for _, x := range res {
				m, ok := x.(map[string]any)
				if !ok {
					t.Errorf("C03 violated: %s: a result entry is %v, not a result node", label, x)
					continue
				}
				got = append(got, fmt.Sprintf("%v|%v|%v", m["resultSeverity"], m["sourceShapeName"], m["focusNode"]))
			}
			sort.Strings(got)
			if strings.Join(got, "\n") != strings.Join(want, "\n") {
				t.Errorf("C03 violated: %s: results\n  %s\nexpected one per (level, validation, failing node)\n  %s", label, strings.Join(got, " ; "), strings.Join(want, " ; "))
			}
			if conforms, _ := r["conforms"].(bool); conforms != (violations == 0) {
				t.Errorf("C03 violated: %s: conforms=%v with %d results of Violation severity", label, r["conforms"], violations)
			}
			if _, present := r["result"]; present != (len(want) > 0) {
				t.Errorf("C03 violated: %s: result list present=%v with %d expected results", label, present, len(want))
			}
			if r["profileName"] != name {
				t.Errorf("C03 violated: %s: profileName %q, the profile is called %q", label, r["profileName"], name)
			}
			dc, present := r["dateCreated"].(string)
			if present != cfg.rc.IncludeReportCreationTime {
				t.Errorf("C03 violated: %s: dateCreated present=%v", label, present)
			} else if present {
				if parsed, err := time.Parse(time.RFC3339, dc); err != nil || !parsed.Equal(cfg.instant) {
					t.Errorf("C03 violated: %s: dateCreated %q is not the configured instant %s", label, dc, cfg.instant.Format(time.RFC3339))
				}
			}
		}
	}
}

// Validation names are data as well: a result carries the severity of the level under which ITS validation is listed, whatever
// characters the name has (a name that is altered on the way can no longer be told from another validation's).
func TestReplayC03ValidationNames(t *testing.T) {
	sev := map[string]string{"violation": "http://www.w3.org/ns/shacl#Violation", "warning": "http://www.w3.org/ns/shacl#Warning", "info": "http://www.w3.org/ns/shacl#Info"}
	names := map[string]string{`field "id" is required`: "warning", `field 'id' is required`: "violation", "  padded  ": "info", "100% sure": "warning", `back\slash`: "info"}
	p := "#%Validation Profile 1.0\nprofile: Names\nprefixes:\n  ex: http://example.org/\n"
	for _, level := range []string{"violation", "warning", "info"} {
		p += level + ":\n"
		for n, l := range names {
			if l == level {
				q, _ := json.Marshal(n)
				p += "  - " + string(q) + "\n"
			}
		}
	}
	p += "validations:\n"
	for n := range names {
		q, _ := json.Marshal(n)
		p += "  " + string(q) + ":\n    targetClass: ex.T\n    message: m\n    propertyConstraints:\n      ex.zzz:\n        minCount: 1\n"
	}
	rep, err := ValidateWithConfiguration(p, c03Data, false, nil, c03Config{time.Date(2001, 2, 3, 4, 5, 6, 0, time.UTC)}, c.DefaultReportConfiguration())
	if err != nil {
		t.Errorf("C03 violated: validation names %v: no report: %v", names, strings.Split(err.Error(), "\n")[0])
		return
	}
	var doc []map[string]any
	if json.Unmarshal([]byte(rep), &doc) != nil || len(doc) == 0 {
		t.Errorf("C03 violated: validation names: unreadable report")
		return
	}
	r := doc[0]["doc:encodes"].([]any)[0].(map[string]any)
	seen := map[string]int{}
	res, _ := r["result"].([]any)
	for _, x := range res {
		m, ok := x.(map[string]any)
		if !ok {
			t.Errorf("C03 violated: validation names: a result entry is %v", x)
			continue
		}
		n := fmt.Sprint(m["sourceShapeName"])
		level, known := names[n]
		if !known {
			t.Errorf("C03 violated: a result names the validation %q, which the profile does not list under any level (listed: %v)", n, names)
			continue
		}
		seen[n]++
		if m["resultSeverity"] != sev[level] {
			t.Errorf("C03 violated: the validation %q is listed under %s but its result has severity %v", n, level, m["resultSeverity"])
		}
	}
	for n := range names {
		if seen[n] != 3 {
			t.Errorf("C03 violated: the validation %q fails on three nodes but has %d results", n, seen[n])
		}
	}
	if r["conforms"] != false {
		t.Errorf("C03 violated: validation names: conforms=%v with Violation results", r["conforms"])
	}
}
