package validator

// Witness for property C08 / obligation inv:validator.unsafeBuiltinsMap#denies:net.lookup_ip_addr
// (compile only: nothing is evaluated, no address is resolved)

import "testing"

const lookupProfile = `#%Validation Profile 1.0
profile: Lookup
violation:
  - v1
validations:
  v1:
    targetClass: apiContract.WebAPI
    message: m
    rego: |
      addrs = net.lookup_ip_addr("example.org")
      $result = (count(addrs) > 0)
`

func TestReplayC08Lookup(t *testing.T) {
	_, err := ProcessProfile(lookupProfile, false, nil)
	if err == nil {
		t.Errorf("C08 violated: a profile calling net.lookup_ip_addr was accepted at compile time")
	}
}
