package validator

// Bounded witness search for property C08: a profile whose embedded Rego calls one of the built-ins http.send,
// net.lookup_ip_addr, opa.runtime, rego.parse_module or walk is refused when it is compiled - ProcessProfile (the body of
// pkg.CompileProfile), Validate and ValidateWithConfiguration return an error, no report, do not panic, dispatch no
// OpaValidation/BuildReport event, and the local HTTP server that every http.send call points at receives no request -
// while the "harmless twin" of the same profile (an allowed built-in of the same arity in place of the denied one: json.marshal,
// lower, time.now_ns, trim_prefix) compiles. Every hostile profile is first passed through GenerateRego to make sure that the
// generated policy really contains the built-in, so that an acceptance cannot be excused by the call having been dropped.
//
// Bound (all generated, deterministic; about 1,000 runs of an entry point and 600 of GenerateRego; no address other than
// 127.0.0.1:<httptest port> is ever named, net.lookup_ip_addr is given the literal "127.0.0.1"):
//   - grid: 5 built-ins x 27 embedding positions (rego / regoModule, string and code+message form, under not / and / or /
//     if / then / else, in property constraints, nested, atLeast / atMost, two levels deep, on a path expression, in a
//     validation listed under warning or info, and 6 placements in rego_extensions: helper called from a validation, helper
//     never called in a profile without any rego constraint, helper behind a helper, complete rule, partial set with
//     contains/if, else branch) x 18 call syntaxes (statement, :=, =, output argument, array / set / object / nested
//     comprehension, argument of a call, inside a literal, negated, some..in, body of every, call carrying a with modifier,
//     replacement value of a with modifier, operand of ==, after ';' with a comment, multi-line). Hostile profiles: every
//     built-in x syntax in the three positions rego, helper called, helper never called (270) and every built-in x
//     position with a rotating syntax (135), 390 distinct profiles; harmless twins: every built-in x syntax in rego and
//     one in five of the other cells, 147 profiles. The entry point rotates over ProcessProfile, Validate,
//     ValidateWithConfiguration x debug false/true x with/without event channel. Twin and hostile profile have different
//     names that map to the same Rego package; the twin is compiled first on even cases, afterwards on odd ones.
//   - rule heads: 5 built-ins x 4 rule heads of rego_extensions (constant, rule value, function value, set key) x profile
//     with / without a rego constraint - 40 profiles and their twins.
//   - spellings: 5 built-ins x 4 positions (rego, regoModule code+message, property rego, rego_extensions helper never
//     called) x 5 YAML spellings (key double-quoted, single-quoted, with a \u escape, with a \x escape; value as a
//     double-quoted scalar in which the first letter of the built-in is a \u escape) - 100 profiles and their twins.
//   - old dialect: 5 built-ins x the 4 future keywords used as a plain variable name x 3 placements of that variable (same
//     block, another validation, rego_extensions) - 60 profiles; they have no compiling twin, only the refusal is judged.
//   - sequences per built-in and debug flag (10): harmless, hostile of the same name, the same hostile text again, harmless
//     with a name of the same package, hostile through Validate with both debug flags, harmless validated to a report,
//     hostile compiled with the other debug flag.
//   - controls: the 5 fixtures of test/data/security are refused at 4 entry points, the 3 fixtures of test/data that embed
//     Rego compile, and a profile calling 12 allowed built-ins with look-alike names or operands (net.cidr_contains,
//     rego.metadata.rule, graph.reachable, json.unmarshal of "http.send", ...) compiles in 3 positions at 6 entry points.
//   - TestReplayC08EveryDomain (failed on the pinned tree by a panic of the engine, repaired by F34): 5 built-ins x 2
//     positions with the call in the domain of every - the engine's type checker panics instead of returning an error.
//
// Witness search only.

import (
	"encoding/json"
	"fmt"
	"net/http"
	"net/http/httptest"
	"os"
	"regexp"
	"strings"
	"sync/atomic"
	"testing"

	c "github.com/aml-org/amf-custom-validator/pkg/config"
	e "github.com/aml-org/amf-custom-validator/pkg/events"
	"github.com/open-policy-agent/opa/ast"
)

const c08Data = `{"@graph":[
 {"@id":"amf://id#1","@type":["http://a.ml/vocabularies/apiContract#WebAPI"],"http://a.ml/vocabularies/core#name":"api","http://a.ml/vocabularies/apiContract#version":"1","http://a.ml/vocabularies/apiContract#endpoint":[{"@id":"amf://id#2"}]},
 {"@id":"amf://id#2","@type":["http://a.ml/vocabularies/apiContract#EndPoint"],"http://a.ml/vocabularies/apiContract#path":"/p","http://a.ml/vocabularies/apiContract#supportedOperation":[{"@id":"amf://id#3"}]},
 {"@id":"amf://id#3","@type":["http://a.ml/vocabularies/apiContract#Operation"],"http://a.ml/vocabularies/apiContract#method":"get"}
]}`

// ---------------------------------------------------------------------------------------------------------- built-ins

type c08Builtin struct {
	name, args   string // the denied built-in and the operands it is called with
	tname, targs string // an allowed built-in of the same arity
}

func c08Builtins(url string) []c08Builtin {
	req := `{"method": "get", "url": "` + url + `", "timeout": "1s", "raise_error": false}`
	return []c08Builtin{
		{"http.send", req, "json.marshal", req},
		{"net.lookup_ip_addr", `"127.0.0.1"`, "lower", `"127.0.0.1"`},
		{"opa.runtime", ``, "time.now_ns", ``},
		{"rego.parse_module", `"c08.txt", "package c08"`, "trim_prefix", `"c08.txt", "package c08"`},
		{"walk", `{"a": {"b": 1}}`, "json.marshal", `{"a": {"b": 1}}`},
	}
}

// c08Render fills a call syntax with the denied built-in (hostile) or with its harmless twin
func (b c08Builtin) c08Render(syntax string, hostile bool) string {
	name, args := b.tname, b.targs
	if hostile {
		name, args = b.name, b.args
	}
	out := name + "(c08x)"
	if args != "" {
		out = name + "(" + args + ", c08x)"
	}
	return strings.NewReplacer("@CALL@", name+"("+args+")", "@NAME@", name, "@ARGS@", args, "@OUT@", out,
		"@TCALL@", b.tname+"("+b.targs+")", "@TNAME@", b.tname).Replace(syntax)
}

// ------------------------------------------------------------------------------------------------------ call syntaxes
// statements that call the built-in and bind the number c08n

var c08Syntaxes = []struct{ label, stmts string }{
	{"statement", "@CALL@\nc08n := 1"},
	{"assignment :=", "c08x := @CALL@\nc08n := 1"},
	{"unification =", "c08x = @CALL@\nc08n = 1"},
	{"output argument", "@OUT@\nc08n := 1"},
	{"array comprehension", "c08x := [c08r | c08r := @CALL@]\nc08n := count(c08x)"},
	{"set comprehension with a condition", "c08x := {c08r | some c08i in [1, 2]; c08r := [c08i, @CALL@]}\nc08n := count(c08x)"},
	{"object comprehension", "c08x := {\"k\": c08r | c08r := @CALL@}\nc08n := count(c08x)"},
	{"comprehension in a comprehension", "c08x := [c08q | c08q := {c08r | c08r := [@CALL@]}]\nc08n := count(c08x)"},
	{"argument of a call", "c08n := count([@CALL@])"},
	{"inside a literal", "c08x := {\"k\": [1, @CALL@]}\nc08n := count(c08x)"},
	{"negated", "not @CALL@\nc08n := 1"},
	{"some .. in", "some c08r in [@CALL@]\nc08n := 1"},
	{"body of every", "every c08r in [1] { c08r == 1; @CALL@ }\nc08n := 1"},
	{"call carrying a with modifier", "c08x := @CALL@ with input as {}\nc08n := 1"},
	{"replacement value of a with modifier", "c08x := @TCALL@ with @TNAME@ as @NAME@\nc08n := 1"},
	{"operand of ==", "c08x := 1\n@CALL@ == @CALL@\nc08n := c08x"},
	{"after ; with a comment", "c08x := 1; @CALL@ # as agreed\nc08n := c08x"},
	{"multi-line call", "c08x := @NAME@(\n  @ARGS@\n)\nc08n := 1"},
}

// ------------------------------------------------------------------------------------------------- embedding positions
// @REGO@ stands for the statements followed by "$result = (c08n >= 0)", @STMTS@ for the statements alone (rego_extensions);
// both are replaced line by line with the indentation of the marker

type c08Position struct {
	label       string
	levels      string // default: v1 is a violation
	ext         string // text of rego_extensions ("" = none)
	validations string
}

const c08Plain = "  v1:\n    targetClass: apiContract.WebAPI\n    message: m\n    propertyConstraints:\n      core.name:\n        minCount: 0\n"
const c08CallsHelper = "  v1:\n    targetClass: apiContract.WebAPI\n    message: m\n    rego: |\n      $result = (c08_helper(1) >= 0)\n"

func c08V1(shape string) string {
	return "  v1:\n    targetClass: apiContract.WebAPI\n    message: m\n" + shape
}

var c08Positions = []c08Position{
	{label: "rego", validations: c08V1("    rego: |\n      @REGO@\n")},
	{label: "regoModule", validations: c08V1("    regoModule: |\n      @REGO@\n")},
	{label: "rego code+message", validations: c08V1("    rego:\n      message: native\n      code: |\n        @REGO@\n")},
	{label: "regoModule code+message", validations: c08V1("    regoModule:\n      code: |\n        @REGO@\n      message: native\n")},
	{label: "not > rego", validations: c08V1("    not:\n      rego: |\n        @REGO@\n")},
	{label: "and[1] > rego", validations: c08V1("    and:\n      - propertyConstraints:\n          core.name:\n            minCount: 0\n      - rego: |\n          @REGO@\n")},
	{label: "or[0] > not > regoModule", validations: c08V1("    or:\n      - not:\n          regoModule: |\n            @REGO@\n      - propertyConstraints:\n          core.name:\n            minCount: 0\n")},
	{label: "not > and > or > rego code+message", validations: c08V1("    not:\n      and:\n        - or:\n            - rego:\n                code: |\n                  @REGO@\n")},
	{label: "if > rego", validations: c08V1("    if:\n      rego: |\n        @REGO@\n    then:\n      propertyConstraints:\n        core.name:\n          minCount: 0\n")},
	{label: "then > rego", validations: c08V1("    if:\n      propertyConstraints:\n        core.name:\n          minCount: 0\n    then:\n      rego: |\n        @REGO@\n")},
	{label: "else > regoModule", validations: c08V1("    if:\n      propertyConstraints:\n        core.name:\n          minCount: 5\n    then:\n      propertyConstraints:\n        core.name:\n          minCount: 0\n    else:\n      regoModule: |\n        @REGO@\n")},
	{label: "propertyConstraints > rego", validations: c08V1("    propertyConstraints:\n      apiContract.version:\n        rego: |\n          @REGO@\n")},
	{label: "propertyConstraints > regoModule code+message", validations: c08V1("    propertyConstraints:\n      apiContract.version:\n        regoModule:\n          message: native\n          code: |\n            @REGO@\n")},
	{label: "second property, next to minCount", validations: c08V1("    propertyConstraints:\n      core.name:\n        minCount: 0\n      apiContract.version:\n        maxCount: 3\n        rego: |\n          @REGO@\n")},
	{label: "path expression > rego", validations: c08V1("    propertyConstraints:\n      apiContract.endpoint / apiContract.supportedOperation:\n        rego: |\n          @REGO@\n")},
	{label: "nested > rego", validations: c08V1("    propertyConstraints:\n      apiContract.endpoint:\n        nested:\n          rego: |\n            @REGO@\n")},
	{label: "atLeast > validation > rego", validations: c08V1("    propertyConstraints:\n      apiContract.endpoint:\n        atLeast:\n          count: 1\n          validation:\n            rego: |\n              @REGO@\n")},
	{label: "atMost > validation > not > regoModule", validations: c08V1("    propertyConstraints:\n      apiContract.endpoint:\n        atMost:\n          count: 1\n          validation:\n            not:\n              regoModule: |\n                @REGO@\n")},
	{label: "nested > propertyConstraints > nested > not > rego", validations: c08V1("    propertyConstraints:\n      apiContract.endpoint:\n        nested:\n          propertyConstraints:\n            apiContract.supportedOperation:\n              nested:\n                not:\n                  rego: |\n                    @REGO@\n")},
	{label: "second validation, listed under warning", levels: "violation:\n  - v1\nwarning:\n  - v2\n", validations: c08Plain + "  v2:\n    targetClass: apiContract.EndPoint\n    message: m2\n    rego: |\n      @REGO@\n"},
	{label: "only validation, listed under info", levels: "info:\n  - v1\n", validations: c08V1("    regoModule: |\n      @REGO@\n")},
	{label: "extensions: helper called from a validation", ext: "c08_helper(c08a) = c08n {\n  @STMTS@\n}\n", validations: c08CallsHelper},
	{label: "extensions: helper never called, profile without rego constraints", ext: "c08_helper(c08a) = c08n {\n  @STMTS@\n}\n", validations: c08Plain},
	{label: "extensions: helper behind a helper, called from a nested constraint", ext: "c08_helper(c08a) = c08m {\n  c08m := c08_inner(c08a, 2)\n}\n\nc08_inner(c08a, c08b) = c08n {\n  @STMTS@\n}\n",
		validations: c08V1("    propertyConstraints:\n      apiContract.endpoint:\n        nested:\n          rego: |\n            $result = (c08_helper(1) >= 0)\n")},
	{label: "extensions: complete rule, not referenced", ext: "c08_rule = c08n {\n  @STMTS@\n}\n", validations: c08Plain},
	{label: "extensions: partial set with contains/if and own imports", ext: "import future.keywords.contains\nimport future.keywords.if\n\nc08_set contains c08n if {\n  @STMTS@\n}\n", validations: c08Plain},
	{label: "extensions: else branch of a helper", ext: "c08_helper(c08a) = 0 {\n  c08a == 2\n} else = c08n {\n  @STMTS@\n}\n", validations: c08CallsHelper},
}

// rule heads of rego_extensions (no statements: the call itself is the head term)
var c08Heads = []struct{ label, ext string }{
	{"constant", "c08_const := @CALL@\n"},
	{"value of a complete rule", "c08_rule = @CALL@ {\n  true\n}\n"},
	{"value of a function", "c08_helper(c08a) = @CALL@\n"},
	{"key of a partial set", "c08_set[[@CALL@]] {\n  true\n}\n"},
}

// rego_extensions precede the imports of the preamble: helpers that use in / every import the keywords themselves
const c08ExtImports = "import future.keywords.in\nimport future.keywords.every\n\n"

func c08Fill(template, marker, text string) string {
	var out []string
	for _, line := range strings.Split(template, "\n") {
		if strings.TrimSpace(line) == marker {
			indent := line[:len(line)-len(strings.TrimLeft(line, " "))]
			for _, l := range strings.Split(text, "\n") {
				out = append(out, indent+l)
			}
		} else {
			out = append(out, line)
		}
	}
	return strings.Join(out, "\n")
}

func c08Profile(name string, p c08Position, stmts string) string {
	text := "#%Validation Profile 1.0\nprofile: " + name + "\n"
	if p.ext != "" {
		text += "rego_extensions: |\n" + c08Fill("  @X@", "@X@", strings.TrimRight(c08Fill(c08ExtImports+p.ext, "@STMTS@", stmts), "\n")) + "\n"
	}
	levels := p.levels
	if levels == "" {
		levels = "violation:\n  - v1\n"
	}
	return text + levels + "validations:\n" + c08Fill(p.validations, "@REGO@", stmts+"\n$result = (c08n >= 0)")
}

// --------------------------------------------------------------------------------------------------------- observation

type c08Outcome struct {
	err       error
	report    string
	panicked  any
	evaluated bool // an OpaValidation* or BuildReport* event was dispatched
	requests  int64
}

var c08Entries = []string{"ProcessProfile debug=false", "ProcessProfile debug=true +events", "Validate debug=false +events", "Validate debug=true",
	"ValidateWithConfiguration debug=false", "ValidateWithConfiguration debug=true +events"}

var c08Hits int64

func c08Run(entry int, profile string) (out c08Outcome) {
	before := atomic.LoadInt64(&c08Hits)
	ch := make(chan e.Event, 64)
	func() {
		defer func() { out.panicked = recover() }()
		switch entry % len(c08Entries) {
		case 0:
			_, out.err = ProcessProfile(profile, false, nil)
		case 1:
			_, out.err = ProcessProfile(profile, true, &ch)
		case 2:
			out.report, out.err = Validate(profile, c08Data, false, &ch)
		case 3:
			out.report, out.err = Validate(profile, c08Data, true, nil)
		case 4:
			out.report, out.err = ValidateWithConfiguration(profile, c08Data, false, nil, c.DefaultValidationConfiguration{}, c.DefaultReportConfiguration())
		case 5:
			out.report, out.err = ValidateWithConfiguration(profile, c08Data, true, &ch, c.DefaultValidationConfiguration{}, c.DefaultReportConfiguration())
		}
	}()
	for open := true; open; {
		select {
		case ev, ok := <-ch:
			if !ok {
				open = false
			} else if ev.EventType >= e.OpaValidationStart {
				out.evaluated = true
			}
		default:
			open = false
		}
	}
	out.requests = atomic.LoadInt64(&c08Hits) - before
	return out
}

func c08First(err error) string {
	lines := strings.Split(err.Error(), "\n")
	s := lines[0]
	if len(lines) > 1 && strings.HasSuffix(s, "occurred:") {
		s = lines[1]
	}
	if len(s) > 160 {
		s = s[:160] + "..."
	}
	return strings.TrimSpace(s)
}

// c08Refused judges one hostile profile: an error, nothing else
func c08Refused(t *testing.T, scenario string, b c08Builtin, entry int, profile string) {
	unit, err := GenerateRego(profile, false, nil)
	if err != nil || unit == nil || !strings.Contains(unit.Code, b.name) {
		t.Errorf("C08 harness: %s: the generated policy does not contain %s (%v)", scenario, b.name, err)
		return
	}
	out := c08Run(entry, profile)
	var seen []string
	if out.panicked != nil {
		seen = append(seen, fmt.Sprintf("panicked (%.80v)", out.panicked))
	} else if out.err == nil {
		seen = append(seen, "was accepted without an error")
	}
	if out.report != "" {
		seen = append(seen, fmt.Sprintf("a report of %d bytes was returned", len(out.report)))
	}
	if out.evaluated {
		seen = append(seen, "evaluation events were dispatched")
	}
	if out.requests > 0 {
		seen = append(seen, fmt.Sprintf("%d HTTP request(s) reached the server", out.requests))
	}
	if len(seen) > 0 {
		t.Errorf("C08 violated: %s [%s]: %s; a policy calling %s must be refused with a compile error and nothing evaluated", scenario, c08Entries[entry%len(c08Entries)], strings.Join(seen, ", "), b.name)
	}
}

// c08Accepted judges one harmless profile: it compiles (and, through Validate, yields a report)
func c08Accepted(t *testing.T, scenario string, entry int, profile string) {
	out := c08Run(entry, profile)
	if out.panicked != nil {
		t.Errorf("C08 violated: %s [%s]: the harmless profile panicked (%.80v); profiles using allowed built-ins must compile", scenario, c08Entries[entry%len(c08Entries)], out.panicked)
	} else if out.err != nil {
		t.Errorf("C08 violated: %s [%s]: the harmless profile is refused (%s); profiles using allowed built-ins must compile", scenario, c08Entries[entry%len(c08Entries)], c08First(out.err))
	}
}

func c08Server(t *testing.T) string {
	srv := httptest.NewServer(http.HandlerFunc(func(w http.ResponseWriter, r *http.Request) {
		atomic.AddInt64(&c08Hits, 1)
		w.Header().Set("Content-Type", "application/json")
		_, _ = w.Write([]byte(`{}`))
	}))
	t.Cleanup(srv.Close)
	return srv.URL + "/c08"
}

func c08Registered(t *testing.T, bs []c08Builtin) {
	for _, b := range bs {
		for _, n := range []string{b.name, b.tname} {
			if _, ok := ast.BuiltinMap[n]; !ok {
				t.Errorf("C08 harness: built-in %s is not registered in the linked engine", n)
			}
		}
	}
}

// ---------------------------------------------------------------------------------------------------------------- grid

func TestReplayC08Grid(t *testing.T) {
	bs := c08Builtins(c08Server(t))
	c08Registered(t, bs)
	nb, np, ns := len(bs), len(c08Positions), len(c08Syntaxes)
	type cell struct{ b, p, s int }
	hostile := map[cell]bool{}
	var order []cell
	add := func(x cell) {
		if !hostile[x] {
			hostile[x] = true
			order = append(order, x)
		}
	}
	for b := 0; b < nb; b++ {
		for s := 0; s < ns; s++ {
			for _, p := range []int{0, 21, 22} { // rego; helper called from a validation; helper never called
				add(cell{b, p, s})
			}
		}
		for p := 0; p < np; p++ {
			add(cell{b, p, (b*7 + p) % ns})
		}
	}
	twins := 0
	defer func() { t.Logf("%d hostile profiles, %d harmless twins", len(order), twins) }()
	for i, x := range order {
		b, p, syn := bs[x.b], c08Positions[x.p], c08Syntaxes[x.s]
		scenario := fmt.Sprintf("%s, %s, in %s (case %d)", b.name, syn.label, p.label, i)
		twin := c08Profile(fmt.Sprintf("c08-CASE.%d", i), p, b.c08Render(syn.stmts, false))
		bad := c08Profile(fmt.Sprintf("C08 case %d", i), p, b.c08Render(syn.stmts, true))
		withTwin := x.p == 0 || x.b == (x.p+x.s)%nb // every built-in x syntax in rego, and one in five of the others
		if withTwin {
			twins++
		}
		if withTwin && i%2 == 0 {
			c08Accepted(t, scenario+", twin with "+b.tname+" first", i/2, twin)
		}
		c08Refused(t, scenario, b, i, bad)
		if withTwin && i%2 == 1 {
			c08Accepted(t, scenario+", twin with "+b.tname+" afterwards", i/2, twin)
		}
	}
}

func TestReplayC08RuleHeads(t *testing.T) {
	bs := c08Builtins(c08Server(t))
	i := 0
	for _, b := range bs {
		for _, h := range c08Heads {
			for _, validations := range []string{c08Plain, c08V1("    rego: |\n      $result = (count([1]) >= 0)\n")} {
				scenario := fmt.Sprintf("%s as %s in rego_extensions (head %d)", b.name, h.label, i)
				p := c08Position{ext: b.c08Render(h.ext, false), validations: validations}
				c08Accepted(t, scenario+", twin with "+b.tname, i, c08Profile(fmt.Sprintf("C08 head %d", i), p, ""))
				p.ext = b.c08Render(h.ext, true)
				c08Refused(t, scenario, b, i, c08Profile(fmt.Sprintf("c08 HEAD %d", i), p, ""))
				i++
			}
		}
	}
}

// ----------------------------------------------------------------------------------------------------------- spellings

var c08Key = regexp.MustCompile(`(?m)^([ ]*(?:- )?)(rego|regoModule|rego_extensions|code)(:)`)

func c08Spell(profile string, style int) string {
	return c08Key.ReplaceAllStringFunc(profile, func(m string) string {
		g := c08Key.FindStringSubmatch(m)
		key := g[2]
		switch style {
		case 0:
			key = `"` + key + `"`
		case 1:
			key = `'` + key + `'`
		case 2:
			key = fmt.Sprintf(`"%s\u%04x%s"`, key[:2], key[2], key[3:])
		case 3:
			key = fmt.Sprintf(`"%s\x%02x%s"`, key[:2], key[2], key[3:])
		}
		return g[1] + key + g[3]
	})
}

func TestReplayC08Spellings(t *testing.T) {
	bs := c08Builtins(c08Server(t))
	styles := []string{`key "double-quoted"`, `key 'single-quoted'`, `key with a \u escape`, `key with a \x escape`, `value double-quoted, first letter of the built-in as \u escape`}
	positions := []int{0, 3, 11, 22} // rego, regoModule code+message, propertyConstraints > rego, extensions helper never called
	i := 0
	for bi, b := range bs {
		for pi, pos := range positions {
			for style, styleLabel := range styles {
				p := c08Positions[pos]
				syn := c08Syntaxes[(bi+pi+style)%4] // statement, :=, =, output argument
				scenario := fmt.Sprintf("%s, %s, in %s, %s (spelling %d)", b.name, syn.label, p.label, styleLabel, i)
				build := func(name string, hostile bool) string {
					stmts := b.c08Render(syn.stmts, hostile)
					if style < 4 {
						return c08Spell(c08Profile(name, p, stmts), style)
					}
					// the block scalar becomes one double-quoted scalar (JSON escapes are YAML escapes)
					called := b.tname
					if hostile {
						called = b.name
					}
					quote := func(s string) string {
						q, _ := json.Marshal(s)
						return strings.ReplaceAll(string(q), called+"(", fmt.Sprintf(`\u%04x%s(`, called[0], called[1:]))
					}
					if p.ext != "" {
						text := c08Profile(name, c08Position{validations: p.validations}, "")
						return strings.Replace(text, "violation:\n", "rego_extensions: "+quote(c08Fill(c08ExtImports+p.ext, "@STMTS@", stmts))+"\nviolation:\n", 1)
					}
					text := c08Profile(name, p, "@BODY@")
					from := strings.Index(text, "|\n")
					return text[:from] + quote(stmts+"\n$result = (c08n >= 0)") + "\n"
				}
				c08Accepted(t, scenario+", twin with "+b.tname, i, build(fmt.Sprintf("C08 spelling %d", i), false))
				c08Refused(t, scenario, b, i, build(fmt.Sprintf("C08 spelling %d", i), true))
				i++
			}
		}
	}
}

// --------------------------------------------------------------------------------------------------------- old dialect
// Rego written before in / if / every / contains were keywords uses them as plain names; such a block does not parse
// under the imports of the preamble, so there is no compiling twin - whatever the reason, the hostile profile is refused

func TestReplayC08OldDialect(t *testing.T) {
	bs := c08Builtins(c08Server(t))
	i := 0
	for _, b := range bs {
		for _, word := range []string{"in", "if", "every", "contains"} {
			old := word + " = 1"
			call := b.c08Render("c08x := @CALL@\nc08n := 1", true)
			places := []struct {
				label string
				p     c08Position
				stmts string
			}{
				{"in the block of the call", c08Positions[0], old + "\n" + call},
				{"in another validation", c08Position{levels: "violation:\n  - v1\n  - v2\n",
					validations: c08V1("    rego: |\n      @REGO@\n") + "  v2:\n    targetClass: apiContract.EndPoint\n    message: m2\n    not:\n      rego: |\n        " + old + "\n        $result = true\n"}, call},
				{"in rego_extensions, call in a code+message block", c08Position{ext: "c08_old = c08v {\n  " + old + "\n  c08v := " + word + "\n}\n", validations: c08Positions[2].validations}, call},
			}
			for _, pl := range places {
				scenario := fmt.Sprintf("%s with the old-dialect variable %q %s (old %d)", b.name, word, pl.label, i)
				c08Refused(t, scenario, b, i, c08Profile(fmt.Sprintf("C08 old %d", i), pl.p, pl.stmts))
				i++
			}
		}
	}
}

// ----------------------------------------------------------------------------------------------------------- sequences

func TestReplayC08Sequences(t *testing.T) {
	bs := c08Builtins(c08Server(t))
	for bi, b := range bs {
		for d := 0; d < 2; d++ { // entries 0/2 have debug=false, 1/3 debug=true
			name := fmt.Sprintf("C08 sequence %d", bi*2+d)
			p := c08Positions[(bi*2+d)*2%len(c08Positions)]
			syn := c08Syntaxes[(bi*2+d)%len(c08Syntaxes)]
			good := c08Profile(name, p, b.c08Render(syn.stmts, false))
			bad := c08Profile(name, p, b.c08Render(syn.stmts, true))
			alias := c08Profile(strings.ToUpper(strings.ReplaceAll(name, " ", "/")), p, b.c08Render(syn.stmts, false))
			scenario := fmt.Sprintf("sequence for %s, %s, in %s", b.name, syn.label, p.label)
			c08Accepted(t, scenario+", step 1 harmless", d, good)
			c08Refused(t, scenario+", step 2 hostile profile of the same name", b, d, bad)
			c08Refused(t, scenario+", step 3 the same hostile text again", b, d, bad)
			c08Accepted(t, scenario+", step 4 harmless profile of the same package", d, alias)
			c08Refused(t, scenario+", step 5 hostile profile validated", b, 2+d, bad)
			c08Refused(t, scenario+", step 6 hostile profile validated, other debug flag", b, 3-d, bad)
			c08Accepted(t, scenario+", step 7 harmless profile validated", 2+d, good)
			c08Refused(t, scenario+", step 8 hostile profile compiled, other debug flag", b, 1-d, bad)
		}
	}
}

// ------------------------------------------------------------------------------------------------------------ controls

func TestReplayC08Controls(t *testing.T) {
	bs := c08Builtins(c08Server(t))
	for i, b := range bs {
		dir := map[string]string{"walk": "graph.walk"}[b.name]
		if dir == "" {
			dir = b.name
		}
		text, err := os.ReadFile("../../test/data/security/" + dir + "/profile.yaml")
		if err != nil {
			t.Errorf("C08 harness: fixture of %s: %v", b.name, err)
			continue
		}
		for entry := 0; entry < 4; entry++ {
			c08Refused(t, "fixture test/data/security/"+dir, b, i+entry, string(text))
		}
	}
	for i, f := range []string{"basic/profile9.yaml", "basic/profile16.yaml", "integration/profile8/profile.yaml"} {
		text, err := os.ReadFile("../../test/data/" + f)
		if err != nil {
			t.Errorf("C08 harness: fixture %s: %v", f, err)
			continue
		}
		c08Accepted(t, "fixture test/data/"+f+" (embeds harmless Rego)", i, string(text))
		c08Accepted(t, "fixture test/data/"+f+" (embeds harmless Rego)", i+1, string(text))
	}
	allowed := `c08a := net.cidr_contains("10.0.0.0/8", "10.1.2.3")
c08b := rego.metadata.rule()
c08c := graph.reachable({"a": ["b"], "b": []}, ["a"])
c08d := time.now_ns()
c08e := json.unmarshal("{\"http.send\": 1}")
c08f := object.get($node, "@id", "walk")
c08g := regex.match("^opa\\.runtime$", "x")
c08h := net.cidr_expand("10.0.0.0/30")
c08i := io.jwt.decode("eyJhbGciOiJIUzI1NiJ9.e30.ZRrHA1JJJW8opsbCGfG_HACGpVUMN_a9IV7pAx_Zmeo")
c08j := base64url.encode("http://127.0.0.1")
c08k := sprintf("%v", [c08a, c08b, c08c, c08d, c08e, c08f, c08g, c08h, c08i, c08j])
c08n := count(c08k)`
	for entry := 0; entry < len(c08Entries); entry++ {
		for _, p := range []int{0, 15, 4} {
			c08Accepted(t, "allowed built-ins with look-alike names in "+c08Positions[p].label, entry, c08Profile("C08 allowed", c08Positions[p], allowed))
		}
	}
}

// ---------------------------------------------------------------------------------------- the domain of every (repaired: F34)
// A call in the domain of `every` makes the linked engine's compiler panic ("unreachable") before the unsafe built-in check
// has run. On the pinned tree the panic escaped ProcessProfile / Validate (the harmless twin, e.g.
// `every x in [lower("a")] { x == "a" }`, panicked too); since the fix F34 it comes back as an error, so these profiles are
// refused like every other hostile one and the table is part of the suite.

func TestReplayC08EveryDomain(t *testing.T) {
	bs := c08Builtins(c08Server(t))
	for i, b := range bs {
		stmts := b.c08Render("every c08r in [@CALL@] { c08r == c08r }\nc08n := 1", true)
		for j, p := range []int{0, 21} {
			scenario := fmt.Sprintf("%s in the domain of every, in %s", b.name, c08Positions[p].label)
			c08Refused(t, scenario, b, i+j*2, c08Profile(fmt.Sprintf("C08 every %d", i*2+j), c08Positions[p], stmts))
		}
	}
}
