package pkg

// Bounded witness suite for property C11: when a caller supplies an event channel, the events it receives form a prefix of the
// pipeline's stage order (ProfileParsing, RegoGeneration, RegoCompilation, InputDataParsing, InputDataNormalization,
// OpaValidation, BuildReport; the compiled entry points start at InputDataParsing) in which every completion event directly
// follows its start event and stages never overlap; a successful call delivers the whole order, a failed call nothing beyond
// the stage that failed; time stamps do not decrease; the channel is closed exactly once, when the validating call returns, on
// success and on every failure; a failed CompileProfile closes it, a successful one leaves it open for the ValidateCompiled*
// call that follows on the same channel; milestones.GenerateMilestonesFromEvents yields one milestone per completion event, in
// stage order, with a non-negative duration that starts at the start event.
//
// Bound: 10 profiles (valid; YAML that does not parse; validations given as a list; an "and" constraint that is a scalar; a
// document that is a list; a prefix the generator rejects; custom rego calling a blocked built-in; custom rego with a syntax
// error; rego_extensions that make the evaluation conflict; rego_extensions that put a non-result into the violation set) and
// 10 data texts (conforming; violating; empty; truncated JSON; a context JSON-LD rejects; an @id JSON-LD rejects; four graphs
// that make the indexing panic: source information without root location, a lexical entry that is not in the graph, an
// additional location without a location, a lexical entry with a numeric element), one failure at a time (every broken
// profile with the conforming data, every data text with the valid profile: 19 pairs), through Validate,
// ValidateWithConfiguration, CompileProfile alone (10 profiles), CompileProfile followed by ValidateCompiled /
// ValidateCompiledWithConfiguration on the same channel, ValidateCompiled / ValidateCompiledWithConfiguration on the 3
// profiles that compile (compiled beforehand without a channel), and the two compiled entry points with two caller-built
// queries (undefined on every input: report building fails; conflicting complete rule: evaluation fails). Every call is made
// in 4 listening modes: channel of capacity 64 drained after the call; unbuffered channel with a prompt listener goroutine;
// capacity 1 with a listener that pauses 100us per event; unbuffered channel consumed directly by
// milestones.GenerateMilestonesFromEvents. All calls of a test pass the address of ONE channel variable that is re-made before
// each call. 712 observed calls, sequential, about 3 seconds. After each call the suite attempts a second close under
// recover(): a panic there is the proof that the call closed the channel, its absence that the channel was left open (no
// time-outs are involved). Witness search only.

import (
	"context"
	"fmt"
	"strings"
	"testing"
	"time"

	c "github.com/aml-org/amf-custom-validator/pkg/config"
	e "github.com/aml-org/amf-custom-validator/pkg/events"
	"github.com/aml-org/amf-custom-validator/pkg/milestones"
	"github.com/open-policy-agent/opa/rego"
)

// ---- the stage order ----

var c11Order = []e.EventType{
	e.ProfileParsingStart, e.ProfileParsingDone, e.RegoGenerationStart, e.RegoGenerationDone, e.RegoCompilationStart, e.RegoCompilationDone,
	e.InputDataParsingStart, e.InputDataParsingDone, e.InputDataNormalizationStart, e.InputDataNormalizationDone,
	e.OpaValidationStart, e.OpaValidationDone, e.BuildReportStart, e.BuildReportDone,
}

var c11Stages = []string{"ProfileParsing", "RegoGeneration", "RegoCompilation", "InputDataParsing", "InputDataNormalization", "OpaValidation", "BuildReport"}

var c11Ops = []milestones.Operation{milestones.ProfileParsing, milestones.RegoGeneration, milestones.RegoCompilation, milestones.InputDataParsing, milestones.InputDataNormalization, milestones.OpaValidation, milestones.BuildReport}

const (
	c11StProfile = iota
	c11StGeneration
	c11StCompilation
	c11StDataParsing
	c11StNormalization
	c11StEvaluation
	c11StReport
	c11Success = -1
)

func c11EventName(t e.EventType) string {
	for i, o := range c11Order {
		if o == t {
			if i%2 == 0 {
				return c11Stages[i/2] + "Start"
			}
			return c11Stages[i/2] + "Done"
		}
	}
	return fmt.Sprintf("Event(%d)", int(t))
}

func c11Names(evs []e.Event) string {
	var out []string
	for _, ev := range evs {
		out = append(out, c11EventName(ev.EventType))
	}
	return "[" + strings.Join(out, " ") + "]"
}

func c11IsDone(t e.EventType) (int, bool) {
	for i, o := range c11Order {
		if o == t && i%2 == 1 {
			return i / 2, true
		}
	}
	return 0, false
}

// ---- inputs ----

const c11Head = "#%Validation Profile 1.0\nprofile: C11\nprefixes:\n  ex: http://example.org/\n"

const c11Named = `  named:
    message: things have a name
    targetClass: ex.Thing
    propertyConstraints:
      ex.name:
        minCount: 1
`

const c11ProfileValid = c11Head + "violation:\n  - named\nvalidations:\n" + c11Named

type c11Input struct {
	name string
	text string
	fail int // the stage at which the pipeline fails on this input, c11Success when it does not
}

var c11BrokenProfiles = []c11Input{
	{"profile YAML that does not parse", "#%Validation Profile 1.0\nprofile: [C11\nviolation:\n  - named\n", c11StProfile},
	{"profile whose validations are a list", c11Head + "violation:\n  - named\nvalidations:\n  - named\n  - other\n", c11StProfile},
	{"validation whose and constraint is a scalar", c11Head + "violation:\n  - named\nvalidations:\n  named:\n    message: m\n    targetClass: ex.Thing\n    and: 5\n", c11StProfile},
	{"profile document that is a list", "#%Validation Profile 1.0\n- profile\n- C11\n", c11StProfile},
	{"prefix the generator rejects", c11Head + "violation:\n  - named\nvalidations:\n  named:\n    message: m\n    targetClass: nowhere.Thing\n    propertyConstraints:\n      nowhere.name:\n        minCount: 1\n", c11StGeneration},
	{"custom rego calling the blocked http.send", c11Head + "violation:\n  - named\nvalidations:\n  named:\n    message: m\n    targetClass: ex.Thing\n    not:\n      rego: |\n        http.send({\"method\": \"get\", \"url\": \"http://localhost:1\"})\n        $result = (null == null)\n", c11StCompilation},
	{"custom rego with a syntax error", c11Head + "violation:\n  - named\nvalidations:\n  named:\n    message: m\n    targetClass: ex.Thing\n    rego: |\n      $result = (((\n", c11StCompilation},
	{"rego_extensions making the evaluation conflict", c11Head + "violation:\n  - named\nrego_extensions: |\n  report[\"profile\"] = \"another name\"\nvalidations:\n" + c11Named, c11StEvaluation},
	{"rego_extensions adding a non-result to the violations", c11Head + "violation:\n  - named\nrego_extensions: |\n  violation[\"not a result\"] { true }\nvalidations:\n" + c11Named, c11StReport},
}

const c11DataConforming = `{"@graph": [{"@id": "http://example.org/a", "@type": ["http://example.org/Thing"], "http://example.org/name": "a"}]}`

const c11LocInfo = `{"@id": "amf://id/info", "@type": ["http://a.ml/vocabularies/document#BaseUnitSourceInformation"]`

var c11Data = []c11Input{
	{"conforming data", c11DataConforming, c11Success},
	{"violating data", `{"@graph": [{"@id": "http://example.org/a", "@type": ["http://example.org/Thing"], "http://example.org/name": "a"}, {"@id": "http://example.org/b", "@type": ["http://example.org/Thing"]}, {"@id": "http://example.org/c", "@type": "http://example.org/Thing"}]}`, c11Success},
	{"empty data text", "", c11StDataParsing},
	{"truncated JSON", `{"@graph": [{"@id": "http://example.org/a", `, c11StDataParsing},
	{"@context JSON-LD rejects", `{"@context": 5, "@graph": []}`, c11StNormalization},
	{"@id JSON-LD rejects", `{"@graph": [{"@id": 7, "@type": ["http://example.org/Thing"]}]}`, c11StNormalization},
	{"source information without root location", `{"@graph": [{"@id": "http://example.org/a", "@type": ["http://example.org/Thing"]}, ` + c11LocInfo + `}]}`, c11StNormalization},
	{"lexical entry that is not in the graph", `{"@graph": [{"@id": "http://example.org/a/sm", "@type": ["http://a.ml/vocabularies/document-source-maps#SourceMap"], "http://a.ml/vocabularies/document-source-maps#lexical": [{"@id": "http://example.org/a/sm/gone"}]}]}`, c11StNormalization},
	{"additional location without a location", `{"@graph": [` + c11LocInfo + `, "http://a.ml/vocabularies/document#rootLocation": "file:///root.raml", "http://a.ml/vocabularies/document#additionalLocations": [{"@id": "amf://id/info/l0"}]}, {"@id": "amf://id/info/l0", "http://a.ml/vocabularies/document#elements": [{"@id": "http://example.org/a"}]}]}`, c11StNormalization},
	{"lexical entry with a numeric element", `{"@graph": [{"@id": "http://example.org/a/sm", "@type": ["http://a.ml/vocabularies/document-source-maps#SourceMap"], "http://a.ml/vocabularies/document-source-maps#lexical": [{"@id": "http://example.org/a/sm/l0"}]}, {"@id": "http://example.org/a/sm/l0", "http://a.ml/vocabularies/document-source-maps#element": 12, "http://a.ml/vocabularies/document-source-maps#value": "[(1,0)-(2,0)]"}]}`, c11StNormalization},
}

// ---- the caller: one channel variable, re-made before every call ----

const (
	c11Buffered = iota
	c11Prompt
	c11Slow
	c11Milestones
	c11Modes
)

var c11ModeNames = []string{"capacity 64 drained afterwards", "unbuffered with a prompt listener", "capacity 1 with a slow listener", "unbuffered consumed by GenerateMilestonesFromEvents"}

type c11Caller struct{ ch chan e.Event }

type c11Obs struct {
	events   []e.Event
	ms       []milestones.Milestone // only in mode c11Milestones
	leftOpen bool
	panicked string
	err      error
}

// c11SecondClose closes the channel under recover: true when that close panicked, i.e. the channel had been closed before.
func c11SecondClose(ch chan e.Event) (wasClosed bool) {
	defer func() {
		if recover() != nil {
			wasClosed = true
		}
	}()
	close(ch)
	return false
}

func (cl *c11Caller) observe(mode int, call func(ch *chan e.Event) error) c11Obs {
	var obs c11Obs
	switch mode {
	case c11Buffered:
		cl.ch = make(chan e.Event, 64)
	case c11Slow:
		cl.ch = make(chan e.Event, 1)
	default:
		cl.ch = make(chan e.Event)
	}
	ch := cl.ch
	done := make(chan struct{})
	switch mode {
	case c11Prompt, c11Slow:
		go func() {
			defer close(done)
			for ev := range ch {
				obs.events = append(obs.events, ev)
				if mode == c11Slow {
					time.Sleep(100 * time.Microsecond)
				}
			}
		}()
	case c11Milestones:
		ms := make(chan milestones.Milestone, 64)
		src := ch
		go func() {
			defer close(done)
			milestones.GenerateMilestonesFromEvents(&src, &ms)
			for m := range ms {
				obs.ms = append(obs.ms, m)
			}
		}()
	default:
		close(done)
	}
	func() {
		defer func() {
			if r := recover(); r != nil {
				obs.panicked = fmt.Sprint(r)
			}
		}()
		obs.err = call(&cl.ch)
	}()
	obs.leftOpen = !c11SecondClose(ch)
	<-done
	if mode == c11Buffered {
		for ev := range ch {
			obs.events = append(obs.events, ev)
		}
	}
	return obs
}

// ---- the judge ----

// c11Judge: first..last are the stages the call runs when nothing fails, fail the stage at which this input makes it fail
// (c11Success: none), wantOpen whether the channel has to be open afterwards (successful stand-alone compilation).
func c11Judge(t *testing.T, scenario string, mode int, obs c11Obs, first, last, fail int, wantOpen bool) {
	scenario += ", " + c11ModeNames[mode]
	if obs.panicked != "" {
		t.Errorf("C11 violated: %s: the call panicked with %q; the channel is to be closed exactly once and only when the call returns", scenario, obs.panicked)
		return
	}
	if (obs.err != nil) != (fail != c11Success) {
		t.Errorf("C11 harness: %s: returned error %v, the scenario expects %s", scenario, c11Err(obs.err), c11Outcome(fail))
	}
	if obs.leftOpen && !wantOpen {
		t.Errorf("C11 violated: %s: the channel was still open after the call returned (%s); it must be closed exactly once on return", scenario, c11Outcome(fail))
	}
	if !obs.leftOpen && wantOpen {
		t.Errorf("C11 violated: %s: a successful stand-alone compilation closed the channel; it must stay open for the validation that follows", scenario)
	}
	if mode == c11Milestones {
		c11JudgeLiveMilestones(t, scenario, obs, first, last, fail)
		return
	}
	want := c11Order[2*first : 2*(last+1)]
	names := c11Names(obs.events)
	for i, ev := range obs.events {
		if i >= len(want) || ev.EventType != want[i] {
			exp := "nothing more"
			if i < len(want) {
				exp = c11EventName(want[i])
			}
			t.Errorf("C11 violated: %s: events %s: event %d is %s where the stage order has %s (not a well-bracketed prefix of the stage order)", scenario, names, i+1, c11EventName(ev.EventType), exp)
			break
		}
	}
	if obs.err == nil && len(obs.events) != len(want) {
		t.Errorf("C11 violated: %s: the call succeeded with events %s, %d of the %d events of its stages", scenario, names, len(obs.events), len(want))
	}
	if obs.err != nil && fail != c11Success {
		lo := 2*(fail-first) + 1
		if len(obs.events) > lo+1 {
			t.Errorf("C11 violated: %s: events %s go on after the failure in stage %s", scenario, names, c11Stages[fail])
		} else if len(obs.events) < lo {
			t.Errorf("C11 violated: %s: events %s stop before stage %s, in which the call failed, was started", scenario, names, c11Stages[fail])
		}
	}
	for i := 1; i < len(obs.events); i++ {
		if obs.events[i].Time.Before(obs.events[i-1].Time) {
			t.Errorf("C11 violated: %s: %s is stamped %v before the preceding %s", scenario, c11EventName(obs.events[i].EventType), obs.events[i-1].Time.Sub(obs.events[i].Time), c11EventName(obs.events[i-1].EventType))
		}
	}
	// milestones derived from the events that were received
	replay := make(chan e.Event, len(obs.events)+1)
	for _, ev := range obs.events {
		replay <- ev
	}
	close(replay)
	ms := make(chan milestones.Milestone, len(obs.events)+1)
	milestones.GenerateMilestonesFromEvents(&replay, &ms)
	var got []milestones.Milestone
	for m := range ms {
		got = append(got, m)
	}
	k := 0
	for i, ev := range obs.events {
		st, isDone := c11IsDone(ev.EventType)
		if !isDone {
			continue
		}
		if k >= len(got) {
			break
		}
		m := got[k]
		k++
		if m.Operation != c11Ops[st] {
			t.Errorf("C11 violated: %s: milestone %d is %s, the completion event %d is %s", scenario, k, m.Operation, k, c11EventName(ev.EventType))
		}
		if m.Duration < 0 {
			t.Errorf("C11 violated: %s: milestone %s has the negative duration %v", scenario, m.Operation, m.Duration)
		}
		if i > 0 && obs.events[i-1].EventType == c11Order[2*st] && !m.Start.Equal(obs.events[i-1].Time) {
			t.Errorf("C11 violated: %s: milestone %s does not start at its start event", scenario, m.Operation)
		}
	}
	dones := 0
	for _, ev := range obs.events {
		if _, d := c11IsDone(ev.EventType); d {
			dones++
		}
	}
	if len(got) != dones {
		t.Errorf("C11 violated: %s: %d stages completed in %s but %d milestones were derived", scenario, dones, names, len(got))
	}
}

func c11JudgeLiveMilestones(t *testing.T, scenario string, obs c11Obs, first, last, fail int) {
	var ops []string
	for _, m := range obs.ms {
		ops = append(ops, string(m.Operation))
	}
	list := "[" + strings.Join(ops, " ") + "]"
	for i, m := range obs.ms {
		if first+i > last || m.Operation != c11Ops[first+i] {
			t.Errorf("C11 violated: %s: milestones %s: milestone %d is %s, not the next stage in order", scenario, list, i+1, m.Operation)
			break
		}
	}
	for _, m := range obs.ms {
		if m.Duration < 0 {
			t.Errorf("C11 violated: %s: milestone %s has the negative duration %v", scenario, m.Operation, m.Duration)
		}
	}
	if obs.err == nil && len(obs.ms) != last-first+1 {
		t.Errorf("C11 violated: %s: the call succeeded with milestones %s, %d for its %d stages", scenario, list, len(obs.ms), last-first+1)
	}
	if obs.err != nil && fail != c11Success {
		if len(obs.ms) > fail-first+1 {
			t.Errorf("C11 violated: %s: milestones %s go on after the failure in stage %s", scenario, list, c11Stages[fail])
		} else if len(obs.ms) < fail-first {
			t.Errorf("C11 violated: %s: milestones %s lack a stage completed before the failure in stage %s", scenario, list, c11Stages[fail])
		}
	}
}

func c11Err(err error) string {
	if err == nil {
		return "<nil>"
	}
	s := strings.Split(err.Error(), "\n")[0]
	if len(s) > 120 {
		s = s[:120] + "..."
	}
	return s
}

func c11Outcome(fail int) string {
	if fail == c11Success {
		return "success"
	}
	return "a failure in stage " + c11Stages[fail]
}

type c11Config struct{}

func (c11Config) ReportCreationTime() time.Time {
	return time.Date(2001, 2, 3, 4, 5, 6, 0, time.UTC)
}

func c11ReportConfig() c.ReportConfiguration {
	rc := c.DefaultReportConfiguration()
	rc.IncludeReportCreationTime = false
	return rc
}

// c11Pairs: one failure at a time - every broken profile with the conforming data, every data text with the valid profile.
func c11Pairs() (out []struct{ profile, data c11Input }) {
	valid := c11Input{"valid profile", c11ProfileValid, c11Success}
	for _, d := range c11Data {
		out = append(out, struct{ profile, data c11Input }{valid, d})
	}
	for _, p := range c11BrokenProfiles {
		out = append(out, struct{ profile, data c11Input }{p, c11Data[0]})
	}
	return out
}

func c11Fail(p, d c11Input) int {
	if p.fail != c11Success && p.fail <= c11StCompilation {
		return p.fail
	}
	if d.fail != c11Success {
		return d.fail
	}
	return p.fail
}

// ---- the tests ----

// Validate and ValidateWithConfiguration: the whole pipeline in one call.
func TestReplayC11OneCall(t *testing.T) {
	var cl c11Caller
	for _, pd := range c11Pairs() {
		p, d := pd.profile, pd.data
		fail := c11Fail(p, d)
		for mode := 0; mode < c11Modes; mode++ {
			obs := cl.observe(mode, func(ch *chan e.Event) error {
				_, err := Validate(p.text, d.text, false, ch)
				return err
			})
			c11Judge(t, "Validate, "+p.name+", "+d.name, mode, obs, c11StProfile, c11StReport, fail, false)
			obs = cl.observe(mode, func(ch *chan e.Event) error {
				_, err := ValidateWithConfiguration(p.text, d.text, true, ch, c11Config{}, c11ReportConfig())
				return err
			})
			c11Judge(t, "ValidateWithConfiguration, "+p.name+", "+d.name, mode, obs, c11StProfile, c11StReport, fail, false)
		}
	}
}

// CompileProfile alone: closed by a failed compilation, left open by a successful one.
func TestReplayC11CompileAlone(t *testing.T) {
	var cl c11Caller
	profiles := append([]c11Input{{"valid profile", c11ProfileValid, c11Success}}, c11BrokenProfiles...)
	for _, p := range profiles {
		fail := p.fail
		if fail > c11StCompilation {
			fail = c11Success // fails only when it is evaluated
		}
		for mode := 0; mode < c11Modes; mode++ {
			obs := cl.observe(mode, func(ch *chan e.Event) error {
				q, err := CompileProfile(p.text, mode%2 == 1, ch)
				if err == nil && q == nil {
					return fmt.Errorf("no compiled profile and no error")
				}
				return err
			})
			c11Judge(t, "CompileProfile alone, "+p.name, mode, obs, c11StProfile, c11StCompilation, fail, fail == c11Success)
		}
	}
}

// CompileProfile, then ValidateCompiled / ValidateCompiledWithConfiguration with the same channel.
func TestReplayC11CompileThenValidate(t *testing.T) {
	var cl c11Caller
	for _, pd := range c11Pairs() {
		p, d := pd.profile, pd.data
		fail := c11Fail(p, d)
		for mode := 0; mode < c11Modes; mode++ {
			for _, withConfig := range []bool{false, true} {
				entry := "CompileProfile then ValidateCompiled"
				if withConfig {
					entry += "WithConfiguration"
				}
				obs := cl.observe(mode, func(ch *chan e.Event) error {
					q, err := CompileProfile(p.text, false, ch)
					if err != nil {
						return err
					}
					if withConfig {
						_, err = ValidateCompiledWithConfiguration(q, d.text, false, ch, c11Config{}, c11ReportConfig())
					} else {
						_, err = ValidateCompiled(q, d.text, false, ch)
					}
					return err
				})
				c11Judge(t, entry+" on one channel, "+p.name+", "+d.name, mode, obs, c11StProfile, c11StReport, fail, false)
			}
		}
	}
}

func c11Query(t *testing.T, module string) *rego.PreparedEvalQuery {
	q, err := rego.New(rego.Query("data.c11.report"), rego.Module("c11.rego", module)).PrepareForEval(context.Background())
	if err != nil {
		t.Errorf("C11 harness: the caller-built query does not compile: %v", c11Err(err))
		return nil
	}
	return &q
}

// ValidateCompiled / ValidateCompiledWithConfiguration on a profile compiled beforehand, and on caller-built queries.
func TestReplayC11CompiledOnly(t *testing.T) {
	var cl c11Caller
	type compiled struct {
		name string
		q    *rego.PreparedEvalQuery
		fail int
	}
	var queries []compiled
	for _, p := range append([]c11Input{{"valid profile", c11ProfileValid, c11Success}}, c11BrokenProfiles...) {
		if p.fail != c11Success && p.fail <= c11StCompilation {
			continue
		}
		q, err := CompileProfile(p.text, false, nil)
		if err != nil {
			t.Errorf("C11 harness: %s does not compile: %v", p.name, c11Err(err))
			continue
		}
		queries = append(queries, compiled{p.name, q, p.fail})
	}
	if q := c11Query(t, "package c11\nreport = x { x := input[\"no such key\"].deeper }\n"); q != nil {
		queries = append(queries, compiled{"caller-built query undefined on every input", q, c11StReport})
	}
	if q := c11Query(t, "package c11\nreport = 1 { input[\"@ids\"] }\nreport = 2 { input[\"@types\"] }\n"); q != nil {
		queries = append(queries, compiled{"caller-built query with a conflicting complete rule", q, c11StEvaluation})
	}
	for _, cq := range queries {
		for _, d := range c11Data {
			if cq.fail != c11Success && d.fail == c11Success && d.name != c11Data[0].name {
				continue // one conforming text is enough for the queries that fail by themselves
			}
			fail := cq.fail
			if d.fail != c11Success {
				fail = d.fail
			}
			for mode := 0; mode < c11Modes; mode++ {
				obs := cl.observe(mode, func(ch *chan e.Event) error {
					_, err := ValidateCompiled(cq.q, d.text, mode%2 == 0, ch)
					return err
				})
				c11Judge(t, "ValidateCompiled, "+cq.name+", "+d.name, mode, obs, c11StDataParsing, c11StReport, fail, false)
				obs = cl.observe(mode, func(ch *chan e.Event) error {
					_, err := ValidateCompiledWithConfiguration(cq.q, d.text, false, ch, c11Config{}, c11ReportConfig())
					return err
				})
				c11Judge(t, "ValidateCompiledWithConfiguration, "+cq.name+", "+d.name, mode, obs, c11StDataParsing, c11StReport, fail, false)
			}
		}
	}
}

// Input shapes and configurations at the edge of the ordinary (added after the sixth round of seeded changes): one validation
// with many quantified constraints (beyond the letter names of the variable generator), and a report configuration without
// creation time together with NO validation configuration (nil is all a caller has to pass when no time is asked for).
func TestReplayC11Shapes(t *testing.T) {
	var cl c11Caller
	for _, width := range []int{23, 24, 25, 30} {
		p := c11Head + "violation:\n  - wide\nvalidations:\n  wide:\n    message: m\n    targetClass: ex.Thing\n    propertyConstraints:\n"
		for i := 0; i < width; i++ {
			p += fmt.Sprintf("      ex.p%d:\n        nested:\n          propertyConstraints:\n            ex.name:\n              minCount: 1\n", i)
		}
		for mode := 0; mode < c11Modes; mode++ {
			obs := cl.observe(mode, func(ch *chan e.Event) error {
				_, err := Validate(p, c11DataConforming, false, ch)
				return err
			})
			c11Judge(t, fmt.Sprintf("Validate, one validation with %d nested constraints, conforming data", width), mode, obs, c11StProfile, c11StReport, c11Success, false)
		}
	}
	compiled, err := CompileProfile(c11ProfileValid, false, nil)
	if err != nil {
		t.Errorf("C11 harness: the valid profile does not compile: %v", err)
		return
	}
	for _, d := range c11Data[:2] {
		for mode := 0; mode < c11Modes; mode++ {
			obs := cl.observe(mode, func(ch *chan e.Event) error {
				_, err := ValidateWithConfiguration(c11ProfileValid, d.text, false, ch, nil, c11ReportConfig())
				return err
			})
			c11Judge(t, "ValidateWithConfiguration without a validation configuration (no creation time asked for), "+d.name, mode, obs, c11StProfile, c11StReport, c11Success, false)
			obs = cl.observe(mode, func(ch *chan e.Event) error {
				_, err := ValidateCompiledWithConfiguration(compiled, d.text, false, ch, nil, c11ReportConfig())
				return err
			})
			c11Judge(t, "ValidateCompiledWithConfiguration without a validation configuration (no creation time asked for), "+d.name, mode, obs, c11StDataParsing, c11StReport, c11Success, false)
		}
	}
}
