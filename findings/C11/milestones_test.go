package pkg

// Witness for property C11 (milestones part): one milestone per completed stage. The events of a real validation are
// forwarded to GenerateMilestonesFromEvents; the number of milestones must equal the number of completion events.

import (
	"os"
	"testing"

	e "github.com/aml-org/amf-custom-validator/pkg/events"
	"github.com/aml-org/amf-custom-validator/pkg/milestones"
)

func TestReplayC11Milestones(t *testing.T) {
	profile, _ := os.ReadFile("../test/data/integration/profile1/profile.yaml")
	data, _ := os.ReadFile("../test/data/integration/profile1/positive.data.jsonld")
	events := make(chan e.Event, 64)
	if _, err := Validate(string(profile), string(data), false, &events); err != nil {
		t.Fatal(err)
	}
	var done []e.EventType
	replay := make(chan e.Event, 64)
	for ev := range events {
		switch ev.EventType {
		case e.ProfileParsingDone, e.InputDataParsingDone, e.InputDataNormalizationDone, e.RegoGenerationDone, e.RegoCompilationDone, e.OpaValidationDone, e.BuildReportDone:
			done = append(done, ev.EventType)
		}
		replay <- ev
	}
	close(replay)
	ms := make(chan milestones.Milestone, 64)
	milestones.GenerateMilestonesFromEvents(&replay, &ms)
	n := 0
	for m := range ms {
		n++
		if m.Duration < 0 {
			t.Errorf("C11 violated: milestone %s has a negative duration %v", m.Operation, m.Duration)
		}
	}
	if n != len(done) {
		t.Errorf("C11 violated: %d stages completed (%v) but %d milestones were derived", len(done), done, n)
	}
}
