package pkg

// Bounded witness search for property C09: validating data with a precompiled profile (CompileProfile +
// ValidateCompiledWithConfiguration) gives, byte for byte, the report that ValidateWithConfiguration gives for the profile text,
// the same data and the same configuration; the calls fail together (error iff error); and one compiled profile can be used for
// any sequence of documents - what was validated before (with this or another compiled profile, successfully or not), the debug
// flag and a non-nil event channel do not change a report. Clocks are fixed (config.TestValidationConfiguration and a second
// fixed clock), three report configurations.
//
// Bound: 27 profiles of the repository (10 integration, 6 tck, 4 shacl, semex, 4 production, and a security and a shacl
// profile that must be refused on both paths) with 2-4 of their own data documents, one document of the neighbouring profile,
// and - for every second profile - five documents derived from its first document (byte order mark, truncated, stray ']' in front, two documents
// concatenated, "{}"); 5 hand-written profiles (default prefixes only, an undeclared prefix, default prefixes bound to other
// namespaces, an own prefix, a profile compiled with debug flag and event channel) over an alphabet of 18 hand-written
// documents (source maps with and without source information, an element listed by three source maps, no nodes, a document of
// another vocabulary, and ten documents that make the call fail or that are not plain JSON-LD). Every profile is compiled once,
// before anything is validated. Sequences per compiled profile: forward, reverse, every document twice, the first document
// after every other one; for the first hand-written profile every ordered pair x,y as x,y,y,x (18*18*4 calls) under all three
// configurations; then six rounds over all compiled profiles interleaved; then, at the end, the first document of every
// profile (three of the other hand-written profiles, all of the first one) once more on both paths. About 2800 validations with compiled
// profiles are compared with about 350 validations of profile texts (TestReplayC09CompiledProfileEqualsSourceAndIsReusable).
// TestReplayC09AgainstFreshProcesses compares 20 more calls of one compiled profile with 10 validations of the profile text
// made in 10 fresh processes (this test binary started again). Witness search only.

import (
	"encoding/base64"
	"fmt"
	"os"
	"os/exec"
	"strings"
	"testing"
	"time"

	c "github.com/aml-org/amf-custom-validator/pkg/config"
	e "github.com/aml-org/amf-custom-validator/pkg/events"
	"github.com/open-policy-agent/opa/rego"
)

type c09Clock struct{}

func (c09Clock) ReportCreationTime() time.Time {
	return time.Date(2017, time.March, 9, 21, 30, 5, 0, time.FixedZone("UTC-3", -3*3600))
}

type c09Config struct {
	label string
	vc    c.ValidationConfiguration
	rc    c.ReportConfiguration
}

var c09Configs = []c09Config{
	{"default report configuration", c.TestValidationConfiguration{}, c.DefaultReportConfiguration()},
	{"schemas http://a.ml/report and http://a.ml/lexical, no creation time", c.TestValidationConfiguration{}, c.ReportConfiguration{IncludeReportCreationTime: false, ReportSchemaIri: "http://a.ml/report", LexicalSchemaIri: "http://a.ml/lexical"}},
	{"schemas under https://example.org/dialects, clock fixed in 2017", c09Clock{}, c.ReportConfiguration{IncludeReportCreationTime: true, ReportSchemaIri: "https://example.org/dialects/report.yaml", LexicalSchemaIri: "https://example.org/dialects/lexical.yaml"}},
}

type c09Doc struct{ label, text string }

type c09Outcome struct {
	kind   string // "report", "error", "panic"
	report string
	detail string
}

type c09Group struct {
	label       string
	profile     string
	docs        []c09Doc
	own         int  // number of own documents (the first ones of docs)
	allConfigs  bool // expected reports for all configurations (otherwise one per document)
	noisy       bool // compiled with the debug flag and an event channel
	compiled    *rego.PreparedEvalQuery
	compileFail string
	expected    map[string]c09Outcome
	calls       int
	last        string
}

type c09State struct {
	t         *testing.T
	reported  int
	withheld  int
	compiledN int
	textN     int
}

func (s *c09State) violation(format string, args ...any) {
	if s.reported < 30 {
		s.reported++
		s.t.Errorf("C09 violated: "+format, args...)
	} else {
		s.withheld++
	}
}

func c09Run(f func() (string, error)) (out c09Outcome) {
	defer func() {
		if r := recover(); r != nil {
			out = c09Outcome{kind: "panic", detail: c09Short(fmt.Sprint(r))}
		}
	}()
	rep, err := f()
	if err != nil {
		return c09Outcome{kind: "error", detail: c09Short(err.Error())}
	}
	return c09Outcome{kind: "report", report: rep}
}

func c09Short(s string) string {
	s = strings.Split(s, "\n")[0]
	if len(s) > 90 {
		s = s[:90] + "..."
	}
	return s
}

func c09Conforms(rep string) string {
	switch {
	case strings.Contains(rep, `"conforms": true`):
		return "conforms: true"
	case strings.Contains(rep, `"conforms": false`):
		return "conforms: false"
	}
	return "no conforms"
}

// c09Diff describes how the outcome of the compiled profile differs from the outcome of the profile text ("" when equal)
func c09Diff(compiled, text c09Outcome) string {
	return c09DiffOf("the compiled profile", compiled, "the profile text", text)
}

func c09DiffOf(left string, compiled c09Outcome, right string, text c09Outcome) string {
	show := func(o c09Outcome) string {
		if o.kind == "report" {
			return fmt.Sprintf("a report (%d bytes, %s)", len(o.report), c09Conforms(o.report))
		}
		return fmt.Sprintf("%s %q", o.kind, o.detail)
	}
	if compiled.kind != text.kind {
		return fmt.Sprintf("%s gives %s, %s gives %s; both must fail or both must give the same report", left, show(compiled), right, show(text))
	}
	if compiled.kind != "report" || compiled.report == text.report {
		return ""
	}
	a, b := compiled.report, text.report
	i := 0
	for i < len(a) && i < len(b) && a[i] == b[i] {
		i++
	}
	cut := func(s string) string {
		from, to := i-20, i+40
		if from < 0 {
			from = 0
		}
		if to > len(s) {
			to = len(s)
		}
		return s[from:to]
	}
	return fmt.Sprintf("reports differ from byte %d: %s gives %s with %q, %s gives %s with %q; they must be equal byte for byte", i, left, show(compiled), cut(a), right, show(text), cut(b))
}

func c09Chan(on bool) *chan e.Event {
	if !on {
		return nil
	}
	ch := make(chan e.Event, 64) // a validation sends at most 14 events; nobody has to listen
	return &ch
}

func (s *c09State) text(g *c09Group, d c09Doc, cfg c09Config, debug, events bool) c09Outcome {
	s.textN++
	return c09Run(func() (string, error) {
		return ValidateWithConfiguration(g.profile, d.text, debug, c09Chan(events), cfg.vc, cfg.rc)
	})
}

func (g *c09Group) configsOf(di int, gi int) []int {
	if g.allConfigs {
		return []int{0, 1, 2}
	}
	return []int{(gi + di) % len(c09Configs)}
}

// step validates document di with the compiled profile of g and compares with the report of the profile text
func (s *c09State) step(gi int, g *c09Group, di int, scenario string) {
	cfgs := g.configsOf(di, gi)
	s.stepWith(gi, g, di, cfgs[(g.calls/2)%len(cfgs)], scenario)
}

func (s *c09State) stepWith(gi int, g *c09Group, di int, ci int, scenario string) {
	cfg := c09Configs[ci]
	debug, events := g.calls%2 == 1, g.calls%4 >= 2
	d := g.docs[di]
	g.calls++
	s.compiledN++
	got := c09Run(func() (string, error) {
		return ValidateCompiledWithConfiguration(g.compiled, d.text, debug, c09Chan(events), cfg.vc, cfg.rc)
	})
	want, ok := g.expected[fmt.Sprintf("%d/%d", di, ci)]
	if !ok {
		s.t.Errorf("C09 harness: no expected outcome for profile %s, data %s, configuration %d", g.label, d.label, ci)
		return
	}
	if diff := c09Diff(got, want); diff != "" {
		prev := g.last
		if prev == "" {
			prev = "nothing"
		}
		s.violation("profile %s, data %s (%s; %s; debug=%v, event channel=%v; call %d of this compiled profile, the previous one validated %s): %s",
			g.label, d.label, scenario, cfg.label, debug, events, g.calls, prev, diff)
	}
	g.last = d.label
}

// ---- hand-written documents

const (
	c09AC   = "http://a.ml/vocabularies/apiContract#"
	c09Core = "http://a.ml/vocabularies/core#"
	c09SM   = "http://a.ml/vocabularies/document-source-maps#"
	c09DocV = "http://a.ml/vocabularies/document#"
)

// c09EndPoint is an end point of vocabulary ns (named when name != "") with a lexical source map (when rng != "")
func c09EndPoint(ns, coreNs, id, name, rng string) string {
	n := fmt.Sprintf(`{"@id": %q, "@type": ["%sEndPoint"], "%spath": "/p/%d"`, id, ns, ns, len(id))
	if name != "" {
		n += fmt.Sprintf(`, "%sname": %q`, coreNs, name)
	}
	if rng == "" {
		return n + "}"
	}
	n += fmt.Sprintf(`, "%ssources": [{"@id": "%s/sm"}]}`, c09SM, id)
	n += fmt.Sprintf(`,
{"@id": "%s/sm", "@type": ["%sSourceMap"], "%slexical": [{"@id": "%s/sm/l0"}, {"@id": "%s/sm/l1"}]}`, id, c09SM, c09SM, id, id)
	n += fmt.Sprintf(`,
{"@id": "%s/sm/l0", "%selement": %q, "%svalue": %q}`, id, c09SM, id, c09SM, rng)
	n += fmt.Sprintf(`,
{"@id": "%s/sm/l1", "%selement": "%spath", "%svalue": "[(990,1)-(990,9)]"}`, id, c09SM, ns, c09SM)
	return n
}

// c09Info is the source information of a unit: its root location and files that list some elements
func c09Info(id, root string, files ...[2]string) string {
	n := fmt.Sprintf(`{"@id": %q, "@type": ["%sBaseUnitSourceInformation"], "%srootLocation": %q`, id, c09DocV, c09DocV, root)
	var refs, nodes []string
	for i, f := range files {
		loc := fmt.Sprintf("%s/location_%d", id, i)
		refs = append(refs, fmt.Sprintf(`{"@id": %q}`, loc))
		nodes = append(nodes, fmt.Sprintf(`{"@id": %q, "@type": ["%sLocationInformation"], "%slocation": %q, "%selements": [{"@id": %q}]}`, loc, c09DocV, c09DocV, f[0], c09DocV, f[1]))
	}
	if len(refs) > 0 {
		n += fmt.Sprintf(`, "%sadditionalLocations": [%s]`, c09DocV, strings.Join(refs, ", "))
	}
	return strings.Join(append([]string{n + "}"}, nodes...), ",\n")
}

func c09Graph(parts ...string) string {
	return `{"@graph": [` + "\n" + strings.Join(parts, ",\n") + "\n]}"
}

func c09HandDocs() []c09Doc {
	a := c09Graph(
		c09EndPoint(c09AC, c09Core, "amf://a#1", "one", "[(3,0)-(5,12)]"),
		c09EndPoint(c09AC, c09Core, "amf://a#2", "", "[(7,2)-(9,4)]"),
		c09EndPoint(c09AC, c09Core, "amf://a#3", "", "[(11,2)-(12,4)]"),
		c09Info("amf://a#info", "file:///a/root.raml", [2]string{"file:///a/lib.raml", "amf://a#3"}))
	b := c09Graph(
		c09EndPoint(c09AC, c09Core, "amf://b#1", "", "[(1,0)-(2,8)]"),
		c09EndPoint(c09AC, c09Core, "amf://b#2", "two", "[(3,0)-(4,8)]"))
	conforming := c09Graph(
		c09EndPoint(c09AC, c09Core, "amf://c#1", "one", "[(1,0)-(1,9)]"),
		c09Info("amf://c#info", "file:///c/api.yaml"))
	twice := c09Graph(
		c09EndPoint(c09AC, c09Core, "amf://j#1", "", "[(20,0)-(21,5)]"),
		fmt.Sprintf(`{"@id": "amf://j#0/other-sm", "@type": ["%sSourceMap"], "%slexical": [{"@id": "amf://j#0/other-sm/l0"}]}`, c09SM, c09SM),
		fmt.Sprintf(`{"@id": "amf://j#0/other-sm/l0", "%selement": "amf://j#1", "%svalue": "[(40,0)-(41,5)]"}`, c09SM, c09SM),
		fmt.Sprintf(`{"@id": "amf://j#9/late-sm", "@type": ["%sSourceMap"], "%slexical": {"@id": "amf://j#9/late-sm/l0"}}`, c09SM, c09SM),
		fmt.Sprintf(`{"@id": "amf://j#9/late-sm/l0", "%selement": "amf://j#1", "%svalue": "[(60,0)-(61,5)]"}`, c09SM, c09SM),
		c09Info("amf://j#info-1", "file:///j/first.raml"),
		c09Info("amf://j#info-2", "file:///j/second.raml", [2]string{"file:///j/lib.raml", "amf://j#1"}))
	other := c09Graph(
		c09EndPoint("http://example.org/other/contract#", "http://example.org/other/core#", "amf://n#1", "", "[(1,0)-(2,8)]"),
		c09EndPoint("http://example.org/other/contract#", "http://example.org/other/core#", "amf://n#2", "named", ""),
		c09EndPoint(c09AC, c09Core, "amf://n#3", "named", ""),
		c09Info("amf://n#info", "file:///n/api.raml"))
	things := c09Graph(
		`{"@id": "http://example.org/t1", "@type": "http://example.org/Thing", "http://example.org/label": "first"}`,
		`{"@id": "http://example.org/t2", "@type": "http://example.org/Thing"}`,
		`{"@id": "http://example.org/t3", "@type": ["http://example.org/Thing", "`+c09AC+`EndPoint"], "`+c09AC+`path": "no slash"}`)
	html := "<!DOCTYPE html>\n<html><head><title>502 Bad Gateway</title></head>\n<body>\n" + strings.Repeat("<p>The server returned an invalid or incomplete response while the API model was downloaded.</p>\n", 12) + "</body></html>\n"
	return []c09Doc{
		{"A (source information, 3 end points, 2 unnamed)", a},
		{"B (lexical source maps but no source information, 1 of 2 end points unnamed)", b},
		{"C (conforming, root file:///c/api.yaml)", conforming},
		{"D ({})", `{}`},
		{"E (empty @graph)", `{"@graph": []}`},
		{"F (A cut in the middle)", a[:len(a)/2]},
		{"G (']' followed by A)", "]" + a},
		{"H (A behind a byte order mark)", "\ufeff" + a},
		{"I (numeric @id, not JSON-LD)", `{"@graph": [{"@id": 17, "@type": "` + c09AC + `EndPoint"}]}`},
		{"J (end point listed by three source maps, two source information nodes)", twice},
		{"K (B, newline, A in one text)", b + "\n" + a},
		{"L (HTML error page of 1.2 kB)", html},
		{"M (source map whose lexical entry does not exist)", c09Graph(c09EndPoint(c09AC, c09Core, "amf://m#1", "", ""), fmt.Sprintf(`{"@id": "amf://m#1/sm", "@type": ["%sSourceMap"], "%slexical": [{"@id": "amf://m#1/sm/missing"}]}`, c09SM, c09SM))},
		{"N (end points of http://example.org/other/contract#)", other},
		{"T (three http://example.org/Thing nodes)", things},
		{"U (empty text)", ""},
		{"V ([])", `[]`},
		{"W (A with a stray '}' after it)", a + "\n}"},
	}
}

const c09ProfileDefaults = `#%Validation Profile 1.0
profile: Defaults only
violation:
  - named
warning:
  - described
validations:
  named:
    message: End points must have a name
    targetClass: apiContract.EndPoint
    propertyConstraints:
      core.name:
        minCount: 1
  described:
    message: End points should have a description
    targetClass: apiContract.EndPoint
    propertyConstraints:
      core.description:
        minCount: 1
`

const c09ProfileUndeclared = `#%Validation Profile 1.0
profile: Undeclared prefix
violation:
  - labelled
validations:
  labelled:
    message: Things must have a label
    targetClass: ex.Thing
    propertyConstraints:
      ex.label:
        minCount: 1
`

const c09ProfileRebinds = `#%Validation Profile 1.0
profile: Defaults rebound
prefixes:
  apiContract: http://example.org/other/contract#
  core: http://example.org/other/core#
  shapes: http://example.org/other/shapes#
  ex: http://example.org/
violation:
  - named
validations:
  named:
    message: End points of the other vocabulary must have a name
    targetClass: apiContract.EndPoint
    propertyConstraints:
      core.name:
        minCount: 1
`

const c09ProfileOwnPrefix = `#%Validation Profile 1.0
profile: Own prefix
prefixes:
  ex: http://example.org/
violation:
  - labelled
info:
  - named
validations:
  labelled:
    message: Things must have a label
    targetClass: ex.Thing
    propertyConstraints:
      ex.label:
        minCount: 1
  named:
    message: End points have names
    targetClass: apiContract.EndPoint
    propertyConstraints:
      core.name:
        minCount: 1
`

const c09ProfileNoisy = `#%Validation Profile 1.0
profile: Compiled with debug flag and event channel
violation:
  - rooted
validations:
  rooted:
    message: Paths start with a slash
    targetClass: apiContract.EndPoint
    propertyConstraints:
      apiContract.path:
        pattern: ^/
`

// ---- fixtures of the repository

var c09Fixtures = [][]string{ // profile, own data documents (relative to ../test/data)
	{"integration/profile1/profile.yaml", "integration/profile1/negative.data.jsonld", "integration/profile1/positive.data.jsonld", "integration/profile1/negative.data.lexical.jsonld", "integration/profile1/positive.data.lexical.jsonld"},
	{"integration/profile4/profile.yaml", "integration/profile4/positive.data.jsonld", "integration/profile4/negative.data.jsonld", "integration/profile4/negative.data.lexical.jsonld"},
	{"integration/profile7/profile.yaml", "integration/profile7/negative.data.jsonld", "integration/profile7/positive.data.lexical.jsonld", "integration/profile7/positive.data.jsonld"},
	{"integration/profile10/profile.yaml", "integration/profile10/negative.data.jsonld", "integration/profile10/positive.data.jsonld"},
	{"integration/profile13/profile.yaml", "integration/profile13/positive.data.jsonld", "integration/profile13/negative.data.lexical.jsonld", "integration/profile13/negative.data.jsonld"},
	{"integration/profile16/profile.yaml", "integration/profile16/negative.data.jsonld", "integration/profile16/positive.data.jsonld"},
	{"integration/profile19/profile.yaml", "integration/profile19/negative.data.lexical.jsonld", "integration/profile19/positive.data.jsonld", "integration/profile19/negative.data.jsonld"},
	{"integration/profile22/profile.yaml", "integration/profile22/positive.data.jsonld", "integration/profile22/negative.data.jsonld"},
	{"integration/profile25/profile.yaml", "integration/profile25/negative.data.jsonld", "integration/profile25/negative.data.lexical.jsonld", "integration/profile25/positive.data.jsonld"},
	{"integration/profile28/profile.yaml", "integration/profile28/negative.data.jsonld", "integration/profile28/positive.data.jsonld"},
	{"tck/or/or-and/profile.yaml", "tck/or/or-and/data.jsonld", "tck/or/or-not/data.jsonld", "tck/or/or-or/data.jsonld"},
	{"tck/nested/nested-or/profile.yaml", "tck/nested/nested-or/data.jsonld", "tck/nested/nested-not/data.jsonld"},
	{"tck/data-types/coercion/profile.yaml", "tck/data-types/coercion/data.jsonld", "tck/data-types/integer/data.jsonld", "tck/data-types/string/data.jsonld"},
	{"tck/property/uniqueValues-object/profile.yaml", "tck/property/uniqueValues-object/data.jsonld", "tck/property/exactCount/data.jsonld"},
	{"tck/conditionals/if-then-else/profile.yaml", "tck/conditionals/if-then-else/data.jsonld", "tck/conditionals/if-then/data.jsonld"},
	{"tck/severity/info/profile.yaml", "tck/severity/info/data.jsonld", "tck/and/and-not/data.jsonld"},
	{"shacl/property/minCount-001/profile.yaml", "shacl/property/minCount-001/data.jsonld", "shacl/property/maxCount-001/data.jsonld"},
	{"shacl/path/path-inverse-001/profile.yaml", "shacl/path/path-inverse-001/data.jsonld", "shacl/path/path-sequence-001/data.jsonld"},
	{"shacl/node/and-001/profile.yaml", "shacl/node/and-001/data.jsonld", "shacl/node/or-001/data.jsonld"},
	{"shacl/property/pattern-001/profile.yaml", "shacl/property/pattern-001/data.jsonld", "shacl/property/datatype-001/data.jsonld"},
	{"semex/semantic-extension-pagination/profile.yaml", "semex/semantic-extension-pagination/api.raml.jsonld", "semex/semantic-extension-pagination/api.oas20.yaml.jsonld", "semex/semantic-extension-pagination/api.oas30.yaml.jsonld", "semex/semantic-extension-pagination/api.async.yaml.jsonld"},
	{"production/zalando/profile.yaml", "production/zalando/negative1.yaml.jsonld", "production/zalando/positive1.yaml.jsonld", "production/zalando/negative2.yaml.jsonld"},
	{"production/support/profile.yaml", "production/support/positive1.raml.jsonld", "production/support/negative1.raml.jsonld"},
	{"production/owasp/profile.yaml", "production/owasp/negative1.yaml.jsonld", "production/owasp/positive1.yaml.jsonld"},
	{"production/asyncapi/profile.yaml", "production/asyncapi/negative1.yaml.jsonld", "production/asyncapi/positive1.yaml.jsonld"},
	{"security/http.send/profile.yaml", "integration/profile1/negative.data.jsonld", "integration/profile1/positive.data.jsonld"},
	{"shacl/node/xone-001/profile.yaml", "shacl/node/xone-001/data.jsonld", "shacl/node/or-001/data.jsonld"},
}

func c09Read(t *testing.T, rel string) (string, bool) {
	b, err := os.ReadFile("../test/data/" + rel)
	if err != nil {
		t.Errorf("C09 harness: fixture %s cannot be read: %v", rel, err)
		return "", false
	}
	return string(b), true
}

func c09Groups(t *testing.T) []*c09Group {
	hand := c09HandDocs()
	groups := []*c09Group{
		{label: "hand-written 'Defaults only'", profile: c09ProfileDefaults, docs: hand, own: len(hand), allConfigs: true},
		{label: "hand-written 'Undeclared prefix'", profile: c09ProfileUndeclared, docs: []c09Doc{hand[14], hand[0], hand[3], hand[5]}, own: 4},
		{label: "hand-written 'Defaults rebound'", profile: c09ProfileRebinds, docs: hand, own: len(hand)},
		{label: "hand-written 'Own prefix'", profile: c09ProfileOwnPrefix, docs: hand, own: len(hand)},
		{label: "hand-written 'Compiled with debug flag and event channel'", profile: c09ProfileNoisy, docs: hand, own: len(hand), noisy: true},
	}
	var fixtures []*c09Group
	for _, f := range c09Fixtures {
		p, ok := c09Read(t, f[0])
		if !ok {
			continue
		}
		g := &c09Group{label: strings.TrimSuffix(f[0], "/profile.yaml"), profile: p}
		for _, d := range f[1:] {
			if text, ok := c09Read(t, d); ok {
				g.docs = append(g.docs, c09Doc{d, text})
			}
		}
		g.own = len(g.docs)
		if g.own == 0 {
			continue
		}
		fixtures = append(fixtures, g)
	}
	for i, g := range fixtures {
		next := fixtures[(i+1)%len(fixtures)]
		g.docs = append(g.docs, c09Doc{"of the next profile, " + next.docs[0].label, next.docs[0].text})
		if i%2 == 0 {
			first, second := g.docs[0], g.docs[(1)%g.own]
			g.docs = append(g.docs,
				c09Doc{first.label + " behind a byte order mark", "\ufeff" + first.text},
				c09Doc{first.label + " cut in the middle", first.text[:len(first.text)/2]},
				c09Doc{"']' followed by " + first.label, "]" + first.text},
				c09Doc{first.label + ", newline, " + second.label + " in one text", first.text + "\n" + second.text},
				c09Doc{"{}", "{}"})
		}
	}
	return append(groups, fixtures...)
}

func TestReplayC09CompiledProfileEqualsSourceAndIsReusable(t *testing.T) {
	s := &c09State{t: t}
	groups := c09Groups(t)

	// every profile is compiled once, before anything is validated
	for _, g := range groups {
		g := g
		out := c09Run(func() (string, error) {
			var ch *chan e.Event
			if g.noisy {
				ch = c09Chan(true)
			}
			compiled, err := CompileProfile(g.profile, g.noisy, ch)
			if err == nil && compiled == nil {
				return "", fmt.Errorf("CompileProfile returned neither a compiled profile nor an error")
			}
			g.compiled = compiled
			return "", err
		})
		if out.kind != "report" {
			g.compiled, g.compileFail = nil, out.kind+" "+out.detail
		}
	}

	// the reports of the profile texts: every (profile, document) under its configuration(s), each validated once
	for gi, g := range groups {
		g.expected = map[string]c09Outcome{}
		for di, d := range g.docs {
			for _, ci := range g.configsOf(di, gi) {
				want := s.text(g, d, c09Configs[ci], false, false)
				g.expected[fmt.Sprintf("%d/%d", di, ci)] = want
				if g.compiled == nil && want.kind == "report" {
					s.violation("profile %s, data %s: CompileProfile fails (%s) but validating with the profile text gives a report (%s); both must fail",
						g.label, d.label, g.compileFail, c09Conforms(want.report))
				}
			}
		}
	}

	// the debug flag and an event channel do not change the report of the profile text either
	for di, d := range groups[0].docs {
		cfg := c09Configs[di%len(c09Configs)]
		got := s.text(groups[0], d, cfg, di%2 == 0, true)
		want := groups[0].expected[fmt.Sprintf("%d/%d", di, di%len(c09Configs))]
		if diff := c09DiffOf(fmt.Sprintf("the profile text with debug=%v and an event channel", di%2 == 0), got, "the profile text with debug=false and no event channel", want); diff != "" {
			s.violation("profile %s, data %s (%s): %s", groups[0].label, d.label, cfg.label, diff)
		}
	}

	// sequences through each compiled profile
	for gi, g := range groups {
		if g.compiled == nil {
			continue
		}
		n := len(g.docs)
		for di := 0; di < n; di++ {
			s.step(gi, g, di, "documents in order")
		}
		for di := n - 1; di >= 0; di-- {
			s.step(gi, g, di, "documents in reverse order")
		}
		for di := 0; di < n; di++ {
			s.step(gi, g, di, "every document twice, first time")
			s.step(gi, g, di, "every document twice, second time")
		}
		for di := 1; di < n; di++ {
			s.step(gi, g, di, "alternating with the first document")
			s.step(gi, g, 0, "the first document after every other one")
		}
		if gi == 0 {
			for x := 0; x < n; x++ {
				for y := 0; y < n; y++ {
					s.step(gi, g, x, "pairs x,y,y,x: x")
					s.step(gi, g, y, "pairs x,y,y,x: y")
					s.step(gi, g, y, "pairs x,y,y,x: y again")
					s.step(gi, g, x, "pairs x,y,y,x: x again")
				}
			}
		}
	}

	// the compiled profiles interleaved
	for round := 0; round < 6; round++ {
		for gi, g := range groups {
			if g.compiled != nil {
				s.step(gi, g, (round*5+gi)%len(g.docs), fmt.Sprintf("all compiled profiles interleaved, round %d", round+1))
			}
		}
	}

	// at the end: the profile text once more, next to the compiled profile that has been through all of the above
	for gi, g := range groups {
		if g.compiled == nil {
			continue
		}
		upto := 1
		if gi == 0 {
			upto = len(g.docs)
		} else if g.own == len(g.docs) {
			upto = 3
		}
		for di := 0; di < upto; di++ {
			cfgs := g.configsOf(di, gi)
			ci := cfgs[di%len(cfgs)]
			g.expected[fmt.Sprintf("%d/%d", di, ci)] = s.text(g, g.docs[di], c09Configs[ci], false, false)
			s.stepWith(gi, g, di, ci, "after all sequences, profile text validated afresh")
		}
	}

	if s.withheld > 0 {
		t.Errorf("C09 violated: %d further differences between compiled profiles and profile texts are not listed", s.withheld)
	}
	t.Logf("C09: %d validations with compiled profiles compared with %d validations of profile texts, %d profiles", s.compiledN, s.textN, len(groups))
}

// ---- validations in fresh processes

const c09FreshEnv = "C09_FRESH_VALIDATION"

// TestReplayC09FreshChild does nothing in an ordinary run. Started by TestReplayC09AgainstFreshProcesses in a process of its
// own (this test binary, environment variable set to "<document>/<configuration>") it validates that one document with the text
// of the 'Defaults only' profile - the only validation of that process - and prints the outcome.
func TestReplayC09FreshChild(t *testing.T) {
	spec := os.Getenv(c09FreshEnv)
	if spec == "" {
		return
	}
	var di, ci int
	docs := c09HandDocs()
	if n, err := fmt.Sscanf(spec, "%d/%d", &di, &ci); n != 2 || err != nil || di < 0 || di >= len(docs) || ci < 0 || ci >= len(c09Configs) {
		fmt.Printf("\nC09-FRESH harness %s END\n", base64.StdEncoding.EncodeToString([]byte("bad request "+spec)))
		return
	}
	out := c09Run(func() (string, error) {
		return ValidateWithConfiguration(c09ProfileDefaults, docs[di].text, false, nil, c09Configs[ci].vc, c09Configs[ci].rc)
	})
	fmt.Printf("\nC09-FRESH %s %s END\n", out.kind, base64.StdEncoding.EncodeToString([]byte(out.report+out.detail)))
}

func c09Fresh(di, ci int) (c09Outcome, error) {
	exe, err := os.Executable()
	if err != nil {
		return c09Outcome{}, err
	}
	cmd := exec.Command(exe, "-test.run=^TestReplayC09FreshChild$", "-test.count=1")
	cmd.Env = append(os.Environ(), fmt.Sprintf("%s=%d/%d", c09FreshEnv, di, ci))
	stdout, err := cmd.Output()
	if err != nil {
		return c09Outcome{}, err
	}
	for _, line := range strings.Split(string(stdout), "\n") {
		f := strings.Fields(line)
		if len(f) == 4 && f[0] == "C09-FRESH" && f[3] == "END" {
			payload, err := base64.StdEncoding.DecodeString(f[2])
			if err != nil {
				return c09Outcome{}, err
			}
			switch f[1] {
			case "report":
				return c09Outcome{kind: "report", report: string(payload)}, nil
			case "error", "panic":
				return c09Outcome{kind: f[1], detail: string(payload)}, nil
			}
			return c09Outcome{}, fmt.Errorf("child process: %s", payload)
		}
	}
	return c09Outcome{}, fmt.Errorf("child process printed no outcome")
}

// TestReplayC09AgainstFreshProcesses takes "fresh, independent validation" literally: the documents A, C, D (and F, which
// fails) are validated with the text of the 'Defaults only' profile under each of the three configurations in ten processes
// that do nothing else; one compiled profile is then run through the ten (document, configuration) combinations in two
// different orders (20 calls) and must reproduce those reports.
func TestReplayC09AgainstFreshProcesses(t *testing.T) {
	if os.Getenv(c09FreshEnv) != "" {
		return
	}
	docs := c09HandDocs()
	type combination struct{ di, ci int }
	var combos []combination
	for _, di := range []int{0, 2, 3} {
		for ci := range c09Configs {
			combos = append(combos, combination{di, ci})
		}
	}
	combos = append(combos, combination{5, 1})
	fresh := map[combination]c09Outcome{}
	for _, k := range combos {
		out, err := c09Fresh(k.di, k.ci)
		if err != nil {
			t.Errorf("C09 harness: no fresh process for data %s, configuration %d: %v", docs[k.di].label, k.ci, err)
			return
		}
		fresh[k] = out
	}
	compiled, err := CompileProfile(c09ProfileDefaults, false, nil)
	if err != nil || compiled == nil {
		t.Errorf("C09 harness: profile 'Defaults only' does not compile: %v", err)
		return
	}
	order := append([]combination{}, combos...)
	for ci := len(c09Configs) - 1; ci >= 0; ci-- { // second pass: by configuration, descending, documents in reverse
		for i := len(combos) - 1; i >= 0; i-- {
			if combos[i].ci == ci {
				order = append(order, combos[i])
			}
		}
	}
	previous := "nothing"
	for n, k := range order {
		cfg := c09Configs[k.ci]
		got := c09Run(func() (string, error) {
			return ValidateCompiledWithConfiguration(compiled, docs[k.di].text, n%2 == 1, c09Chan(n%4 >= 2), cfg.vc, cfg.rc)
		})
		if diff := c09DiffOf("the compiled profile", got, "the profile text in a fresh process", fresh[k]); diff != "" {
			t.Errorf("C09 violated: profile hand-written 'Defaults only', data %s (%s; call %d of this compiled profile, the previous one validated %s): %s",
				docs[k.di].label, cfg.label, n+1, previous, diff)
		}
		previous = docs[k.di].label + " under " + cfg.label
	}
}
