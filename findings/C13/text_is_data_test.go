package validator

// Witnesses for property C13: profile name, validation name, message and set values are data.
// Each case must compile, and the report must show the text as written (double quotes in messages shown as single quotes).

import (
	"encoding/json"
	"strings"
	"testing"
)

const c13Data = `{"@context":{"@vocab":"http://a.ml/vocabularies/apiContract#","core":"http://a.ml/vocabularies/core#"},
"@id":"http://x/api","@type":"WebAPI","core:name":"a\"b"}`

func c13Profile(profileName, validationName, message, inValue string) string {
	q := func(s string) string { b, _ := json.Marshal(s); return string(b) } // YAML double-quoted scalars accept JSON strings
	p := "#%Validation Profile 1.0\nprofile: " + q(profileName) + "\nviolation:\n  - " + q(validationName) + "\nvalidations:\n  " + q(validationName) + ":\n    targetClass: apiContract.WebAPI\n    message: " + q(message) + "\n    propertyConstraints:\n      core.name:\n        in: [" + q(inValue) + "]\n"
	return p
}

func c13Run(t *testing.T, label, profileName, validationName, message, inValue, wantMessage string) {
	t.Helper()
	rep, err := Validate(c13Profile(profileName, validationName, message, inValue), c13Data, false, nil)
	if err != nil {
		t.Errorf("%s: C13 violated: does not compile / validate: %v", label, strings.Split(err.Error(), "\n")[0])
		return
	}
	var doc []map[string]any
	if json.Unmarshal([]byte(rep), &doc) != nil {
		t.Errorf("%s: report is not JSON", label)
		return
	}
	r := doc[0]["doc:encodes"].([]any)[0].(map[string]any)
	if r["profileName"] != profileName {
		t.Errorf("%s: C13 violated: profileName %q, want %q", label, r["profileName"], profileName)
	}
	res, _ := r["result"].([]any)
	if len(res) != 1 {
		t.Errorf("%s: expected one result, got %d (conforms=%v)", label, len(res), r["conforms"])
		return
	}
	rr := res[0].(map[string]any)
	if rr["sourceShapeName"] != validationName {
		t.Errorf("%s: C13 violated: validation name %q, want %q", label, rr["sourceShapeName"], validationName)
	}
	if rr["resultMessage"] != wantMessage {
		t.Errorf("%s: C13 violated: message %q, want %q", label, rr["resultMessage"], wantMessage)
	}
}

func TestReplayC13ProfileName(t *testing.T) {
	for _, n := range []string{`P"Q`, `P\Q`, "P\tQ", `Ünï`} {
		c13Run(t, "profile name "+n, n, "v1", "msg", "zzz", "msg")
	}
}

func TestReplayC13ValidationName(t *testing.T) {
	for _, n := range []string{`v"1`, `v\1`, `v 1 é`} {
		c13Run(t, "validation name "+n, "P", n, "msg", "zzz", "msg")
	}
}

func TestReplayC13MessageBackslash(t *testing.T) {
	c13Run(t, "backslash b", "P", "v1", `a\b`, "zzz", `a\b`)
	c13Run(t, "backslash q", "P", "v1", `a\q`, "zzz", `a\q`)
	c13Run(t, "tab", "P", "v1", "a\tb", "zzz", "a\tb")
	c13Run(t, "quotes", "P", "v1", `say "hi"`, "zzz", `say 'hi'`)
}

func TestReplayC13MessagePercent(t *testing.T) {
	c13Run(t, "percent without placeholder", "P", "v1", `100% bad`, "zzz", `100% bad`)
	c13Run(t, "percent with placeholder", "P", "v1", `100% of {{core.name}} bad`, "zzz", `100% of a"b bad`)
}

func TestReplayC13SetValues(t *testing.T) {
	// the node's core:name is a"b ; listing exactly that value must make the node conform
	rep, err := Validate(c13Profile("P", "v1", "m", `a"b`), c13Data, false, nil)
	if err != nil {
		t.Errorf("set value with quote: C13 violated: %v", strings.Split(err.Error(), "\n")[0])
		return
	}
	if !strings.Contains(rep, `"conforms": true`) {
		t.Errorf("set value with quote: C13 violated: value a\"b not recognised as listed")
	}
}

func TestReplayC13PatternBacktick(t *testing.T) {
	p := "#%Validation Profile 1.0\nprofile: P\nviolation:\n  - v1\nvalidations:\n  v1:\n    targetClass: apiContract.WebAPI\n    message: m\n    propertyConstraints:\n      core.name:\n        pattern: \"^a`b$\"\n"
	rep, err := Validate(p, c13Data, false, nil)
	if err != nil {
		t.Errorf("pattern with backtick: C13 violated: %v", strings.Split(err.Error(), "\n")[0])
		return
	}
	if !strings.Contains(rep, `"conforms": false`) {
		t.Errorf("pattern with backtick: C13 violated: pattern not applied")
	}
}

func TestReplayC13DollarMessageInValues(t *testing.T) {
	// "$message" is a placeholder of custom Rego blocks only; as a listed value or inside a pattern it is data
	c13Run(t, "in value $message", "P", "v1", "msg", "$message", "msg")
	p := "#%Validation Profile 1.0\nprofile: P\nviolation:\n  - v1\nvalidations:\n  v1:\n    targetClass: apiContract.WebAPI\n    message: msg\n    propertyConstraints:\n      core.name:\n        pattern: \"^[$]message$\"\n"
	rep, err := Validate(p, c13Data, false, nil)
	if err != nil {
		t.Errorf("pattern mentioning $message: C13 violated: %v", strings.Split(err.Error(), "\n")[0])
		return
	}
	if !strings.Contains(rep, `"resultMessage": "msg"`) {
		t.Errorf("pattern mentioning $message: C13 violated: the validation's message is lost: %s", rep)
	}
}
