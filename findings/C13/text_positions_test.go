package validator

// Bounded witness search for property C13 (profile text is data). Whatever text is written as the profile name, as a validation
// name, as a message or as a listed value of in / containsAll / containsSome, the profile compiles (ProcessProfile, which is what
// pkg.CompileProfile returns), and the report of a run in which the validation fails shows profileName and sourceShapeName
// verbatim and resultMessage as written, every {{prefix.property}} placeholder (blanks allowed inside the braces) replaced by the
// focus node's value of that property (`null` when the node has none) and every double quote of the written text shown as a
// single quote (a value put in place of a placeholder is shown as it is, its own quotes, percent signs and braces included);
// text that is no placeholder (quotes, backslashes, percent signs and formatting verbs, braces, dollar signs,
// backticks, hash signs, tabs, line breaks, non-ASCII text) is reported untouched. The verdict does not depend on the text: the
// nodes reported are the ones the constraints select when the text is read as plain characters (a listed value selects exactly
// the nodes that carry that very string).
//
// Bound. c13Atoms is a table of 46 troublesome strings (2 of them, 1,140 and 20,010 characters long, are used in messages,
// listed values and patterns only, a YAML key being limited to 1,024 characters; 44 are used in every position). Profiles are
// generated with every scalar written in YAML double-quoted style by a JSON encoder. Every node of the graphs has the properties
// ex:a "alpha", ex:b (a value that itself holds both quotes, a percent verb, a placeholder and a trailing backslash), ex:n 42,
// ex:t true, ex:a-b, ex:a_b, ex:k (the node's label) and ex:v; the prefixes ex and ex2 both name the namespace. Every profile is
// compiled and run once, sequentially:
//  1. profile names: each of the 44 atoms as the name of a profile with one failing validation (44 profiles);
//  2. validation names: each of the 44 atoms as the only validation (44 profiles), and one profile that holds all 44 together;
//  3. messages: every atom in 7 templates - alone; followed by a placeholder; after a placeholder (the atom ends the message);
//     between two adjacent placeholders; three times around three placeholders of which one is absent on the node and one
//     repeats the first with inner blanks; around three identical placeholders of ex:b; after a placeholder of an absent
//     property (46 x 7 = 322 messages in 46 profiles of 7 validations each);
//  4. message pairs: every ordered pair of 14 short atoms joined by one blank, alone and followed by a placeholder
//     (14 x 14 x 2 = 392 messages in 28 profiles of 14 validations each);
//  5. placeholder forms: each of the 14 short atoms around eight placeholders: a number, the same property through both prefixes
//     (adjacent), an undeclared prefix (null), a dash and an underscore in the property name, a boolean, the number again (14);
//  6. messages that consist of white space only or of nothing: "", " ", three blanks, a tab, a line break, U+00A0 (6 profiles);
//  7. listed values: for every atom k a profile with three validations, in / containsAll / containsSome, each listing atoms k,
//     k+1, k+2 (containsAll: atom k only), is applied to a graph with one node per atom (46 nodes): each validation reports
//     exactly the nodes whose value it does not list, with the message rendered for that node (46 profiles);
//  8. pattern: for every atom the pattern ^QuoteMeta(atom)$ on the same graph: every node but that atom's is reported (46);
//  9. all positions at once: profile name, validation name, message (around a placeholder) and listed value taken from four
//     different atoms, rotating through the table, on a graph of 44 nodes (44 profiles).
// 319 profiles in all, a few seconds; in 3, 4 and 7 a profile that does not compile or run is taken apart and each of its
// validations is tried alone, to name the text at fault. Witness search only.

import (
	"bytes"
	"encoding/json"
	"fmt"
	"regexp"
	"sort"
	"strings"
	"testing"
	"unicode/utf8"
)

type c13Atom struct {
	label   string
	s       string
	textual bool // too long for a name (YAML limits a simple key to 1024 characters): messages and listed values only
}

var c13Atoms = []c13Atom{
	{"plain text", "plain text", false},
	{"double quotes", `say "hi" there`, false},
	{"a lone double quote", `a 5" pipe`, false},
	{"single quotes", `it's 'quoted'`, false},
	{"both quotes adjacent", `'"'"`, false},
	{"backslashes inside", `C:\temp\new`, false},
	{"a trailing backslash", `stored under C:\temp\`, false},
	{"two trailing backslashes", `ends in two \\`, false},
	{"backslash n as two characters", `line\nbreak\t`, false},
	{"backslash before a quote", `a\"b\'c`, false},
	{"escape look-alikes", `\u0041 \x41 \0 \$`, false},
	{"a percent sign", `100% of them`, false},
	{"a trailing percent sign", `up to 100%`, false},
	{"formatting verbs", `%s %d %v %q %T %x`, false},
	{"a doubled percent sign", `20%% off`, false},
	{"a single percent sign, same words", `20% off`, false},
	{"formatting artefacts", `%[1]v %!v(MISSING) %*d %!(EXTRA string=x)`, false},
	{"braces", `{a} {} }{ {"k": 1}`, false},
	{"double braces without a property", `{{name}} {{ }} {{}}`, false},
	{"double braces around three parts", `{{a.b.c}} {{.x}} {{x.}} {{ a . b }}`, false},
	{"unbalanced braces", `{{ex.a} and {ex.a}} and {{ and }}`, false},
	{"a template of another language", `{{#each items}}{{this}}{{/each}} {% if x %}`, false},
	{"dollar signs", `costs $5 or ${x} or $$`, false},
	{"the word $message", `$message and $1 and message`, false},
	{"backticks", "run `cmd` now", false},
	{"hash signs", `# not a comment # at all`, false},
	{"a tab", "a\tb", false},
	{"a line break", "first line\nsecond line", false},
	{"a trailing line break", "ends with a break\n", false},
	{"accented letters and a dash", `Política de APIs – Café añejo`, false},
	{"letters with irregular case mappings", `Waſſer Kelvin İstanbul ırmak straße ǅ`, false},
	{"CJK", `検証プロファイル 规则`, false},
	{"Cyrillic and non-ASCII digits", `Профиль №1 ٣٤ ५`, false},
	{"emoji and symbols", `ok ✅ 🚀 → «done» ©`, false},
	{"policy source look-alike", `x"]) } deny[msg] { msg := "`, false},
	{"policy comment and package", "package p # x\nimport data.y", false},
	{"YAML look-alike", `key: value - [a, b] & *c !t | > ~`, false},
	{"padded with blanks", `  padded  `, false},
	{"a URL with an escape", `http://a.ml/x#y?z=1&w=%20<b>`, false},
	{"the word null", `null`, false},
	{"a number", `123`, false},
	{"one double quote", `"`, false},
	{"one backslash", `\`, false},
	{"one percent sign", `%`, false},
	{"long text", strings.Repeat(`long "text" 100% \ `, 60), true},
	{"very long text", strings.Repeat("very long text ", 1334), true},
}

// labels of the short atoms that are combined pairwise and used with the other placeholder forms
var c13PairLabels = []string{"double quotes", "single quotes", "backslashes inside", "a trailing backslash", "backslash n as two characters",
	"a percent sign", "formatting verbs", "a doubled percent sign", "braces", "double braces without a property", "the word $message",
	"backticks", "a line break", "accented letters and a dash"}

func c13PairAtoms(t *testing.T) []c13Atom {
	var out []c13Atom
	for _, l := range c13PairLabels {
		found := false
		for _, a := range c13Atoms {
			if a.label == l {
				out, found = append(out, a), true
			}
		}
		if !found {
			t.Errorf("C13 harness: no atom is labelled %q", l)
		}
	}
	return out
}

const c13Prefixes = "prefixes:\n  ex: http://example.org/\n  ex2: http://example.org/\n" // two prefixes of one namespace

// values of every node's properties (namespace http://example.org/), as the placeholders must show them; k is the node's label
var c13Values = map[string]string{
	"a":   "alpha",
	"b":   `b"q' %d {{ex.a}} \n \`,
	"n":   "42",   // the number 42
	"t":   "true", // the boolean true
	"a-b": "dash",
	"a_b": "underscore",
}

func c13Q(s string) string { // YAML double-quoted style accepts JSON strings
	var b bytes.Buffer
	enc := json.NewEncoder(&b)
	enc.SetEscapeHTML(false)
	_ = enc.Encode(s)
	return strings.TrimSuffix(b.String(), "\n")
}

func c13Show(s string) string {
	if utf8.RuneCountInString(s) > 90 {
		r := []rune(s)
		return fmt.Sprintf("%q...(%d characters)", string(r[:60]), len(r))
	}
	return fmt.Sprintf("%q", s)
}

func c13Some(xs []string) string {
	if len(xs) > 4 {
		return strings.Join(xs[:4], ", ") + fmt.Sprintf(" and %d more", len(xs)-4)
	}
	return strings.Join(xs, ", ")
}

type c13Validation struct{ name, message, constraint string } // constraint: lines under the property ex.v, indented by 8

func c13Profile(profileName string, vs []c13Validation) string {
	p := "#%Validation Profile 1.0\nprofile: " + c13Q(profileName) + "\n" + c13Prefixes + "violation:\n"
	for _, v := range vs {
		p += "  - " + c13Q(v.name) + "\n"
	}
	p += "validations:\n"
	for _, v := range vs {
		p += "  " + c13Q(v.name) + ":\n    targetClass: ex.T\n    message: " + c13Q(v.message) + "\n    propertyConstraints:\n      ex.v:\n" + v.constraint
	}
	return p
}

const c13Fails = "        minCount: 5\n" // no node has five values: every node of class T is reported

// c13Graph has one node of class T per value: ex:v is the value, ex:k the node's label, the other properties as in c13Values
func c13Graph(values []string) string {
	var nodes []string
	for i, v := range values {
		nodes = append(nodes, fmt.Sprintf(`{"@id":"http://example.org/n%02d","@type":"http://example.org/T","http://example.org/v":%s,"http://example.org/k":"k%02d","http://example.org/a":%s,"http://example.org/b":%s,"http://example.org/n":42,"http://example.org/t":true,"http://example.org/a-b":"dash","http://example.org/a_b":"underscore"}`,
			i, c13Q(v), i, c13Q(c13Values["a"]), c13Q(c13Values["b"])))
	}
	return `{"@graph":[` + strings.Join(nodes, ",\n") + `]}`
}

var c13OneNode = c13Graph([]string{"some value"})

var c13Placeholder = regexp.MustCompile(`\{\{[ \t]*([A-Za-z0-9_-]+\.[A-Za-z0-9_-]+)[ \t]*\}\}`)

// c13Expected is the message as the property wants it reported for the node labelled k
func c13Expected(message, k string) string {
	var out strings.Builder
	last := 0
	for _, m := range c13Placeholder.FindAllStringSubmatchIndex(message, -1) {
		out.WriteString(strings.ReplaceAll(message[last:m[0]], `"`, `'`))
		prefix, property, _ := strings.Cut(message[m[2]:m[3]], ".")
		switch v, ok := c13Values[property]; {
		case prefix != "ex" && prefix != "ex2": // no such namespace: the node has no such property
			out.WriteString("null")
		case property == "k":
			out.WriteString(k)
		case ok:
			out.WriteString(v)
		default:
			out.WriteString("null")
		}
		last = m[1]
	}
	out.WriteString(strings.ReplaceAll(message[last:], `"`, `'`))
	return out.String()
}

type c13Result struct{ name, focus, message string }

type c13Outcome struct {
	compileErr, runErr error
	profileName        any
	results            []c13Result
}

// c13Reason is the error on one line: the first policy error when there is one, cut to a readable length
func c13Reason(err error) string {
	s := strings.Join(strings.Fields(err.Error()), " ")
	if i := strings.Index(s, "rego_"); i >= 0 {
		s = s[i:]
	}
	if r := []rune(s); len(r) > 200 {
		s = string(r[:200]) + "..."
	}
	return s
}

// c13Differ shows two texts; long ones are shown around the first character in which they differ
func c13Differ(got, want string) string {
	g, w := []rune(got), []rune(want)
	if len(g) <= 90 && len(w) <= 90 {
		return fmt.Sprintf("is reported as %q, the property demands %q", got, want)
	}
	i := 0
	for i < len(g) && i < len(w) && g[i] == w[i] {
		i++
	}
	window := func(r []rune) string {
		from, to := i-25, i+35
		if from < 0 {
			from = 0
		}
		if to > len(r) {
			to = len(r)
		}
		return fmt.Sprintf("%q", string(r[from:to]))
	}
	return fmt.Sprintf("is reported with %d characters, the property demands %d; from character %d on the report has %s, the property demands %s", len(g), len(w), i, window(g), window(w))
}

func c13Execute(profile, data string) (o c13Outcome, harness string) {
	compiled, err := ProcessProfile(profile, false, nil)
	if err != nil {
		o.compileErr = err
		return o, ""
	}
	rep, err := ValidateCompiled(compiled, data, false, nil)
	if err != nil {
		o.runErr = err
		return o, ""
	}
	var doc []map[string]any
	if err := json.Unmarshal([]byte(rep), &doc); err != nil || len(doc) != 1 {
		return o, "the report is not a JSON list of one document"
	}
	enc, _ := doc[0]["doc:encodes"].([]any)
	if len(enc) != 1 {
		return o, "the report does not encode one validation report"
	}
	r, _ := enc[0].(map[string]any)
	o.profileName = r["profileName"]
	res, _ := r["result"].([]any)
	for _, x := range res {
		m, _ := x.(map[string]any)
		o.results = append(o.results, c13Result{fmt.Sprint(m["sourceShapeName"]), fmt.Sprint(m["focusNode"]), fmt.Sprint(m["resultMessage"])})
	}
	sort.Slice(o.results, func(i, j int) bool {
		if o.results[i].focus != o.results[j].focus {
			return o.results[i].focus < o.results[j].focus
		}
		return o.results[i].name < o.results[j].name
	})
	return o, ""
}

// c13Judge compiles and runs the profile and compares the report with what the property demands: the profile's name, and exactly
// one result per expected (validation name, node index) whose message is the validation's message rendered for that node.
// It returns false when the profile did not compile or could not be run.
func c13Judge(t *testing.T, scenario, profileName string, vs []c13Validation, data string, failing map[string][]int) bool {
	t.Helper()
	o, harness := c13Execute(c13Profile(profileName, vs), data)
	if harness != "" {
		t.Errorf("C13 harness: %s: %s", scenario, harness)
		return true
	}
	if o.compileErr != nil {
		inputs := ""
		if len(vs) == 1 {
			inputs = fmt.Sprintf(" (validation %s, message %s)", c13Show(vs[0].name), c13Show(vs[0].message))
		}
		t.Errorf("C13 violated: %s%s: the profile does not compile: %s", scenario, inputs, c13Reason(o.compileErr))
		return false
	}
	if o.runErr != nil {
		t.Errorf("C13 violated: %s: the profile compiles but cannot be run: %s", scenario, c13Reason(o.runErr))
		return false
	}
	if o.profileName != profileName {
		t.Errorf("C13 violated: %s: profileName is reported as %s, the profile is called %s", scenario, c13Show(fmt.Sprint(o.profileName)), c13Show(profileName))
	}
	type key struct{ name, focus string }
	got := map[key][]string{}
	for _, r := range o.results {
		got[key{r.name, r.focus}] = append(got[key{r.name, r.focus}], r.message)
	}
	for _, v := range vs {
		var missing, repeated []string
		mismatches, firstMismatch := 0, ""
		for _, n := range failing[v.name] {
			k := key{v.name, fmt.Sprintf("http://example.org/n%02d", n)}
			want := c13Expected(v.message, fmt.Sprintf("k%02d", n))
			msgs, ok := got[k]
			delete(got, k)
			switch {
			case !ok:
				missing = append(missing, fmt.Sprintf("n%02d", n))
			case len(msgs) != 1:
				repeated = append(repeated, fmt.Sprintf("n%02d", n))
			case msgs[0] != want:
				if mismatches++; mismatches == 1 {
					firstMismatch = c13Differ(msgs[0], want)
				}
			}
		}
		if len(missing) > 0 {
			t.Errorf("C13 violated: %s: validation %s with message %s: no result of that name for %d of the %d nodes the constraint selects (%s)", scenario, c13Show(v.name), c13Show(v.message), len(missing), len(failing[v.name]), c13Some(missing))
		}
		if len(repeated) > 0 {
			t.Errorf("C13 violated: %s: validation %s: several results of that name for the same node (%s)", scenario, c13Show(v.name), c13Some(repeated))
		}
		if mismatches > 0 {
			t.Errorf("C13 violated: %s: message %s %s (%d of %d results)", scenario, c13Show(v.message), firstMismatch, mismatches, len(failing[v.name]))
		}
	}
	var extra []string
	for k := range got {
		extra = append(extra, fmt.Sprintf("%s for %s", c13Show(k.name), strings.TrimPrefix(k.focus, "http://example.org/")))
	}
	sort.Strings(extra)
	if len(extra) > 0 {
		t.Errorf("C13 violated: %s: %d unexpected results (a validation name that is not in the profile, or a node the constraint does not select): %s", scenario, len(extra), c13Some(extra))
	}
	return true
}

func c13Names() []c13Atom {
	var out []c13Atom
	for _, a := range c13Atoms {
		if !a.textual {
			out = append(out, a)
		}
	}
	return out
}

func TestReplayC13AtomsAreDistinct(t *testing.T) {
	seen := map[string]string{}
	for _, a := range c13Atoms {
		if other, dup := seen[a.s]; dup {
			t.Errorf("C13 harness: atoms %q and %q are the same string", a.label, other)
		}
		seen[a.s] = a.label
		if !utf8.ValidString(a.s) {
			t.Errorf("C13 harness: atom %q is not valid UTF-8", a.label)
		}
	}
}

// 1. profile names
func TestReplayC13ProfileNames(t *testing.T) {
	for _, a := range c13Names() {
		c13Judge(t, fmt.Sprintf("profile name with %s, %s", a.label, c13Show(a.s)), a.s,
			[]c13Validation{{"v1", "msg", c13Fails}}, c13OneNode, map[string][]int{"v1": {0}})
	}
}

// 2. validation names
func TestReplayC13ValidationNames(t *testing.T) {
	var all []c13Validation
	failing := map[string][]int{}
	for _, a := range c13Names() {
		c13Judge(t, fmt.Sprintf("validation name with %s, %s", a.label, c13Show(a.s)), "P",
			[]c13Validation{{a.s, "msg", c13Fails}}, c13OneNode, map[string][]int{a.s: {0}})
		all = append(all, c13Validation{a.s, "message of " + a.label, c13Fails})
		failing[a.s] = []int{0}
	}
	c13Judge(t, fmt.Sprintf("all %d validation names of the table in one profile", len(all)), "P", all, c13OneNode, failing)
}

// 3. messages
func c13Templates(s string) []struct{ label, message string } {
	return []struct{ label, message string }{
		{"no placeholder", s},
		{"text, placeholder", s + " {{ex.a}}"},
		{"placeholder, text", "{{ex.a}} " + s},
		{"text between adjacent placeholders", "{{ex.a}}" + s + "{{ex.b}}"},
		{"three placeholders (one absent, one repeated with inner blanks)", s + " {{ex.a}} " + s + " {{ex.missing}} " + s + " {{ ex.a\t}}"},
		{"one placeholder three times", "{{ex.b}} {{ex.b}} " + s + " {{ex.b}}"},
		{"absent placeholder only", "{{ex.none}}" + s},
	}
}

func TestReplayC13Messages(t *testing.T) {
	for _, a := range c13Atoms {
		var vs []c13Validation
		failing := map[string][]int{}
		for _, tpl := range c13Templates(a.s) {
			vs = append(vs, c13Validation{tpl.label, tpl.message, c13Fails})
			failing[tpl.label] = []int{0}
		}
		if !c13Judge(t, fmt.Sprintf("%d messages with %s", len(vs), a.label), "P", vs, c13OneNode, failing) {
			for _, v := range vs { // name the message at fault
				c13Judge(t, fmt.Sprintf("message with %s (%s) alone", a.label, v.name), "P", []c13Validation{v}, c13OneNode, map[string][]int{v.name: {0}})
			}
		}
	}
}

// 4. message pairs
func TestReplayC13MessagePairs(t *testing.T) {
	atoms := c13PairAtoms(t)
	for _, withPlaceholder := range []bool{false, true} {
		for i, first := range atoms {
			var vs []c13Validation
			failing := map[string][]int{}
			for j, second := range atoms {
				m := first.s + " " + second.s
				if withPlaceholder {
					m += " {{ex.a}}"
				}
				name := fmt.Sprintf("v%02d-%02d", i, j)
				vs = append(vs, c13Validation{name, m, c13Fails})
				failing[name] = []int{0}
			}
			scenario := fmt.Sprintf("%d messages that join %s with every short atom (placeholder at the end: %v)", len(vs), first.label, withPlaceholder)
			if !c13Judge(t, scenario, "P", vs, c13OneNode, failing) {
				for _, v := range vs { // name the message at fault
					c13Judge(t, "one of these messages alone", "P", []c13Validation{v}, c13OneNode, map[string][]int{v.name: {0}})
				}
			}
		}
	}
}

// 5. placeholder forms
func TestReplayC13PlaceholderForms(t *testing.T) {
	for _, a := range c13PairAtoms(t) {
		m := a.s + " {{ex.n}} {{ex.a}}{{ex2.a}} {{zz.a}} {{ex.a-b}} {{  ex.a_b }} {{ex.t}} {{ex.n}} " + a.s
		c13Judge(t, fmt.Sprintf("message with %s around eight placeholders (number, second prefix, undeclared prefix, dash, underscore, boolean)", a.label), "P",
			[]c13Validation{{"v1", m, c13Fails}}, c13OneNode, map[string][]int{"v1": {0}})
	}
}

// 6. blank messages
func TestReplayC13BlankMessages(t *testing.T) {
	for _, m := range []string{"", " ", "   ", "\t", "\n", "\u00a0"} {
		c13Judge(t, "message "+c13Show(m), "P", []c13Validation{{"v1", m, c13Fails}}, c13OneNode, map[string][]int{"v1": {0}})
	}
}

// 7. listed values
func c13AtomValues() []string {
	var out []string
	for _, a := range c13Atoms {
		out = append(out, a.s)
	}
	return out
}

func c13AllBut(n int, listed ...int) []int {
	var out []int
	for i := 0; i < n; i++ {
		in := false
		for _, l := range listed {
			in = in || l == i
		}
		if !in {
			out = append(out, i)
		}
	}
	return out
}

func TestReplayC13ListedValues(t *testing.T) {
	values := c13AtomValues()
	data := c13Graph(values)
	n := len(values)
	for k, a := range c13Atoms {
		var vs []c13Validation
		var shown []string
		failing := map[string][]int{}
		for _, constraint := range []string{"in", "containsAll", "containsSome"} {
			listed := []int{k, (k + 1) % n, (k + 2) % n}
			if constraint == "containsAll" {
				listed = listed[:1] // a node has one value
			}
			var q []string
			for _, l := range listed {
				q = append(q, c13Q(values[l]))
			}
			if constraint == "in" {
				shown = nil
				for _, l := range listed {
					shown = append(shown, c13Show(values[l]))
				}
			}
			vs = append(vs, c13Validation{constraint, "value of {{ex.k}} is not listed by " + constraint, "        " + constraint + ": [" + strings.Join(q, ", ") + "]\n"})
			failing[constraint] = c13AllBut(n, listed...)
		}
		lists := fmt.Sprintf("[%s] (containsAll: the first only), the first being %s", strings.Join(shown, ", "), a.label)
		if !c13Judge(t, "in, containsAll and containsSome of "+lists, "P", vs, data, failing) {
			for _, v := range vs { // name the constraint at fault
				c13Judge(t, v.name+" alone of "+lists, "P", []c13Validation{v}, data, map[string][]int{v.name: failing[v.name]})
			}
		}
	}
}

// 8. pattern
func TestReplayC13Patterns(t *testing.T) {
	values := c13AtomValues()
	data := c13Graph(values)
	for k, a := range c13Atoms {
		body := "        pattern: " + c13Q("^"+regexp.QuoteMeta(a.s)+"$") + "\n"
		c13Judge(t, fmt.Sprintf("pattern that spells %s, %s", a.label, c13Show(a.s)), "P",
			[]c13Validation{{"v1", "{{ex.k}} does not match", body}}, data, map[string][]int{"v1": c13AllBut(len(values), k)})
	}
}

// 9. all positions at once
func TestReplayC13AllPositions(t *testing.T) {
	names := c13Names()
	n := len(names)
	var values []string
	for _, a := range names {
		values = append(values, a.s)
	}
	data := c13Graph(values)
	for i := range names {
		pn, vn, msg, val := names[i].s, names[(i+5)%n].s, names[(i+11)%n].s, (i+17)%n
		body := "        in: [" + c13Q(values[val]) + "]\n"
		c13Judge(t, fmt.Sprintf("profile %s, validation %s, message %s, listed value %s", c13Show(pn), c13Show(vn), c13Show(msg+" {{ex.k}} "+msg), c13Show(values[val])), pn,
			[]c13Validation{{vn, msg + " {{ex.k}} " + msg, body}}, data, map[string][]int{vn: c13AllBut(n, val)})
	}
}
