package validator

// Bounded witness search for property C07: a corpus of well-formed declarative profiles (no embedded Rego) generated from the
// documented profile language must compile. Dimensions: every constraint kind x every path shape; 1..30 quantified
// (nested / atLeast / atMost) constraints in one validation; nesting depth 1..6; 1..40 validations spread over the levels
// (also the same validation under two levels, a level whose only entry is shared with a more severe one, undefined names);
// logical connectives; value lists of 0, 1 and many entries; a property path written over several lines; profile names
// with non-ASCII letters, symbols and digits only. The one recorded finding (uniqueValues over a path with alternatives) is
// left out. Witness search only: a failure is a concrete well-formed profile the working tree does not compile.

import (
	"encoding/json"
	"fmt"
	"strings"
	"testing"
)

const c07Head = "#%Validation Profile 1.0\nprofile: NAME\nprefixes:\n  ex: http://example.org/vocab#\n  other-ns: http://example.org/other#\n"

func c07Compile(t *testing.T, what, profile string) {
	t.Helper()
	defer func() {
		if r := recover(); r != nil {
			t.Errorf("C07 violated: %s: the translator panics: %v", what, r)
		}
	}()
	if _, err := ProcessProfile(profile, false, nil); err != nil {
		msg := strings.Split(err.Error(), "\n")
		first := msg[0]
		if len(msg) > 1 {
			first += " " + strings.TrimSpace(msg[1])
		}
		t.Errorf("C07 violated: %s does not compile: %s", what, first)
	}
}

func c07Profile(name string, levels string, validations string) string {
	q, _ := json.Marshal(name) // a YAML double-quoted scalar: the name is a string whatever it looks like
	return strings.Replace(c07Head, "NAME", string(q), 1) + levels + "validations:\n" + validations
}

func c07Validation(name string, body string) string {
	return "  " + name + ":\n    targetClass: ex.Thing\n    message: " + name + " failed\n" + body
}

func c07Indent(s string, n int) string {
	pad := strings.Repeat(" ", n)
	var out []string
	for _, l := range strings.Split(strings.TrimRight(s, "\n"), "\n") {
		out = append(out, pad+l)
	}
	return strings.Join(out, "\n") + "\n"
}

var c07Paths = []struct{ label, yaml string }{
	{"p", "ex.p"}, {"p / q", "ex.p / ex.q"}, {"p | q", "ex.p | ex.q"}, {"p^", "ex.p^"}, {"(p | q) / r", "(ex.p | ex.q) / ex.r"},
	{"p / (q | r^)", "ex.p / (ex.q | ex.r^)"}, {"other-ns.p / q", "other-ns.p / ex.q"}, {"p / q / r / s", "ex.p / ex.q / ex.r / ex.s"},
	{"@type", "ex.p / @type"},
}

var c07Leaves = []struct{ label, yaml string }{
	{"minCount", "minCount: 1"}, {"maxCount", "maxCount: 3"}, {"exactCount", "exactCount: 2"}, {"pattern", "pattern: ^[a-z]+$"},
	{"in (many)", "in: [a, b, c]"}, {"in (one)", "in: [a]"}, {"in (none)", "in: []"}, {"in (numbers and booleans)", "in: [1, 2.5, true]"},
	{"containsAll", "containsAll: [a, b]"}, {"containsAll (none)", "containsAll: []"}, {"containsSome", "containsSome: [a, b]"}, {"containsSome (none)", "containsSome: []"},
	{"minInclusive", "minInclusive: 1"}, {"maxInclusive", "maxInclusive: 10"}, {"minExclusive", "minExclusive: 0.5"}, {"maxExclusive", "maxExclusive: 99"},
	{"minLength", "minLength: 1"}, {"maxLength", "maxLength: 20"}, {"datatype", "datatype: xsd.integer"},
	{"lessThanProperty", "lessThanProperty: ex.z"}, {"lessThanOrEqualsToProperty", "lessThanOrEqualsToProperty: ex.z"},
	{"equalsToProperty", "equalsToProperty: ex.z"}, {"disjointWithProperty", "disjointWithProperty: ex.z"},
	{"nested", "nested:\n  propertyConstraints:\n    ex.name:\n      minCount: 1"},
	{"atLeast", "atLeast:\n  count: 1\n  validation:\n    propertyConstraints:\n      ex.name:\n        minCount: 1"},
	{"atMost", "atMost:\n  count: 2\n  validation:\n    propertyConstraints:\n      ex.name:\n        pattern: x"},
	{"several leaves", "minCount: 1\nmaxCount: 4\npattern: a\nin: [a, b]"},
}

func TestReplayC07CompileCorpus(t *testing.T) {
	one := "violation:\n  - v1\n"
	// 1. every constraint kind on every path shape
	for _, p := range c07Paths {
		for _, l := range c07Leaves {
			body := "    propertyConstraints:\n      " + p.yaml + ":\n" + c07Indent(l.yaml, 8)
			c07Compile(t, fmt.Sprintf("constraint %s on the path %s", l.label, p.label), c07Profile("Corpus", one, c07Validation("v1", body)))
		}
	}
	// every constraint kind in negated position: under not, as the if of a conditional, under not inside or, under not inside nested
	for _, l := range c07Leaves {
		leafBody := "propertyConstraints:\n  ex.p:\n" + c07Indent(l.yaml, 4)
		for pos, body := range map[string]string{
			"under not":               "    not:\n" + c07Indent(leafBody, 6),
			"as the if of a conditional": "    if:\n" + c07Indent(leafBody, 6) + "    then:\n      propertyConstraints:\n        ex.q:\n          minCount: 1\n",
			"under not inside or":     "    or:\n      - not:\n" + c07Indent(leafBody, 10) + "      - propertyConstraints:\n          ex.q:\n            minCount: 1\n",
			"under not inside nested": "    propertyConstraints:\n      ex.child:\n        nested:\n          not:\n" + c07Indent(leafBody, 12),
			"on an inverse path under not": "    not:\n      propertyConstraints:\n        ex.p^:\n" + c07Indent(l.yaml, 10),
		} {
			c07Compile(t, fmt.Sprintf("constraint %s %s", l.label, pos), c07Profile("Corpus", one, c07Validation("v1", body)))
		}
	}
	// the comparisons the parser knows beyond the documented four
	for _, k := range []string{"moreThanProperty", "moreThanOrEqualsToProperty"} {
		c07Compile(t, "constraint "+k, c07Profile("Corpus", one, c07Validation("v1", "    propertyConstraints:\n      ex.p:\n        "+k+": ex.z\n")))
		c07Compile(t, "constraint "+k+" under not", c07Profile("Corpus", one, c07Validation("v1", "    not:\n      propertyConstraints:\n        ex.p:\n          "+k+": ex.z\n")))
	}
	// uniqueValues: single-alternative paths only (the recorded finding covers alternatives)
	for _, p := range c07Paths {
		if !strings.Contains(p.yaml, "|") {
			body := "    propertyConstraints:\n      " + p.yaml + ":\n        uniqueValues: true\n"
			c07Compile(t, "constraint uniqueValues on the path "+p.label, c07Profile("Corpus", one, c07Validation("v1", body)))
		}
	}
	// a property path written over several lines
	c07Compile(t, "a property path written over two lines", c07Profile("Corpus", one, c07Validation("v1", "    propertyConstraints:\n      ? |\n        ex.p /\n        ex.q\n      :\n        minCount: 1\n      ex.c:\n        lessThanProperty: |\n          ex.b /\n          ex.c\n")))
	// 2. 1..30 quantified constraints in one validation, three kinds
	for _, kind := range []string{"nested", "atLeast", "atMost"} {
		for n := 1; n <= 30; n++ {
			var b strings.Builder
			b.WriteString("    propertyConstraints:\n")
			for i := 0; i < n; i++ {
				switch kind {
				case "nested":
					fmt.Fprintf(&b, "      ex.p%d:\n        nested:\n          propertyConstraints:\n            ex.name:\n              minCount: 1\n", i)
				default:
					fmt.Fprintf(&b, "      ex.p%d:\n        %s:\n          count: 1\n          validation:\n            propertyConstraints:\n              ex.name:\n                minCount: 1\n", i, kind)
				}
			}
			c07Compile(t, fmt.Sprintf("%d %s constraints in one validation", n, kind), c07Profile("Corpus", one, c07Validation("v1", b.String())))
		}
	}
	// 3. nesting depth 1..6 (nested inside nested, atLeast inside nested alternating), also with siblings at every level
	for depth := 1; depth <= 6; depth++ {
		for _, siblings := range []int{0, 2} {
			inner := "propertyConstraints:\n  ex.name:\n    minCount: 1\n"
			for d := depth; d >= 1; d-- {
				var b strings.Builder
				b.WriteString("propertyConstraints:\n")
				for s := 0; s < siblings; s++ {
					fmt.Fprintf(&b, "  ex.sibling%d_%d:\n    nested:\n      propertyConstraints:\n        ex.name:\n          minCount: 1\n", d, s)
				}
				if d%2 == 0 {
					fmt.Fprintf(&b, "  ex.level%d:\n    atLeast:\n      count: 1\n      validation:\n%s", d, c07Indent(inner, 8))
				} else {
					fmt.Fprintf(&b, "  ex.level%d:\n    nested:\n%s", d, c07Indent(inner, 6))
				}
				inner = b.String()
			}
			c07Compile(t, fmt.Sprintf("nesting depth %d with %d siblings per level", depth, siblings), c07Profile("Corpus", one, c07Validation("v1", c07Indent(inner, 4))))
		}
	}
	// 4. connectives
	leaf := func(p string) string { return "propertyConstraints:\n  ex." + p + ":\n    minCount: 1\n" }
	conn := map[string]string{
		"not":                "    not:\n" + c07Indent(leaf("a"), 6),
		"and of three":       "    and:\n      - " + strings.TrimLeft(c07Indent(leaf("a"), 8), " ") + "      - " + strings.TrimLeft(c07Indent(leaf("b"), 8), " ") + "      - " + strings.TrimLeft(c07Indent(leaf("c"), 8), " "),
		"or of four":         "    or:\n      - " + strings.TrimLeft(c07Indent(leaf("a"), 8), " ") + "      - " + strings.TrimLeft(c07Indent(leaf("b"), 8), " ") + "      - " + strings.TrimLeft(c07Indent(leaf("c"), 8), " ") + "      - " + strings.TrimLeft(c07Indent(leaf("d"), 8), " "),
		"if then":            "    if:\n" + c07Indent(leaf("a"), 6) + "    then:\n" + c07Indent(leaf("b"), 6),
		"if then else":       "    if:\n" + c07Indent(leaf("a"), 6) + "    then:\n" + c07Indent(leaf("b"), 6) + "    else:\n" + c07Indent(leaf("c"), 6),
		"not of or of and":   "    not:\n      or:\n        - and:\n            - " + strings.TrimLeft(c07Indent(leaf("a"), 14), " ") + "            - " + strings.TrimLeft(c07Indent(leaf("b"), 14), " ") + "        - " + strings.TrimLeft(c07Indent(leaf("c"), 10), " "),
		"or with nested":     "    or:\n      - propertyConstraints:\n          ex.a:\n            nested:\n              propertyConstraints:\n                ex.name:\n                  minCount: 1\n      - " + strings.TrimLeft(c07Indent(leaf("b"), 8), " "),
		"and next to leaves": "    propertyConstraints:\n      ex.z:\n        minCount: 1\n    and:\n      - " + strings.TrimLeft(c07Indent(leaf("a"), 8), " ") + "      - " + strings.TrimLeft(c07Indent(leaf("b"), 8), " "),
	}
	for label, body := range conn {
		c07Compile(t, "connective "+label, c07Profile("Corpus", one, c07Validation("v1", body)))
	}
	// 5. validations and levels
	many := func(n int) (names []string, defs string) {
		for i := 0; i < n; i++ {
			nm := fmt.Sprintf("validation-%d", i)
			names = append(names, nm)
			defs += c07Validation(nm, "    propertyConstraints:\n      ex.p"+fmt.Sprint(i)+":\n        minCount: 1\n")
		}
		return
	}
	list := func(level string, names []string) string {
		if len(names) == 0 {
			return ""
		}
		return level + ":\n  - " + strings.Join(names, "\n  - ") + "\n"
	}
	for _, n := range []int{1, 2, 3, 10, 40} {
		names, defs := many(n)
		c07Compile(t, fmt.Sprintf("%d validations, all violations", n), c07Profile("Corpus", list("violation", names), defs))
		c07Compile(t, fmt.Sprintf("%d validations, all infos", n), c07Profile("Corpus", list("info", names), defs))
		c07Compile(t, fmt.Sprintf("%d validations spread over the three levels", n), c07Profile("Corpus", list("violation", names[:n/3])+list("warning", names[n/3:2*n/3])+list("info", names[2*n/3:]), defs))
	}
	names, defs := many(3)
	c07Compile(t, "a validation listed under violation and warning, warning has another entry", c07Profile("Corpus", list("violation", names[:2])+list("warning", []string{names[0], names[2]}), defs))
	c07Compile(t, "a validation listed under violation and warning, the only warning", c07Profile("Corpus", list("violation", names[:2])+list("warning", names[:1]), defs))
	c07Compile(t, "a validation listed under all three levels, the only entry of each", c07Profile("Corpus", list("violation", names[:1])+list("warning", names[:1])+list("info", names[:1]), defs))
	c07Compile(t, "a validation listed under warning and info only", c07Profile("Corpus", list("warning", names[:1])+list("info", names[:1]), defs))
	c07Compile(t, "a level listing a name that is not defined", c07Profile("Corpus", list("violation", []string{names[0], "retired"})+list("info", []string{"retired-too"}), defs))
	// 6. profile names
	for _, nm := range []string{"Corpus", "Política de APIs", "プロファイル", "Правила API v2", "★ ☂ → ✓", "2024", "my-profile.v1 (draft)", "a_b", "UPPER lower", "'quoted name'"} {
		c07Compile(t, fmt.Sprintf("profile name %q", nm), c07Profile(nm, one, c07Validation("v1", "    propertyConstraints:\n      ex.p:\n        minCount: 1\n")))
	}
	// validation names
	for _, nm := range []string{"with-hyphen", "with_underscore", "CamelCase", "v2", "ünïcode", "dotted.name"} {
		c07Compile(t, fmt.Sprintf("validation name %q", nm), c07Profile("Corpus", "violation:\n  - "+nm+"\n", c07Validation(nm, "    propertyConstraints:\n      ex.p:\n        minCount: 1\n")))
	}
}
