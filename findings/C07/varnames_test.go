package validator

// Witnesses for property C07: names invented by the translator must never break compilation or capture each other.

import (
	"fmt"
	"strings"
	"testing"
)

func c07Wide(n int) string {
	var b strings.Builder
	b.WriteString("#%Validation Profile 1.0\nprofile: Wide\nviolation:\n  - v1\nvalidations:\n  v1:\n    targetClass: apiContract.WebAPI\n    message: m\n    propertyConstraints:\n")
	for i := 0; i < n; i++ {
		fmt.Fprintf(&b, "      apiContract.p%d:\n        nested:\n          propertyConstraints:\n            core.name:\n              minCount: 1\n", i)
	}
	return b.String()
}

func TestReplayC07PluralKeyword(t *testing.T) {
	for _, n := range []int{10, 11, 12, 13} {
		if _, err := ProcessProfile(c07Wide(n), false, nil); err != nil {
			t.Errorf("C07 violated: %d nested constraints in one validation do not compile: %v", n, strings.Split(err.Error(), "\n")[0])
		}
	}
}

// the 25th variable is called n, the name the nested-result template binds inside its comprehensions
func TestReplayC07TemplateLocalCapture(t *testing.T) {
	data := `{"@context":{"@vocab":"http://a.ml/vocabularies/apiContract#","core":"http://a.ml/vocabularies/core#"},
"@id":"http://x/api","@type":"WebAPI","p23":{"@id":"http://x/child","core:other":"1"}}`
	for n := 20; n <= 27; n++ {
		data := strings.ReplaceAll(data, "p23", fmt.Sprintf("p%d", n-1))
		rep, err := Validate(c07Wide(n), data, false, nil)
		if err != nil {
			t.Logf("%d nested constraints: does not compile (%v)", n, strings.Split(err.Error(), "\n")[0])
			continue
		}
		// the child under p23 lacks core:name, so the nested constraint on p23 must report the WebAPI node
		if !strings.Contains(rep, `"conforms": false`) {
			t.Errorf("C07/C01 violated: with %d nested constraints the failing child under p%d is not reported", n, n-1)
		}
	}
}

// a nested constraint whose own node variable is n and which has a nested child: the template local n of the
// parent's comprehension would be unified with the bound node variable
func c07Deep(k int) string {
	var b strings.Builder
	b.WriteString("#%Validation Profile 1.0\nprofile: Deep\nviolation:\n  - v1\nvalidations:\n  v1:\n    targetClass: apiContract.WebAPI\n    message: m\n    propertyConstraints:\n")
	for i := 0; i < k; i++ {
		fmt.Fprintf(&b, "      apiContract.p%d:\n        nested:\n          propertyConstraints:\n            core.name:\n              minCount: 1\n", i)
	}
	b.WriteString("      apiContract.last:\n        nested:\n          propertyConstraints:\n            apiContract.inner:\n              nested:\n                propertyConstraints:\n                  core.name:\n                    minCount: 1\n")
	return b.String()
}

func TestReplayC07TemplateLocalCaptureDeep(t *testing.T) {
	data := `{"@context":{"@vocab":"http://a.ml/vocabularies/apiContract#","core":"http://a.ml/vocabularies/core#"},
"@id":"http://x/api","@type":"WebAPI","last":{"@id":"http://x/child","inner":{"@id":"http://x/grandchild","core:other":"1"}}}`
	for k := 15; k <= 26; k++ {
		rep, err := Validate(c07Deep(k), data, false, nil)
		if err != nil {
			t.Errorf("C07 violated: %d siblings + nested/nested does not compile: %v", k, strings.Split(err.Error(), "\n")[0])
			continue
		}
		if !strings.Contains(rep, `"conforms": false`) {
			t.Errorf("C07/C01 violated: with %d sibling nested constraints before it, the failing grandchild is not reported (generated variable captured)", k)
		}
	}
}

// uniqueValues over a path with two alternatives: the array aggregator emits "} {" inside an array comprehension
func TestKnownFindingC07UniqueValuesOverAlternatives(t *testing.T) {
	p := "#%Validation Profile 1.0\nprofile: U\nprefixes:\n  ex: http://example.org/\nviolation:\n  - v1\nvalidations:\n  v1:\n    targetClass: ex.T\n    message: m\n    propertyConstraints:\n      ex.a | ex.b:\n        uniqueValues: true\n"
	if _, err := ProcessProfile(p, false, nil); err != nil {
		t.Errorf("C07 violated: uniqueValues on the path ex.a | ex.b does not compile: %v", strings.Split(err.Error(), "\n")[0])
	}
}
