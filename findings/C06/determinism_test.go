package validator

// Bounded witness search for property C06: validating the same profile text against the same data text with the same report
// configuration and the same (fixed) clock must always yield a byte-identical report - across repeated calls, calls interleaved
// with other (profile, data) pairs, calls made from several goroutines at once and calls made in a fresh process - and
// generating Rego for the same profile in a fresh process must always yield byte-identical code. A pair for which no report is
// produced (the profile is rejected) must be without report in every run; the text of the error is not judged. Witness search only.
//
// Bound: 27 fixture pairs read from ../../test/data (integration, tck, production/owasp, semex) and 18 hand-written pairs that
// stress ordering (28 validations spread over the three levels; 7 nested / atLeast / atMost siblings in one propertyConstraints
// block, the first with 6 such siblings of its own, in block style, and 7 siblings written as one-line flow mappings; in /
// containsAll / containsSome lists of 30 values with repetitions and with values that yaml tags as numbers, booleans, dates,
// nulls, hexadecimal numbers; 8 declared prefixes, built-in prefixes relied upon, re-bound (twice, differently) and declared
// again, a prefix that is declared by one profile and missing in another; two source maps and two source information nodes
// for one element, elements listed by several additional locations; a graph with 150 failing nodes), all under the test clock
// and the default report configuration, plus 9 (pair, configuration) variants: 3 pairs under 3 further configurations (another
// lexical schema, no creation time, a clock outside UTC) = 54 scenarios over 43 distinct profiles. In one process every
// scenario is validated 7 times in sequence (TestReplayC06Repeated: passes over all scenarios in list order, in list order
// twice in a row, in reverse order, with stride 7, in reverse order from the middle twice in a row), 4 times by 4 goroutines
// that walk all scenarios at the same time in different orders, and once more while the fresh processes run; the 8 scenarios
// of the burst group (6 with a report, 2 rejected) are also validated by 6 goroutines released together on the same scenario
// and in 6 rounds of 3 goroutines on three scenarios with a report while 2 goroutines submit a rejected profile 100 times
// each. 226 fresh processes (the test binary re-executed with -test.run=^TestReplayC06Child$, at most 4 at a time): the Rego
// of each distinct profile is generated in 5 of them, as the first thing the process generates, and the report of each
// scenario is produced in one of them and compared with the report of the long-running process.

import (
	"encoding/json"
	"fmt"
	"os"
	"os/exec"
	"path/filepath"
	"strings"
	"sync"
	"testing"
	"time"

	c "github.com/aml-org/amf-custom-validator/pkg/config"
)

// ---------------------------------------------------------------------------------------------------------------- configurations

type c06Clock struct{ t time.Time }

func (x c06Clock) ReportCreationTime() time.Time { return x.t }

type c06Config struct {
	label string
	vc    c.ValidationConfiguration
	rc    c.ReportConfiguration
}

func c06Configs() []c06Config {
	def := c.DefaultReportConfiguration()
	return []c06Config{
		{"test clock, default report configuration", c.TestValidationConfiguration{}, def},
		{"test clock, default report schema with another lexical schema", c.TestValidationConfiguration{}, c.ReportConfiguration{IncludeReportCreationTime: true, ReportSchemaIri: def.ReportSchemaIri, LexicalSchemaIri: "file:///dialects/lexical-2.yaml"}},
		{"test clock, no creation time, http://a.ml schemas", c.TestValidationConfiguration{}, c.ReportConfiguration{IncludeReportCreationTime: false, ReportSchemaIri: "http://a.ml/report", LexicalSchemaIri: "http://a.ml/lexical"}},
		{"clock 2001-02-03T04:05:06+05:00, http://a.ml report schema with another lexical schema", c06Clock{time.Date(2001, 2, 3, 4, 5, 6, 0, time.FixedZone("UTC+5", 5*3600))}, c.ReportConfiguration{IncludeReportCreationTime: true, ReportSchemaIri: "http://a.ml/report", LexicalSchemaIri: "http://example.org/lexical-3"}},
	}
}

// ------------------------------------------------------------------------------------------------------------------- scenarios

type c06Scenario struct {
	name, profile, data string
	cfg                 int  // index into c06Configs()
	variant             bool // same profile as an earlier scenario: its code is not generated again
	burst               bool // member of the group that is validated from 6 goroutines at once
}

const c06Ex = "http://example.org/ns#"

func c06Head(name string, prefixes ...string) string {
	s := "#%Validation Profile 1.0\nprofile: " + name + "\n"
	if len(prefixes) > 0 {
		s += "prefixes:\n"
		for i := 0; i+1 < len(prefixes); i += 2 {
			s += "  " + prefixes[i] + ": " + prefixes[i+1] + "\n"
		}
	}
	return s
}

func c06Levels(levels map[string][]string) string {
	s := ""
	for _, l := range []string{"violation", "warning", "info"} {
		if len(levels[l]) > 0 {
			s += l + ":\n"
			for _, v := range levels[l] {
				s += "  - " + v + "\n"
			}
		}
	}
	return s
}

func c06Names(prefix string, from, to int) []string {
	var out []string
	for i := from; i < to; i++ {
		out = append(out, fmt.Sprintf("%s%d", prefix, i))
	}
	return out
}

// 28 validations over the three levels, two of them listed under two levels
func c06ProfileMany() string {
	bodies := []string{
		"ex.missing%d:\n        minCount: 1",
		"ex.a:\n        pattern: ^v[0-%d]$",
		"ex.a:\n        in: [v0, v1, v%d]",
		"ex.tags:\n        maxCount: %d",
		"ex.a:\n        minLength: %d",
		"ex.tags:\n        containsSome: [t0, t%d]",
		"ex.num:\n        minInclusive: %d",
	}
	levels := map[string][]string{}
	vals := "validations:\n"
	for i := 0; i < 28; i++ {
		name := fmt.Sprintf("v%02d", i)
		l := []string{"violation", "warning", "info"}[i%3]
		levels[l] = append(levels[l], name)
		vals += "  " + name + ":\n    targetClass: ex.T\n    message: validation " + name + " failed\n    propertyConstraints:\n      " + fmt.Sprintf(bodies[i%len(bodies)], i%5+1) + "\n"
	}
	levels["warning"] = append(levels["warning"], "v00")
	levels["info"] = append(levels["info"], "v01", "v00")
	return c06Head("Many validations", "ex", c06Ex) + c06Levels(levels) + vals
}

type c06PC struct {
	path, body, kind string // kind: "", nested, atLeast, atMost
	kids             []c06PC
}

func c06Block(pcs []c06PC, ind string) string {
	s := ""
	for _, pc := range pcs {
		s += ind + pc.path + ":\n"
		if pc.body != "" {
			s += ind + "  " + pc.body + "\n"
		}
		switch pc.kind {
		case "nested":
			s += ind + "  nested:\n" + ind + "    propertyConstraints:\n" + c06Block(pc.kids, ind+"      ")
		case "atLeast", "atMost":
			s += ind + "  " + pc.kind + ":\n" + ind + "    count: 1\n" + ind + "    validation:\n" + ind + "      propertyConstraints:\n" + c06Block(pc.kids, ind+"        ")
		}
	}
	return s
}

func c06Flow(pcs []c06PC) string {
	var parts []string
	for _, pc := range pcs {
		var in []string
		if pc.body != "" {
			in = append(in, pc.body)
		}
		switch pc.kind {
		case "nested":
			in = append(in, "nested: {propertyConstraints: "+c06Flow(pc.kids)+"}")
		case "atLeast", "atMost":
			in = append(in, pc.kind+": {count: 1, validation: {propertyConstraints: "+c06Flow(pc.kids)+"}}")
		}
		parts = append(parts, pc.path+": {"+strings.Join(in, ", ")+"}")
	}
	return "{" + strings.Join(parts, ", ") + "}"
}

// 7 quantified siblings (nested, atLeast, atMost) in one block; when deep, the first has 6 quantified siblings of its own
func c06Siblings(deep bool) []c06PC {
	grand := func(i int) []c06PC {
		out := []c06PC{{"ex.k", fmt.Sprintf("in: [k%d, k%d]", i%4, (i+1)%4), "", nil}}
		if i == 1 && deep {
			out = append(out,
				c06PC{"ex.g1", "", "nested", []c06PC{{"ex.k", "in: [k0, k1]", "", nil}}},
				c06PC{"ex.g2", "minCount: 1", "atLeast", []c06PC{{"ex.k", "in: [k1, k2]", "", nil}}},
				c06PC{"ex.g3", "", "nested", []c06PC{{"ex.k", "in: [k2, k3]", "", nil}}},
				c06PC{"ex.g4", "", "nested", []c06PC{{"ex.k", "minCount: 1", "", nil}}},
				c06PC{"ex.g5", "", "nested", []c06PC{{"ex.k", `pattern: "^k[01]$"`, "", nil}}},
				c06PC{"ex.g6", "", "atMost", []c06PC{{"ex.k", "in: [k3]", "", nil}}})
		}
		return out
	}
	var out []c06PC
	for i := 1; i <= 7; i++ {
		kind := "nested"
		if i == 3 {
			kind = "atLeast"
		} else if i == 6 {
			kind = "atMost"
		}
		out = append(out, c06PC{fmt.Sprintf("ex.c%d", i), "", kind, grand(i)})
	}
	return out
}

// block style: the 7 siblings, two levels; flow style: 7 siblings on one line, one level, and two branches of an or with 2 more each
func c06ProfileSiblings(flow bool) string {
	if !flow {
		return c06Head("Siblings block", "ex", c06Ex) + c06Levels(map[string][]string{"violation": {"sib"}}) +
			"validations:\n  sib:\n    targetClass: ex.T\n    message: siblings\n    propertyConstraints:\n" + c06Block(c06Siblings(true), "      ")
	}
	pcs := c06Siblings(false)
	return c06Head("Siblings flow", "ex", c06Ex) + c06Levels(map[string][]string{"violation": {"sib"}, "warning": {"sib-or"}}) +
		"validations:\n  sib:\n    targetClass: ex.T\n    message: siblings\n    propertyConstraints: " + c06Flow(pcs) + "\n" +
		"  sib-or:\n    targetClass: ex.T\n    message: siblings in branches\n    or:\n      - propertyConstraints: " + c06Flow(pcs[1:3]) + "\n      - propertyConstraints: " + c06Flow(pcs[4:6]) + "\n"
}

// value lists with 30 values and repetitions
func c06ProfileLists() string {
	vs := append(c06Names("v", 10, 40), "v13", "v17", "v13")
	ts := append(c06Names("t", 0, 30), "t0", "t5", "t29", "t0")
	return c06Head("Long lists", "ex", c06Ex) + c06Levels(map[string][]string{"violation": {"l-in", "l-all"}, "warning": {"l-some"}, "info": {"l-mix"}}) +
		"validations:\n" +
		"  l-in:\n    targetClass: ex.T\n    message: a not listed\n    propertyConstraints:\n      ex.a:\n        in: [" + strings.Join(vs, ", ") + "]\n" +
		"  l-all:\n    targetClass: ex.T\n    message: tags incomplete\n    propertyConstraints:\n      ex.tags:\n        containsAll: [" + strings.Join(ts[20:], ", ") + ", t1, t2, t1]\n" +
		"  l-some:\n    targetClass: ex.T\n    message: no listed tag\n    propertyConstraints:\n      ex.tags:\n        containsSome: [" + strings.Join(ts[8:], ", ") + "]\n" +
		"  l-mix:\n    targetClass: ex.T\n    message: mixed\n    propertyConstraints:\n      ex.tags:\n        containsAll: [t1, t1, t0, t2, t0, t1]\n        containsSome: [t9, t3, t9, t3]\n      ex.a:\n        in: [v1, v0, v1, v0, v2]\n"
}

// value lists whose members yaml does not tag as strings
func c06ProfileTyped(name, in, all string) string {
	return c06Head(name, "ex", c06Ex) + c06Levels(map[string][]string{"violation": {"t-in"}, "warning": {"t-all"}}) +
		"validations:\n" +
		"  t-in:\n    targetClass: ex.T\n    message: value not listed\n    propertyConstraints:\n      ex.a:\n        in: " + in + "\n" +
		"  t-all:\n    targetClass: ex.T\n    message: values missing\n    propertyConstraints:\n      ex.tags:\n        containsAll: " + all + "\n      ex.num:\n        in: " + in + "\n"
}

func c06ProfileLoc(name string, both bool) string {
	levels := map[string][]string{"violation": {"located"}}
	if both {
		levels["info"] = []string{"located-too"}
	}
	return c06Head(name, "ex", c06Ex) + c06Levels(levels) +
		"validations:\n  located:\n    targetClass: ex.T\n    message: every node fails\n    propertyConstraints:\n      ex.missing:\n        minCount: 1\n" +
		"  located-too:\n    targetClass: ex.T\n    message: every node fails again\n    propertyConstraints:\n      ex.a:\n        pattern: ^never$\n"
}

const c06Aml = "http://a.ml/vocabularies/"

// endpoints that must have a name: what an endpoint and a name are depends on the bindings of apiContract and core
func c06ProfileEndpoints(name string, prefixes ...string) string {
	return c06Head(name, prefixes...) + c06Levels(map[string][]string{"violation": {"named"}, "warning": {"typed"}}) +
		"validations:\n  named:\n    targetClass: apiContract.EndPoint\n    message: endpoints have names\n    propertyConstraints:\n      core.name:\n        minCount: 1\n      apiContract.path:\n        pattern: ^/\n" +
		"  typed:\n    targetClass: shapes.ScalarShape\n    message: scalars have data types\n    propertyConstraints:\n      shacl.datatype:\n        minCount: 1\n"
}

func c06ProfileZz(name string, prefixes ...string) string {
	return c06Head(name, prefixes...) + c06Levels(map[string][]string{"violation": {"zz-a"}}) +
		"validations:\n  zz-a:\n    targetClass: zz.T\n    message: zz nodes have a\n    propertyConstraints:\n      zz.a:\n        minCount: 1\n"
}

func c06ProfilePrefixes() string {
	var pf []string
	levels := map[string][]string{}
	vals := "validations:\n"
	for i := 1; i <= 8; i++ {
		p := fmt.Sprintf("p%d", i)
		pf = append(pf, p, fmt.Sprintf("http://example.org/p%d#", i))
		l := []string{"violation", "warning", "info"}[i%3]
		levels[l] = append(levels[l], "has-"+p)
		vals += "  has-" + p + ":\n    targetClass: " + p + ".T\n    message: " + p + " nodes have a\n    propertyConstraints:\n      " + p + ".a:\n        minCount: 1\n      p" + fmt.Sprint(i%8+1) + ".a:\n        maxCount: 0\n"
	}
	return c06Head("Eight prefixes", pf...) + c06Levels(levels) + vals
}

// n nodes of class <ns>T with scalar properties; lexical: 0 no source maps, 1 one source map per node and one source
// information node, 2 two source maps with different ranges per node, two source information nodes, three additional
// locations that overlap
func c06Flat(n int, ns string, lexical int) string {
	var out []string
	sm := c06Aml + "document-source-maps#"
	doc := c06Aml + "document#"
	for i := 0; i < n; i++ {
		id := fmt.Sprintf("http://example.org/data/n%03d", i)
		node := fmt.Sprintf(`{"@id": %q, "@type": [%q], %q: %d, %q: [%q, %q, %q]`, id, ns+"T", ns+"num", i, ns+"tags", fmt.Sprintf("t%d", i%3), fmt.Sprintf("t%d", (i+1)%4), fmt.Sprintf("t%d", i%30))
		if i%5 != 0 {
			node += fmt.Sprintf(`, %q: %q`, ns+"a", fmt.Sprintf("v%d", i%45))
		}
		out = append(out, node+"}")
		for k := 1; k <= lexical; k++ {
			out = append(out, fmt.Sprintf(`{"@id": "%s/sm%d", "@type": [%q], %q: [{"@id": "%s/sm%d/l"}]}`, id, k, sm+"SourceMap", sm+"lexical", id, k))
			out = append(out, fmt.Sprintf(`{"@id": "%s/sm%d/l", %q: %q, %q: "[(%d,%d)-(%d,%d)]"}`, id, k, sm+"element", id, sm+"value", i+1000*(k-1), k, i+1000*(k-1)+1, 10*k))
		}
	}
	refs := func(from, to, step int) string {
		var r []string
		for i := from; i < to && i < n; i += step {
			r = append(r, fmt.Sprintf(`{"@id": "http://example.org/data/n%03d"}`, i))
		}
		return strings.Join(r, ",")
	}
	if lexical >= 1 {
		out = append(out, fmt.Sprintf(`{"@id": "http://example.org/data/info-a", "@type": [%q], %q: "file:///api/root-a.raml", %q: [{"@id": "http://example.org/data/loc-0"}, {"@id": "http://example.org/data/loc-1"}, {"@id": "http://example.org/data/loc-2"}]}`, doc+"BaseUnitSourceInformation", doc+"rootLocation", doc+"additionalLocations"))
		out = append(out, fmt.Sprintf(`{"@id": "http://example.org/data/loc-0", "@type": [%q], %q: "file:///api/lib-0.raml", %q: [%s]}`, doc+"LocationInformation", doc+"location", doc+"elements", refs(0, n, 3)))
		out = append(out, fmt.Sprintf(`{"@id": "http://example.org/data/loc-1", "@type": [%q], %q: "file:///api/lib-1.raml", %q: [%s]}`, doc+"LocationInformation", doc+"location", doc+"elements", refs(1, n, 4)))
		out = append(out, fmt.Sprintf(`{"@id": "http://example.org/data/loc-2", "@type": [%q], %q: "file:///api/lib-2.raml", %q: [%s]}`, doc+"LocationInformation", doc+"location", doc+"elements", refs(0, n, 6)))
	}
	if lexical >= 2 {
		out = append(out, fmt.Sprintf(`{"@id": "http://example.org/data/info-b", "@type": [%q], %q: "file:///api/root-b.raml", %q: [{"@id": "http://example.org/data/loc-3"}]}`, doc+"BaseUnitSourceInformation", doc+"rootLocation", doc+"additionalLocations"))
		out = append(out, fmt.Sprintf(`{"@id": "http://example.org/data/loc-3", "@type": [%q], %q: "file:///api/lib-3.raml", %q: [%s]}`, doc+"LocationInformation", doc+"location", doc+"elements", refs(2, n, 2)))
	}
	return `{"@graph": [` + "\n" + strings.Join(out, ",\n") + "\n]}"
}

// n nodes of class ex:T, each with children c1..c7 (class ex:C) that have grandchildren g1..g6 (class ex:G)
func c06Tree(n int) string {
	var out []string
	for i := 0; i < n; i++ {
		id := fmt.Sprintf("http://example.org/data/r%02d", i)
		node := fmt.Sprintf(`{"@id": %q, "@type": [%q]`, id, c06Ex+"T")
		for j := 1; j <= 7; j++ {
			if (i+j)%6 == 0 {
				continue
			}
			var kids []string
			for m := 0; m <= (i+j)%2; m++ {
				cid := fmt.Sprintf("%s/c%d-%d", id, j, m)
				kids = append(kids, fmt.Sprintf(`{"@id": %q}`, cid))
				child := fmt.Sprintf(`{"@id": %q, "@type": [%q], %q: %q`, cid, c06Ex+"C", c06Ex+"k", fmt.Sprintf("k%d", (i+j+m)%4))
				for g := 1; g <= 6; g++ {
					if (i+j+g+m)%3 == 0 {
						continue
					}
					gid := fmt.Sprintf("%s/g%d", cid, g)
					child += fmt.Sprintf(`, %q: [{"@id": %q}]`, fmt.Sprintf("%sg%d", c06Ex, g), gid)
					gn := fmt.Sprintf(`{"@id": %q, "@type": [%q]`, gid, c06Ex+"G")
					if (i+g)%4 != 0 {
						gn += fmt.Sprintf(`, %q: %q`, c06Ex+"k", fmt.Sprintf("k%d", (i+j+g)%4))
					}
					out = append(out, gn+"}")
				}
				out = append(out, child+"}")
			}
			node += fmt.Sprintf(`, %q: [%s]`, fmt.Sprintf("%sc%d", c06Ex, j), strings.Join(kids, ","))
		}
		out = append(out, node+"}")
	}
	return `{"@graph": [` + "\n" + strings.Join(out, ",\n") + "\n]}"
}

// endpoints, scalar shapes and T nodes in the a.ml vocabularies, in http://example.org/ns#, in http://example.org/zz# and in p1..p8
func c06Mixed() string {
	var out []string
	for i := 0; i < 4; i++ {
		for _, v := range []struct{ tag, ac, core, shapes string }{{"aml", c06Aml + "apiContract#", c06Aml + "core#", c06Aml + "shapes#"}, {"ex", c06Ex, c06Ex, c06Ex}, {"alt", "http://example.org/alt#", "http://example.org/alt#", "http://example.org/alt#"}} {
			e := fmt.Sprintf(`{"@id": "http://example.org/data/%s/endpoint%d", "@type": [%q], %q: %q`, v.tag, i, v.ac+"EndPoint", v.ac+"path", []string{"/a", "b", "/c", "d"}[(i+len(v.tag))%4])
			if (i+len(v.tag))%2 == 0 {
				e += fmt.Sprintf(`, %q: "endpoint %d"`, v.core+"name", i)
			}
			out = append(out, e+"}")
			s := fmt.Sprintf(`{"@id": "http://example.org/data/%s/scalar%d", "@type": [%q]`, v.tag, i, v.shapes+"ScalarShape")
			if (i+len(v.tag))%3 == 0 {
				s += `, "http://www.w3.org/ns/shacl#datatype": [{"@id": "http://www.w3.org/2001/XMLSchema#string"}]`
			}
			out = append(out, s+"}")
		}
		z := fmt.Sprintf(`{"@id": "http://example.org/data/zz/t%d", "@type": ["http://example.org/zz#T"]`, i)
		if i%2 == 1 {
			z += `, "http://example.org/zz#a": "x"`
		}
		out = append(out, z+"}")
	}
	for p := 1; p <= 8; p++ {
		for i := 0; i < 3; i++ {
			n := fmt.Sprintf(`{"@id": "http://example.org/data/p%d/t%d", "@type": ["http://example.org/p%d#T"]`, p, i, p)
			if i != 1 {
				n += fmt.Sprintf(`, "http://example.org/p%d#a": "x"`, p)
			}
			if i == 2 {
				n += fmt.Sprintf(`, "http://example.org/p%d#a": "y"`, p%8+1)
			}
			out = append(out, n+"}")
		}
	}
	return `{"@graph": [` + "\n" + strings.Join(out, ",\n") + "\n]}"
}

var c06Fixtures = [][2]string{
	{"integration/profile1/profile.yaml", "integration/profile1/negative.data.jsonld"},
	{"integration/profile1/profile.yaml", "integration/profile1/negative.data.lexical.jsonld"},
	{"integration/profile1/profile.yaml", "integration/profile1/positive.data.jsonld"},
	{"integration/profile2/profile.yaml", "integration/profile2/negative.data.jsonld"},
	{"integration/profile3/profile.yaml", "integration/profile3/negative.data.lexical.jsonld"},
	{"integration/profile4/profile.yaml", "integration/profile4/negative.data.jsonld"},
	{"integration/profile6/profile.yaml", "integration/profile6/negative.data.jsonld"},
	{"integration/profile7/profile.yaml", "integration/profile7/negative.data.jsonld"},
	{"integration/profile9/profile.yaml", "integration/profile9/negative.data.jsonld"},
	{"integration/profile10/profile.yaml", "integration/profile10/negative.data.jsonld"},
	{"integration/profile13/profile.yaml", "integration/profile13/negative.data.lexical.jsonld"},
	{"integration/profile16/profile.yaml", "integration/profile16/negative.data.jsonld"},
	{"integration/profile22/profile.yaml", "integration/profile22/negative.data.jsonld"},
	{"integration/profile24/profile.yaml", "integration/profile24/negative.data.jsonld"},
	{"integration/profile25/profile.yaml", "integration/profile25/negative.data.lexical.jsonld"},
	{"integration/profile29/profile.yaml", "integration/profile29/negative.data.jsonld"},
	{"tck/and/and-nested/profile.yaml", "tck/and/and-nested/data.jsonld"},
	{"tck/or/or-and/profile.yaml", "tck/or/or-and/data.jsonld"},
	{"tck/nested/nested-nested/profile.yaml", "tck/nested/nested-nested/data.jsonld"},
	{"tck/nested/nested-or/profile.yaml", "tck/nested/nested-or/data.jsonld"},
	{"tck/conditionals/if-then-else/profile.yaml", "tck/conditionals/if-then-else/data.jsonld"},
	{"tck/conditionals/if-nested-then-nested/profile.yaml", "tck/conditionals/if-nested-then-nested/data.jsonld"},
	{"tck/property/containsAll/profile.yaml", "tck/property/containsAll/data.jsonld"},
	{"tck/property/uniqueValues-object/profile.yaml", "tck/property/uniqueValues-object/data.jsonld"},
	{"tck/data-types/coercion/profile.yaml", "tck/data-types/coercion/data.jsonld"},
	{"production/owasp/profile.yaml", "production/owasp/negative1.yaml.jsonld"},
	{"semex/semantic-extension-pagination/profile.yaml", "semex/semantic-extension-pagination/api.oas30.yaml.jsonld"},
}

func c06Scenarios() ([]c06Scenario, error) {
	var out []c06Scenario
	seenProfile := map[string]bool{}
	add := func(name, profile, data string, cfg int, burst bool) {
		out = append(out, c06Scenario{name: name, profile: profile, data: data, cfg: cfg, variant: seenProfile[profile], burst: burst})
		seenProfile[profile] = true
	}
	flat, tree, mixed := c06Flat(6, c06Ex, 0), c06Tree(2), c06Mixed()
	// the pairs that rely on built-in prefixes come first, the pairs that re-bind them later
	add("endpoints, built-in prefixes", c06ProfileEndpoints("Endpoints built-in"), mixed, 0, false)
	add("zz nodes, prefix zz not declared", c06ProfileZz("Zz undeclared"), mixed, 0, true)
	for _, f := range c06Fixtures {
		p, err := os.ReadFile(filepath.Join("../../test/data", f[0]))
		if err != nil {
			return nil, err
		}
		d, err := os.ReadFile(filepath.Join("../../test/data", f[1]))
		if err != nil {
			return nil, err
		}
		add("fixture "+f[0]+" on "+filepath.Base(f[1]), string(p), string(d), 0, false)
	}
	add("28 validations over three levels", c06ProfileMany(), flat, 0, true)
	add("7 quantified siblings, block style", c06ProfileSiblings(false), tree, 0, true)
	add("7 quantified siblings, one-line flow mappings", c06ProfileSiblings(true), tree, 0, true)
	add("lists of 30 values with repetitions", c06ProfileLists(), c06Flat(32, c06Ex, 0), 0, true)
	add("lists with numbers, booleans and quoted dates", c06ProfileTyped("Typed values", `[1, 2, 3.5, true, false, "2020-01-01", "~", v1, 11, 1e3]`, `[t0, 7, true, "2021-06-30", 2.25]`), flat, 0, false)
	add("lists with unquoted dates", c06ProfileTyped("Dates", `[2020-01-01, v1, 2021-06-30, 2001-12-14t21:59:43.10-05:00]`, `[t0, 2020-01-01]`), flat, 0, true)
	add("lists with nulls", c06ProfileTyped("Nulls", `[v1, ~, null, v2]`, `[t0, ~]`), flat, 0, false)
	add("lists with hexadecimal and octal numbers", c06ProfileTyped("Radix", `[0x1F, 0o17, v1]`, `[t0, 0xff]`), flat, 0, false)
	add("endpoints, apiContract core shapes re-bound to http://example.org/ns#", c06ProfileEndpoints("Endpoints re-bound", "apiContract", c06Ex, "core", c06Ex, "shapes", c06Ex, "zz", "http://example.org/zz#"), mixed, 0, false)
	add("zz nodes, prefix zz declared", c06ProfileZz("Zz declared", "zz", "http://example.org/zz#", "core", "http://example.org/alt#"), mixed, 0, false)
	add("endpoints, apiContract core shapes re-bound to http://example.org/alt#, rdfs corrected", c06ProfileEndpoints("Endpoints alt", "shapes", "http://example.org/alt#", "core", "http://example.org/alt#", "apiContract", "http://example.org/alt#", "rdfs", "http://www.w3.org/2000/01/rdf-schema#"), mixed, 0, false)
	add("eight prefixes", c06ProfilePrefixes(), mixed, 0, true)
	add("endpoints, built-in prefixes declared again", c06ProfileEndpoints("Endpoints declared", "apiContract", c06Aml+"apiContract#", "core", c06Aml+"core#", "shapes", c06Aml+"shapes#"), mixed, 0, false)
	add("two source maps and two source information nodes per element", c06ProfileLoc("Located twice", true), c06Flat(12, c06Ex, 2), 0, true)
	add("one source map per element, overlapping additional locations", c06ProfileLoc("Located", true), c06Flat(12, c06Ex, 1), 0, false)
	add("150 failing nodes with source maps", c06ProfileLoc("Located large", false), c06Flat(150, c06Ex, 1), 0, false)
	// further configurations for three pairs: a failing one with locations, a failing fixture, a conforming fixture
	base := []c06Scenario{out[len(out)-3], out[3], out[4]}
	for cfg := 1; cfg <= 3; cfg++ {
		for _, b := range base {
			add(b.name+" ["+c06Configs()[cfg].label+"]", b.profile, b.data, cfg, false)
		}
	}
	return out, nil
}

// -------------------------------------------------------------------------------------------------------------------- outcomes

type c06Outcome struct {
	Ok   bool   // a report (a module) was produced
	Text string // the report (the code), or the first line of the error
}

func c06Validate(s c06Scenario) (o c06Outcome) {
	defer func() {
		if r := recover(); r != nil {
			o = c06Outcome{false, "panic: " + strings.Split(fmt.Sprint(r), "\n")[0]}
		}
	}()
	cfg := c06Configs()[s.cfg]
	rep, err := ValidateWithConfiguration(s.profile, s.data, false, nil, cfg.vc, cfg.rc)
	if err != nil {
		return c06Outcome{false, strings.Split(err.Error(), "\n")[0]}
	}
	return c06Outcome{true, rep}
}

func c06Generate(s c06Scenario) (o c06Outcome) {
	defer func() {
		if r := recover(); r != nil {
			o = c06Outcome{false, "panic: " + strings.Split(fmt.Sprint(r), "\n")[0]}
		}
	}()
	unit, err := GenerateRego(s.profile, false, nil)
	if err != nil {
		return c06Outcome{false, strings.Split(err.Error(), "\n")[0]}
	}
	return c06Outcome{true, unit.Code}
}

func c06Short(s string) string {
	if len(s) > 90 {
		s = s[:90] + "..."
	}
	return s
}

// c06Differ describes how b departs from a ("" when the property holds between them); what is "report" or "code"
func c06Differ(what string, a, b c06Outcome) string {
	switch {
	case a.Ok && !b.Ok:
		return fmt.Sprintf("no %s (%s) where the reference run produced one", what, c06Short(b.Text))
	case !a.Ok && b.Ok:
		return fmt.Sprintf("a %s of %d bytes where the reference run produced none (%s)", what, len(b.Text), c06Short(a.Text))
	case !a.Ok || a.Text == b.Text:
		return ""
	}
	i := 0
	for i < len(a.Text) && i < len(b.Text) && a.Text[i] == b.Text[i] {
		i++
	}
	ctx := func(s string) string {
		from, to := i-25, i+35
		if from < 0 {
			from = 0
		}
		if to > len(s) {
			to = len(s)
		}
		return fmt.Sprintf("%q", s[from:to])
	}
	return fmt.Sprintf("a %s of %d bytes that differs from the reference (%d bytes) at byte %d: %s instead of %s", what, len(b.Text), len(a.Text), i, ctx(b.Text), ctx(a.Text))
}

// ----------------------------------------------------------------------------------------------------------------------- tests

var (
	c06RefOnce sync.Once
	c06Refs    []c06Outcome
)

// c06Reference: the outcome of the first call of every scenario in this process (one pass in list order, made once)
func c06Reference(scs []c06Scenario) []c06Outcome {
	c06RefOnce.Do(func() {
		for _, s := range scs {
			c06Refs = append(c06Refs, c06Validate(s))
		}
	})
	return c06Refs
}

// repeated and interleaved calls in one goroutine: the first report of each scenario is the reference for the others
func TestReplayC06Repeated(t *testing.T) {
	scs, err := c06Scenarios()
	if err != nil {
		t.Errorf("C06 harness: cannot build the scenarios: %v", err)
		return
	}
	n := len(scs)
	ref := c06Reference(scs)
	reported := make([]bool, n)
	calls := make([]int, n)
	call := func(pass string, i int) {
		o := c06Validate(scs[i])
		calls[i]++
		if d := c06Differ("report", ref[i], o); d != "" && !reported[i] {
			reported[i] = true
			t.Errorf("C06 violated: %s: call %d (%s) yielded %s; the same inputs must yield a byte-identical report", scs[i].name, calls[i]+1, pass, d)
		}
	}
	stride := 7
	gcd := func(a, b int) int {
		for b != 0 {
			a, b = b, a%b
		}
		return a
	}
	for gcd(stride, n) != 1 {
		stride++
	}
	for i := 0; i < n; i++ {
		call("pass in list order, twice in a row", i)
		call("pass in list order, twice in a row", i)
	}
	for i := n - 1; i >= 0; i-- {
		call("pass in reverse order", i)
	}
	for i := 0; i < n; i++ {
		call("pass with stride", (i*stride)%n)
	}
	for i := n - 1; i >= 0; i-- {
		call("pass in reverse order from the middle, twice in a row", (i+n/2)%n)
		call("pass in reverse order from the middle, twice in a row", (i+n/2)%n)
	}
}

// c06Together releases one goroutine per scenario index at the same moment; goroutine g validates its scenario reps[g]
// times in a row (once when reps is nil); it returns the outcomes
func c06Together(scs []c06Scenario, idx []int, reps []int) [][]c06Outcome {
	out := make([][]c06Outcome, len(idx))
	start := make(chan struct{})
	var wg sync.WaitGroup
	for g := range idx {
		wg.Add(1)
		go func(g int) {
			defer wg.Done()
			n := 1
			if reps != nil {
				n = reps[g]
			}
			<-start
			for k := 0; k < n; k++ {
				out[g] = append(out[g], c06Validate(scs[idx[g]]))
			}
		}(g)
	}
	close(start)
	wg.Wait()
	return out
}

// calls from several goroutines at once; the reference of each scenario is a call made alone
func TestReplayC06Concurrent(t *testing.T) {
	scs, err := c06Scenarios()
	if err != nil {
		t.Errorf("C06 harness: cannot build the scenarios: %v", err)
		return
	}
	n := len(scs)
	ref := c06Reference(scs)
	reported := make([]bool, n)
	// 4 goroutines released together, each walking all scenarios in an order of its own
	type miss struct {
		g, i int
		d    string
	}
	var mu sync.Mutex
	var misses []miss
	start := make(chan struct{})
	var wg sync.WaitGroup
	for g := 0; g < 4; g++ {
		wg.Add(1)
		go func(g int) {
			defer wg.Done()
			<-start
			for k := 0; k < n; k++ {
				i := (g*n/4 + k) % n
				if g%2 == 1 {
					i = (g*n/4 + n - k) % n
				}
				if d := c06Differ("report", ref[i], c06Validate(scs[i])); d != "" {
					mu.Lock()
					misses = append(misses, miss{g, i, d})
					mu.Unlock()
				}
			}
		}(g)
	}
	close(start)
	wg.Wait()
	for _, m := range misses {
		if !reported[m.i] {
			reported[m.i] = true
			t.Errorf("C06 violated: %s: validated by goroutine %d of 4 that walk all scenarios at the same time, yielded %s; the same inputs must yield a byte-identical report at any degree of concurrency", scs[m.i].name, m.g+1, m.d)
		}
	}
	// 6 goroutines on the burst group: all on the same scenario; then 3 goroutines on three scenarios that yield a report
	// while 2 goroutines submit, 100 times in a row each, a profile that is rejected
	judge := func(pass string, idx []int, out [][]c06Outcome) {
		for g, i := range idx {
			for _, o := range out[g] {
				if d := c06Differ("report", ref[i], o); d != "" && !reported[i] {
					reported[i] = true
					var others []string
					for h, j := range idx {
						if h != g {
							others = append(others, fmt.Sprintf("%q", scs[j].name))
						}
					}
					t.Errorf("C06 violated: %s: validated %s, at the same time as %s, yielded %s; the same inputs must yield a byte-identical report at any degree of concurrency", scs[i].name, pass, c06Short(strings.Join(others, ", ")), d)
				}
			}
		}
	}
	var good, rejected []int
	for i, s := range scs {
		if s.burst && ref[i].Ok {
			good = append(good, i)
		} else if s.burst {
			rejected = append(rejected, i)
		}
	}
	if len(good) < 3 {
		t.Errorf("C06 harness: the burst group has %d scenarios with a report, at least 3 are needed", len(good))
		return
	}
	for _, i := range append(append([]int{}, good...), rejected...) {
		idx := []int{i, i, i, i, i, i}
		judge("from 6 goroutines at once", idx, c06Together(scs, idx, nil))
	}
	for s := range good {
		idx, reps := []int{good[s], good[(s+1)%len(good)], good[(s+2)%len(good)]}, []int{1, 1, 1}
		for k := 0; k < 2 && len(rejected) > 0; k++ {
			idx, reps = append(idx, rejected[(s+k)%len(rejected)]), append(reps, 100)
		}
		judge("in the burst group", idx, c06Together(scs, idx, reps))
	}
}

// TestReplayC06Child is the body of the fresh processes: it does nothing unless started by TestReplayC06FreshProcesses
func TestReplayC06Child(t *testing.T) {
	name, outPath := os.Getenv("C06_CHILD_SCENARIO"), os.Getenv("C06_CHILD_OUT")
	if name == "" || outPath == "" {
		return
	}
	scs, err := c06Scenarios()
	if err != nil {
		t.Fatalf("C06 harness: cannot build the scenarios: %v", err)
	}
	for _, s := range scs {
		if s.name != name {
			continue
		}
		res := map[string]c06Outcome{}
		if strings.Contains(os.Getenv("C06_CHILD_DO"), "generate") {
			res["code"] = c06Generate(s) // first thing this process generates, as `acv generate` would
		}
		if strings.Contains(os.Getenv("C06_CHILD_DO"), "validate") {
			res["report"] = c06Validate(s)
		}
		b, _ := json.Marshal(res)
		if err := os.WriteFile(outPath, b, 0o644); err != nil {
			t.Fatalf("C06 harness: %v", err)
		}
		return
	}
	t.Fatalf("C06 harness: no scenario %q", name)
}

// fresh processes: the code of every distinct profile from 5 processes, the report of every scenario from one process
// (compared with the report of this process, which has validated everything before)
func TestReplayC06FreshProcesses(t *testing.T) {
	scs, err := c06Scenarios()
	if err != nil {
		t.Errorf("C06 harness: cannot build the scenarios: %v", err)
		return
	}
	const runs = 5
	dir := t.TempDir()
	type job struct {
		sc, run int
		do      string
		res     map[string]c06Outcome
		err     string
	}
	var jobs []*job
	for i, s := range scs {
		if s.variant {
			jobs = append(jobs, &job{sc: i, run: 0, do: "validate"})
			continue
		}
		jobs = append(jobs, &job{sc: i, run: 0, do: "generate,validate"})
		for r := 1; r < runs; r++ {
			jobs = append(jobs, &job{sc: i, run: r, do: "generate"})
		}
	}
	runChild := func(k int, j *job) {
		out := filepath.Join(dir, fmt.Sprintf("child-%d.json", k))
		cmd := exec.Command(os.Args[0], "-test.run=^TestReplayC06Child$", "-test.count=1", "-test.timeout=60s")
		cmd.Env = append(os.Environ(), "C06_CHILD_SCENARIO="+scs[j.sc].name, "C06_CHILD_OUT="+out, "C06_CHILD_DO="+j.do)
		if msg, err := cmd.CombinedOutput(); err != nil {
			j.err = fmt.Sprintf("%v: %s", err, c06Short(string(msg)))
			return
		}
		b, err := os.ReadFile(out)
		if err != nil {
			j.err = err.Error()
			return
		}
		if err := json.Unmarshal(b, &j.res); err != nil {
			j.err = err.Error()
		}
	}
	queue := make(chan int, len(jobs))
	for k := range jobs {
		queue <- k
	}
	close(queue)
	var wg sync.WaitGroup
	for w := 0; w < 4; w++ { // at most 4 child processes at a time
		wg.Add(1)
		go func() {
			defer wg.Done()
			for k := range queue {
				runChild(k, jobs[k])
			}
		}()
	}
	// meanwhile this process, which has validated other pairs before, validates every scenario once more
	here := make([]c06Outcome, len(scs))
	for i, s := range scs {
		here[i] = c06Validate(s)
	}
	wg.Wait()
	code := map[int]*c06Outcome{}
	reported := map[int]bool{}
	modules, reports := 0, 0
	defer func() { t.Logf("%d fresh processes: %d modules and %d reports compared", len(jobs), modules, reports) }()
	for _, j := range jobs {
		s := scs[j.sc]
		if j.err != "" {
			t.Errorf("C06 harness: fresh process %d for %s: %s", j.run+1, s.name, j.err)
			continue
		}
		if o, ok := j.res["code"]; ok {
			modules++
			if code[j.sc] == nil {
				code[j.sc] = &o
			} else if d := c06Differ("module", *code[j.sc], o); d != "" && !reported[j.sc] {
				reported[j.sc] = true
				t.Errorf("C06 violated: %s: generating Rego in fresh process %d yielded %s (the one of fresh process 1); the same profile must yield byte-identical code", s.name, j.run+1, d)
			}
		}
		if o, ok := j.res["report"]; ok {
			reports++
			if d := c06Differ("report", o, here[j.sc]); d != "" {
				t.Errorf("C06 violated: %s: this process, which has validated other pairs before, yielded %s (the one of a fresh process); the same inputs must yield a byte-identical report", s.name, d)
			}
		}
	}
}
