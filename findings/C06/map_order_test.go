package validator

// Witness for property C06 / obligation det:maprange:yaml.Yaml.GetMapKeys@m :
// generating Rego for the same profile must give byte-identical code (here: repeatedly, resetting the name counter as a fresh process would).

import (
	"testing"

	"github.com/aml-org/amf-custom-validator/internal/parser/profile"
)

const orderProfile = `#%Validation Profile 1.0
profile: Order
violation:
  - v1
validations:
  v1:
    targetClass: apiContract.WebAPI
    message: m
    propertyConstraints:
      apiContract.endpoint:
        nested:
          propertyConstraints:
            apiContract.path:
              minCount: 1
      apiContract.server:
        nested:
          propertyConstraints:
            core.urlTemplate:
              minCount: 1
      core.documentation:
        nested:
          propertyConstraints:
            core.url:
              minCount: 1
`

func TestReplayC06MapOrder(t *testing.T) {
	seen := map[string]int{}
	for i := 0; i < 60; i++ {
		profile.GenReset()
		u, err := GenerateRego(orderProfile, false, nil)
		if err != nil {
			t.Fatal(err)
		}
		seen[u.Code]++
	}
	if len(seen) != 1 {
		t.Errorf("C06 violated: %d distinct generated modules for one profile in 60 runs", len(seen))
	}
}
