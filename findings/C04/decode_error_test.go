package validator

// Witness for property C04 / obligation post:validator.ProcessInput#decode:
// data that is not JSON must give an error, never a report.

import (
	"strings"
	"testing"
)

const replayProfile = `#%Validation Profile 1.0
profile: Test
violation:
  - v1
validations:
  v1:
    targetClass: apiContract.WebAPI
    message: m
    propertyConstraints:
      core.name:
        minCount: 1
`

func TestReplayC04Decode(t *testing.T) {
	for _, data := range []string{"{not json", "", "#%RAML 1.0\ntitle: x\n", "[1,2"} {
		func() {
			defer func() {
				if r := recover(); r != nil {
					t.Logf("data %q: panic %v (not an error value either, see C17)", data, r)
				}
			}()
			rep, err := Validate(replayProfile, data, false, nil)
			if err == nil {
				t.Errorf("C04 violated: data %q gave no error; report conforms=%v", data, strings.Contains(rep, `"conforms": true`))
			}
		}()
	}
}
