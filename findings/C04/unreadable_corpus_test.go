package validator

// Bounded witness suite for property C04 - unreadable data yields an error, never a verdict: when no complete JSON value can
// be read from the data text (oracle: an encoding/json Decoder of this file fails on it), or when JSON-LD processing rejects
// the decoded document (oracle: json-gold's Flatten with its default options returns an error or panics on it), every entry
// point that takes data text - Validate, ValidateWithConfiguration, ValidateCompiled, ValidateCompiledWithConfiguration,
// ProcessInput, and `acv validate` - must hand back an error (a non-zero exit status) and no report; in particular it must
// never say that the data conforms. Normalize, which has no error result, must not return a graph for a rejected document.
// A panic that escapes an entry point is not an error value and counts as a violation. Only that is judged: which error it
// is, and what happens to the event channel, is not.
//
// Bound (all deterministic; the oracles re-check every input and a listed input they accept is a harness error):
//   - TestReplayC04Sequences: 20 submission orders over {readable V W, undecodable U T, JSON-LD rejected R S} (unreadable first,
//     readable - unreadable - the same unreadable again, alternations), each with texts no earlier run has submitted, through
//     Validate, ValidateCompiled, ValidateCompiledWithConfiguration, ProcessInput and once rotating through all five entry
//     points, event channel on every other step: 100 runs, 405 calls. It runs first, so that its first run submits an
//     unreadable text before the process has seen any readable one.
//   - TestReplayC04Undecodable: 125 texts (empty/blank 5; every 9th proper prefix of one document and its shortest and
//     longest ones 65; malformed JSON/JSON5/JavaScript 29; leading noise before a complete document 7; byte order mark,
//     UTF-16, UTF-32, binary 8; RAML/OAS YAML/the profile itself/YAML flow and block forms/RDF-XML/Turtle/plain text, with and
//     without JSON-compatible flow collections inside 11) x 15 calls: Validate or ValidateWithConfiguration (alternating,
//     profile i%3), ValidateCompiled and ValidateCompiledWithConfiguration with each of 3 compiled profiles and ProcessInput,
//     the last seven with and without an event channel.
//   - TestReplayC04JsonLdRejected: 75 defective members (38 bad @context incl. 5 unloadable remote contexts - there is no
//     network; @id, @type, value/list/set objects, @reverse, @index, @included, @nest, scalar @graph, stray @language and
//     @direction) each placed in a top-level node, in a node next to valid nodes, and in a nested node, plus 12 whole
//     documents: 237 documents x the same calls (the profile-text entry point for one placement of each member and for the
//     whole documents), plus Normalize on each.
//   - TestReplayC04CLI: `acv validate` built from the tree under test, 16 data files (8 undecodable, 8 rejected) with the report
//     going to stdout, 6 of them also with an output file: exit status, stdout, output file. Skipped without a go tool.
// TestReplayC04TrailingText (not part of the passing suite) records 9 texts that are not JSON documents although a first
// complete value can be read from them (trailing garbage, two documents): the unchanged tree returns a verdict for them.

import (
	"bytes"
	"encoding/json"
	"fmt"
	"os"
	"os/exec"
	"path/filepath"
	"strings"
	"testing"
	"unicode/utf16"

	c "github.com/aml-org/amf-custom-validator/pkg/config"
	e "github.com/aml-org/amf-custom-validator/pkg/events"
	"github.com/open-policy-agent/opa/rego"
	"github.com/piprate/json-gold/ld"
)

var c04Profiles = []string{`#%Validation Profile 1.0
profile: C04 names
violation:
  - api-named
validations:
  api-named:
    message: APIs must have a name
    targetClass: apiContract.WebAPI
    propertyConstraints:
      core.name:
        minCount: 1
`, `#%Validation Profile 1.0
profile: C04 levels
prefixes:
  ex: http://example.org/
violation:
  - endpoint-path
warning:
  - api-described
info:
  - thing-labelled
validations:
  endpoint-path:
    message: Endpoints need a path starting with a slash
    targetClass: apiContract.EndPoint
    propertyConstraints:
      apiContract.path:
        minCount: 1
        pattern: "^/"
  api-described:
    message: APIs should be named or described
    targetClass: apiContract.WebAPI
    or:
      - propertyConstraints:
          core.name:
            minCount: 1
      - propertyConstraints:
          core.description:
            minCount: 1
  thing-labelled:
    message: Things carry at most one label
    targetClass: ex.Thing
    propertyConstraints:
      ex.label:
        maxCount: 1
`, `#%Validation Profile 1.0
profile: C04 nested
violation:
  - api-endpoints
validations:
  api-endpoints:
    message: Every endpoint of an API has a path
    targetClass: apiContract.WebAPI
    not:
      propertyConstraints:
        apiContract.endpoint:
          minCount: 1
          nested:
            propertyConstraints:
              apiContract.path:
                maxCount: 0
`}

const c04Api = `{"@id": "http://example.org/api", "@type": ["http://a.ml/vocabularies/apiContract#WebAPI"], "http://a.ml/vocabularies/core#name": "api", "http://a.ml/vocabularies/apiContract#endpoint": [{"@id": "http://example.org/ep"}]}`
const c04Ep = `{"@id": "http://example.org/ep", "@type": ["http://a.ml/vocabularies/apiContract#EndPoint"], "http://a.ml/vocabularies/apiContract#path": "/p"}`
const c04Good = `{"@graph": [` + c04Api + `, ` + c04Ep + `]}`

type c04Text struct{ label, text string }

// ---- oracles -------------------------------------------------------------------------------------------------------------

func c04Decode(text string) (any, error) {
	d := json.NewDecoder(bytes.NewBufferString(text))
	d.UseNumber()
	var v any
	err := d.Decode(&v)
	return v, err
}

// c04Rejected: does the reference JSON-LD processor (json-gold, default options) reject the decoded document?
func c04Rejected(doc any) (rejected bool, why string) {
	defer func() {
		if r := recover(); r != nil {
			rejected, why = true, c04Short(fmt.Sprintf("panic: %v", r), 70)
		}
	}()
	_, err := ld.NewJsonLdProcessor().Flatten(doc, map[string]any{}, ld.NewJsonLdOptions(""))
	if err != nil {
		return true, c04Short(err.Error(), 70)
	}
	return false, ""
}

func c04Short(s string, n int) string {
	s = strings.Split(s, "\n")[0]
	if len(s) > n {
		return s[:n] + "..."
	}
	return s
}

func c04Quote(s string) string {
	if len(s) > 90 {
		return fmt.Sprintf("%q...(%d bytes)", s[:90], len(s))
	}
	return fmt.Sprintf("%q", s)
}

// ---- entry points --------------------------------------------------------------------------------------------------------

type c04Entry struct {
	name string
	call func(text string, ch *chan e.Event, debug bool) (got string, err error) // got: "" when nothing came back
}

func c04Report(rep string) string {
	if rep == "" {
		return ""
	}
	switch {
	case strings.Contains(rep, `"conforms": true`):
		return "a report with conforms=true"
	case strings.Contains(rep, `"conforms": false`):
		return "a report with conforms=false"
	}
	return "a report text"
}

var c04Rc = c.ReportConfiguration{IncludeReportCreationTime: false, ReportSchemaIri: c.DefaultReportConfiguration().ReportSchemaIri, LexicalSchemaIri: c.DefaultReportConfiguration().LexicalSchemaIri}

func c04Compile(t *testing.T) []*rego.PreparedEvalQuery {
	var out []*rego.PreparedEvalQuery
	for i, p := range c04Profiles {
		q, err := ProcessProfile(p, false, nil)
		if err != nil || q == nil {
			t.Fatalf("C04 harness: profile %d does not compile: %v", i, err)
		}
		out = append(out, q)
	}
	return out
}

func c04EntryValidate(p int) c04Entry {
	return c04Entry{fmt.Sprintf("Validate[profile %d]", p), func(text string, ch *chan e.Event, debug bool) (string, error) {
		rep, err := Validate(c04Profiles[p], text, debug, ch)
		return c04Report(rep), err
	}}
}

func c04EntryValidateWC(p int) c04Entry {
	return c04Entry{fmt.Sprintf("ValidateWithConfiguration[profile %d]", p), func(text string, ch *chan e.Event, debug bool) (string, error) {
		rep, err := ValidateWithConfiguration(c04Profiles[p], text, debug, ch, c.TestValidationConfiguration{}, c04Rc)
		return c04Report(rep), err
	}}
}

func c04EntryCompiled(p int, q *rego.PreparedEvalQuery) c04Entry {
	return c04Entry{fmt.Sprintf("ValidateCompiled[profile %d]", p), func(text string, ch *chan e.Event, debug bool) (string, error) {
		rep, err := ValidateCompiled(q, text, debug, ch)
		return c04Report(rep), err
	}}
}

func c04EntryCompiledWC(p int, q *rego.PreparedEvalQuery) c04Entry {
	return c04Entry{fmt.Sprintf("ValidateCompiledWithConfiguration[profile %d]", p), func(text string, ch *chan e.Event, debug bool) (string, error) {
		rep, err := ValidateCompiledWithConfiguration(q, text, debug, ch, c.TestValidationConfiguration{}, c04Rc)
		return c04Report(rep), err
	}}
}

func c04EntryProcessInput() c04Entry {
	return c04Entry{"ProcessInput", func(text string, ch *chan e.Event, debug bool) (string, error) {
		res, err := ProcessInput(text, debug, ch)
		if res != nil {
			return "a normalized input", err
		}
		if err == nil {
			return "a nil input", nil
		}
		return "", err
	}}
}

// c04Invoke runs one entry point on one text; the result is "" when the caller got an error and nothing else, and otherwise
// says what it got instead.
func c04Invoke(ep c04Entry, text string, withChan bool) (verdict string) {
	defer func() {
		if r := recover(); r != nil {
			verdict = "panicked (" + c04Short(fmt.Sprint(r), 60) + ") instead of returning an error"
		}
	}()
	var ch *chan e.Event
	if withChan {
		cc := make(chan e.Event, 256) // large enough for every event of one validation: nobody has to read it
		ch = &cc
	}
	got, err := ep.call(text, ch, withChan)
	switch {
	case err == nil:
		return "returned " + got + " and no error"
	case got != "":
		return "returned " + got + " together with an error"
	}
	return ""
}

// c04Table submits one unreadable text through every entry point: one of the two that take the profile text (they compile
// the profile on every call, which dominates the running time: Validate for even i, ValidateWithConfiguration for odd i,
// profile i%3, event channel for i%4 >= 2), the two compiled ones with each of the three compiled profiles and ProcessInput,
// these with and without a channel: 15 calls (14 when withText is false). One line per text lists what violated.
func c04Table(t *testing.T, i int, in c04Text, why string, compiled []*rego.PreparedEvalQuery, withText bool) {
	var bad []string
	note := func(name string, withChan bool, v string) {
		if v != "" {
			if withChan {
				name += "+events"
			}
			bad = append(bad, name+" "+v)
		}
	}
	p := i % len(c04Profiles)
	ep := c04EntryValidate(p)
	if i%2 == 1 {
		ep = c04EntryValidateWC(p)
	}
	if withText {
		note(ep.name, i%4 >= 2, c04Invoke(ep, in.text, i%4 >= 2))
	}
	for _, withChan := range []bool{false, true} {
		for k, q := range compiled {
			ep = c04EntryCompiled(k, q)
			note(ep.name, withChan, c04Invoke(ep, in.text, withChan))
			ep = c04EntryCompiledWC(k, q)
			note(ep.name, withChan, c04Invoke(ep, in.text, withChan))
		}
		ep = c04EntryProcessInput()
		note(ep.name, withChan, c04Invoke(ep, in.text, withChan))
	}
	if len(bad) > 0 {
		more := ""
		if len(bad) > 3 {
			more = fmt.Sprintf(" (and %d more entry points alike)", len(bad)-3)
			bad = bad[:3]
		}
		t.Errorf("C04 violated: %s %s: %s%s; the data is unreadable (%s): an error and no report is demanded", in.label, c04Quote(in.text), strings.Join(bad, "; "), more, why)
	}
}

// ---- sequences -----------------------------------------------------------------------------------------------------------

// c04SeqText: the text a letter of a submission order stands for, made unique by tag so that no run of a sequence has seen
// the text before. V, W: readable (W violates profile 0); U, T: undecodable; R, S: JSON-LD rejected.
func c04SeqText(letter byte, tag string) string {
	id := `"@id": "http://example.org/` + tag + `"`
	switch letter {
	case 'V':
		return `{"@graph": [{` + id + `, "@type": ["http://a.ml/vocabularies/apiContract#WebAPI"], "http://a.ml/vocabularies/core#name": "api"}, ` + c04Ep + `]}`
	case 'W':
		return `{"@graph": [{` + id + `, "@type": ["http://a.ml/vocabularies/apiContract#WebAPI"]}, {"@id": "http://example.org/ep2", "@type": ["http://a.ml/vocabularies/apiContract#EndPoint"]}]}`
	case 'U':
		return `{"@graph": [{` + id + `, "@type": ["http://a.ml/vocabularies/apiContract#WebAPI"], "http://a.ml/vocabularies/core#name": `
	case 'T':
		return "#%RAML 1.0\ntitle: " + tag + "\nversion: v1\n/p:\n  get: {}\n"
	case 'R':
		return `{"@graph": [{` + id + `, "@type": ["http://a.ml/vocabularies/apiContract#WebAPI"], "http://example.org/link": {"@id": 5}}]}`
	case 'S':
		return `{"@context": "http://127.0.0.1:1/` + tag + `.jsonld", "@graph": [{` + id + `, "@type": ["http://a.ml/vocabularies/apiContract#WebAPI"]}]}`
	}
	return ""
}

func TestReplayC04Sequences(t *testing.T) {
	orders := []string{"UU", "RR", "TUTU", "SRSR", "VUU", "VRR", "VTTT", "VSSS", "WUU", "WRR", "VUVU", "VUWU", "VRWR", "VUTUT", "VRSRS", "VURUR",
		"UVU", "RVR", "VWUUWVU", "VUTRSUTRS"}
	compiled := c04Compile(t)
	entries := []c04Entry{c04EntryValidate(0), c04EntryValidateWC(0), c04EntryCompiled(0, compiled[0]), c04EntryCompiledWC(2, compiled[2]), c04EntryProcessInput()}
	// the oracles must agree with the reading of the letters
	for _, l := range []byte("VWUTRS") {
		doc, err := c04Decode(c04SeqText(l, "oracle"))
		rejected := false
		if err == nil {
			rejected, _ = c04Rejected(doc)
		}
		if (l == 'U' || l == 'T') != (err != nil) || (l == 'R' || l == 'S') != rejected {
			t.Fatalf("C04 harness: sequence text %c is not what its letter says (decode error %v, JSON-LD rejected %v)", l, err, rejected)
		}
	}
	calls, runs := 0, 0
	for oi, order := range orders {
		for mode := 0; mode <= len(entries); mode++ { // mode len(entries): rotate through the entry points
			if mode == 1 {
				continue // ValidateWithConfiguration compiles the profile on every call like Validate: it only takes part in the rotation
			}
			runs++
			via := "rotating entry points"
			if mode < len(entries) {
				via = entries[mode].name
			}
			tag := fmt.Sprintf("seq%d-%d", oi, mode)
			var bad []string
			var firstBad byte
			for step := 0; step < len(order); step++ {
				ep := entries[(mode+step)%len(entries)]
				if mode < len(entries) {
					ep = entries[mode]
				}
				l := order[step]
				v := c04Invoke(ep, c04SeqText(l, tag), step%2 == 1)
				calls++
				if l == 'V' || l == 'W' {
					if !strings.HasPrefix(v, "returned a report with conforms=") && v != "returned a normalized input and no error" {
						t.Errorf("C04 harness: order %s via %s, step %d: the readable document %c %s", order, via, step+1, l, v)
					}
					continue
				}
				if v != "" {
					seen := "first submission"
					if k := strings.IndexByte(order[:step], l); k >= 0 {
						seen = fmt.Sprintf("submitted before at step %d", k+1)
					}
					if len(bad) == 0 {
						firstBad = l
					}
					bad = append(bad, fmt.Sprintf("step %d (%c, %s) %s %s", step+1, l, seen, ep.name, v))
				}
			}
			if len(bad) > 0 {
				more := ""
				if len(bad) > 2 {
					more = fmt.Sprintf(" (and %d more steps)", len(bad)-2)
					bad = bad[:2]
				}
				t.Errorf("C04 violated: submission order %s via %s (V W readable; U truncated document, T RAML text: undecodable; R nested numeric @id, S unloadable remote @context: rejected by JSON-LD; e.g. %c = %s): %s%s; every U T R S step must end in an error and no report",
					order, via, firstBad, c04Quote(c04SeqText(firstBad, tag)), strings.Join(bad, "; "), more)
			}
		}
	}
	t.Logf("C04 bound: %d submission orders, %d runs, %d calls", len(orders), runs, calls)
}

// ---- undecodable texts ---------------------------------------------------------------------------------------------------

func c04UTF16(s string, bigEndian, bom bool) string {
	var b []byte
	put := func(u uint16) {
		if bigEndian {
			b = append(b, byte(u>>8), byte(u))
		} else {
			b = append(b, byte(u), byte(u>>8))
		}
	}
	if bom {
		put(0xFEFF)
	}
	for _, u := range utf16.Encode([]rune(s)) {
		put(u)
	}
	return string(b)
}

func c04UTF32LE(s string) string {
	b := []byte{0xFF, 0xFE, 0, 0}
	for _, r := range s {
		b = append(b, byte(r), byte(r>>8), byte(r>>16), byte(r>>24))
	}
	return string(b)
}

const c04Raml = "#%RAML 1.0\ntitle: api\nversion: v1\n/p:\n  get:\n    responses:\n      200:\n        body:\n          application/json:\n            type: string\n"

func c04Undecodable() []c04Text {
	out := []c04Text{
		{"empty text", ""}, {"one space", " "}, {"blank lines and tabs", "\n\t \r\n"}, {"a newline", "\n"}, {"many spaces", strings.Repeat(" ", 4096)},
	}
	// truncated: every 9th proper prefix of a document of several nodes (and the shortest and longest ones)
	doc := `{"@context": {"core": "http://a.ml/vocabularies/core#"}, "@graph": [` + c04Api + `, ` + c04Ep + `, {"@id": "http://example.org/t", "core:name": "caf\u00e9 \"quoted\" \\ 1e3", "http://example.org/n": [1, -2.5e+3, true, null]}]}`
	cuts := map[int]bool{1: true, 2: true, len(doc) - 1: true}
	for k := 9; k < len(doc); k += 9 {
		cuts[k] = true
	}
	for k := 1; k < len(doc); k++ {
		if cuts[k] {
			out = append(out, c04Text{fmt.Sprintf("document truncated after %d of %d bytes", k, len(doc)), doc[:k]})
		}
	}
	for _, s := range []string{
		// malformed JSON, JSON5 and JavaScript
		`{not json`, `{not json}`, `[1,2`, `{"a" 1}`, `{"a":}`, `{1: 2}`, `[1 2]`, `{"a": 1,}`, `[1,]`, `}`, `]`, `,`, `:`, `{'a': 1}`, `{a: 1}`,
		"// data\n" + c04Good, "/* data */ " + c04Good, `NaN`, `Infinity`, `undefined`, `True`, `None`, `nul`, `tru`, `-`, `1e`, `"unterminated`, `"bad \x escape"`,
		"{\"@id\": \"a\nb\"}",
		// leading noise before a complete document
		"x" + c04Good, "data = " + c04Good, ")]}'\n" + c04Good, "\x00" + c04Good, "HTTP/1.1 200 OK\r\nContent-Type: application/ld+json\r\n\r\n" + c04Good,
		"{not json}\n" + c04Good, "<pre>" + c04Good + "</pre>",
	} {
		out = append(out, c04Text{"malformed JSON", s})
	}
	out = append(out,
		c04Text{"document behind a UTF-8 byte order mark", "\xef\xbb\xbf" + c04Good},
		c04Text{"a byte order mark only", "\xef\xbb\xbf"},
		c04Text{"document in UTF-16LE with BOM", c04UTF16(c04Good, false, true)},
		c04Text{"document in UTF-16BE with BOM", c04UTF16(c04Good, true, true)},
		c04Text{"document in UTF-16LE without BOM", c04UTF16(c04Good, false, false)},
		c04Text{"document in UTF-32LE", c04UTF32LE(c04Good)},
		c04Text{"gzip header", "\x1f\x8b\x08\x00\x00\x00\x00\x00\x00\x03\xab\xae\x05\x00\x43\xbf\xa6\xa3\x02\x00\x00\x00"},
		c04Text{"binary", "\x00\x01\x02\xff\xfe{}"},
		// other formats, with and without JSON-compatible flow collections inside
		c04Text{"RAML source", c04Raml},
		c04Text{"RAML source with flow collections", "#%RAML 1.0\ntitle: api\nprotocols: [\"HTTP\", \"HTTPS\"]\ntags: []\n/p:\n  get: {}\n"},
		c04Text{"OAS YAML source", "openapi: \"3.0.0\"\ninfo:\n  title: api\n  version: \"1\"\npaths: {}\n"},
		c04Text{"the validation profile itself", c04Profiles[1]},
		c04Text{"YAML document marker before a flow mapping", "---\n{}\n"},
		c04Text{"YAML flow mapping", "{a: b, c: [d]}"},
		c04Text{"YAML block sequence of flow mappings", "- {}\n- {\"@id\": \"http://example.org/a\"}\n"},
		c04Text{"YAML key with a JSON value", "graph: " + c04Good + "\n"},
		c04Text{"RDF/XML", "<?xml version=\"1.0\"?>\n<rdf:RDF xmlns:rdf=\"http://www.w3.org/1999/02/22-rdf-syntax-ns#\"><rdf:Description rdf:about=\"http://example.org/api\"/></rdf:RDF>\n"},
		c04Text{"Turtle", "@prefix ex: <http://example.org/> .\nex:api a ex:WebAPI ; ex:tags ( \"a\" \"b\" ) ; ex:link [ ex:p 1 ] .\n"},
		c04Text{"plain text", "this is not the data you are looking for: see [1] and {2}\n"},
	)
	return out
}

func TestReplayC04Undecodable(t *testing.T) {
	compiled := c04Compile(t)
	texts := c04Undecodable()
	seen := map[string]bool{}
	for i, in := range texts {
		if seen[in.text] {
			t.Errorf("C04 harness: %s %s is listed twice", in.label, c04Quote(in.text))
			continue
		}
		seen[in.text] = true
		_, err := c04Decode(in.text)
		if err == nil {
			t.Errorf("C04 harness: %s %s: a complete JSON value can be read from it, it does not belong in this table", in.label, c04Quote(in.text))
			continue
		}
		c04Table(t, i, in, "no complete JSON value: "+c04Short(err.Error(), 50), compiled, true)
	}
	truncated := 0
	for _, in := range texts {
		if strings.HasPrefix(in.label, "document truncated") {
			truncated++
		}
	}
	t.Logf("C04 bound: %d undecodable texts, %d of them proper prefixes of one document", len(texts), truncated)
}

// ---- documents JSON-LD rejects ---------------------------------------------------------------------------------------------

// members that make the node object they are put in unacceptable to JSON-LD
var c04BadMembers = []string{
	// @context
	`"@context": 5`, `"@context": true`, `"@context": [null, 7]`, `"@context": [{"ex": "http://example.org/"}, [1]]`,
	`"@context": "http://127.0.0.1:1/ctx.jsonld"`, `"@context": "ctx.jsonld"`, `"@context": "file:///nonexistent/c04/ctx.jsonld"`, `"@context": "https://example.invalid/ctx"`,
	`"@context": [{"ex": "http://example.org/"}, "http://127.0.0.1:1/second.jsonld"]`,
	`"@context": {"@vocab": 5}`, `"@context": {"@base": 5}`, `"@context": {"@language": 5}`, `"@context": {"@version": 1.0}`, `"@context": {"@version": 2}`,
	`"@context": {"a": 5}`, `"@context": {"a": {"@id": 5}}`, `"@context": {"@type": "http://example.org/y"}`, `"@context": {"@id": "http://example.org/"}`,
	`"@context": {"@context": "http://example.org/"}`, `"@context": {"a": "b", "b": "a"}`, `"@context": {"a": {"@id": "http://example.org/a", "@container": "@bogus"}}`,
	`"@context": {"a": {"@id": "http://example.org/a", "@type": "bogus"}}`, `"@context": {"a": {"@reverse": "http://example.org/a", "@id": "http://example.org/b"}}`,
	`"@context": {"a": {"@id": "@context"}}`, `"@context": {"a": "@context"}`, `"@context": {"a": {"@id": "http://example.org/a", "@language": 5}}`,
	`"@context": {"@propagate": "x"}`, `"@context": {"@import": 5}`, `"@context": {"a": {"@id": "http://example.org/a", "@prefix": "x"}}`,
	`"@context": {"a": {"@id": "http://example.org/a", "@nest": "@id"}}`, `"@context": {"@direction": "up"}`,
	`"@context": {"r": {"@reverse": "http://example.org/p", "@container": "@list"}}`, `"@context": {"r": {"@reverse": 5}}`, `"@context": {"a:b": "http://example.org/c"}`,
	`"@context": {"rdf": "http://www.w3.org/1999/02/22-rdf-syntax-ns#", "rdf:type": "http://example.org/other"}`,
	`"@context": {"a": {"@id": "http://example.org/a", "@context": 5}}, "a": 1`,
	`"@context": {"en": {"@id": "http://example.org/p", "@container": "@language"}}, "en": {"en": 5}`,
	// @id and @type
	`"@id": 5`, `"@id": true`, `"@id": ["a", "b"]`, `"@id": {"@id": "x"}`, `"@id": null, "http://example.org/p": 1`,
	`"@type": 5`, `"@type": true`, `"@type": [5]`, `"@type": {"a": 1}`, `"@type": ["http://example.org/T", 5]`,
	`"@context": {"id": "@id"}, "id": "http://example.org/a", "@id": "http://example.org/b"`,
	// value, list and set objects
	`"http://example.org/p": {"@value": {"a": 1}}`, `"http://example.org/p": {"@value": [1]}`, `"http://example.org/p": {"@value": "a", "@language": 5}`,
	`"http://example.org/p": {"@value": 1, "@language": "en"}`, `"http://example.org/p": {"@value": "a", "@type": "_:b"}`, `"http://example.org/p": {"@value": "a", "@type": 5}`,
	`"http://example.org/p": {"@value": "a", "@id": "http://example.org/q"}`, `"http://example.org/p": {"@value": "a", "@type": "http://example.org/t", "@language": "en"}`,
	`"http://example.org/p": {"@list": [1], "@id": "http://example.org/l"}`, `"http://example.org/p": {"@set": [1], "@id": "http://example.org/l"}`,
	// @reverse, @index, @included, @nest
	`"@reverse": 5`, `"@reverse": {"http://example.org/p": "lit"}`, `"@reverse": {"@id": "http://example.org/a"}`, `"@reverse": {"http://example.org/p": {"@value": 1}}`,
	`"@reverse": {"http://example.org/p": {"@list": []}}`, `"@index": 5, "http://example.org/p": 1`,
	`"@included": 5`, `"@included": "x"`, `"@included": {"@value": 1}`, `"@included": [{"@id": 5}]`, `"@included": {"@list": []}`, `"@nest": 5`, `"@nest": {"@value": 1}`,
	// keywords where they do not belong
	`"@graph": 5`, `"@graph": "x"`, `"@language": "en", "http://example.org/p": 1`, `"@direction": "ltr", "http://example.org/p": 1`,
}

var c04BadDocs = []string{
	`{"@context": "http://127.0.0.1:1/ctx.jsonld", "@graph": [` + c04Api + `, ` + c04Ep + `]}`,
	`{"@context": [{"core": "http://a.ml/vocabularies/core#"}, "https://example.invalid/amf.jsonld"], "@graph": [` + c04Api + `, ` + c04Ep + `]}`,
	`{"@context": "https://example.invalid/amf.jsonld", "@id": "http://example.org/api", "@type": "WebAPI", "name": "api"}`,
	`{"@graph": null}`, `{"@graph": {"@id": "http://example.org/g", "@graph": 5}}`,
	`{"@graph": [{"@id": "http://example.org/a", "@index": "a"}, {"@id": "http://example.org/a", "@index": "b"}]}`,
	`[` + c04Api + `, {"@id": 5}]`, `[[` + c04Api + `], [[{"@type": 5}]]]`,
	`{"@graph": [` + c04Api + `, {"@id": "http://example.org/ep", "@type": ["http://a.ml/vocabularies/apiContract#EndPoint"], "http://a.ml/vocabularies/apiContract#supportedOperation": [{"@id": "http://example.org/op", "http://a.ml/vocabularies/apiContract#returns": [{"@id": "http://example.org/r", "http://a.ml/vocabularies/apiContract#payload": [{"@id": 200}]}]}]}]}`,
	`{"@context": {"doc": "http://a.ml/vocabularies/document#", "@version": 1.2}, "@graph": [` + c04Api + `]}`,
	`{"@context": {"@protected": true, "name": "http://a.ml/vocabularies/core#name"}, "@graph": [{"@context": {"name": "http://example.org/other"}, "@id": "http://example.org/api", "name": "x"}]}`,
	`{"@context": {"name": {"@id": "http://a.ml/vocabularies/core#name", "@container": ["@list", "@set"]}}, "@id": "http://example.org/api", "name": ["x"]}`,
}

func c04RejectedDocs() []c04Text {
	var out []c04Text
	for _, m := range c04BadMembers {
		out = append(out,
			c04Text{"JSON-LD: top-level node with " + c04Short(m, 60), `{` + m + `}`},
			c04Text{"JSON-LD: node next to valid nodes with " + c04Short(m, 60), `{"@graph": [` + c04Api + `, {` + m + `}, ` + c04Ep + `]}`},
			c04Text{"JSON-LD: nested node with " + c04Short(m, 60), `{"@graph": [{"@id": "http://example.org/api", "@type": ["http://a.ml/vocabularies/apiContract#WebAPI"], "http://a.ml/vocabularies/core#name": "api", "http://example.org/link": {` + m + `}}]}`})
	}
	for _, d := range c04BadDocs {
		out = append(out, c04Text{"JSON-LD: document", d})
	}
	return out
}

func TestReplayC04JsonLdRejected(t *testing.T) {
	compiled := c04Compile(t)
	docs := c04RejectedDocs()
	seen := map[string]bool{}
	for i, in := range docs {
		if seen[in.text] {
			t.Errorf("C04 harness: %s %s is listed twice", in.label, c04Quote(in.text))
			continue
		}
		seen[in.text] = true
		doc, err := c04Decode(in.text)
		if err != nil {
			t.Errorf("C04 harness: %s %s is not JSON: %v", in.label, c04Quote(in.text), err)
			continue
		}
		rejected, why := c04Rejected(doc)
		if !rejected {
			t.Errorf("C04 harness: %s %s: JSON-LD processing accepts it, it does not belong in this table", in.label, c04Quote(in.text))
			continue
		}
		c04Table(t, i, in, "JSON-LD processing rejects it: "+why, compiled, i >= 3*len(c04BadMembers) || i%3 == (i/3)%3)
		// Normalize has no error result: it must not come back with a graph
		func() {
			defer func() { _ = recover() }()
			fresh, _ := c04Decode(in.text)
			g := Normalize(fresh)
			b, _ := json.Marshal(g)
			t.Errorf("C04 violated: %s %s: Normalize returned the graph %s; JSON-LD processing rejects the document (%s): no normalized data may come back", in.label, c04Quote(in.text), c04Short(string(b), 80), why)
		}()
	}
	t.Logf("C04 bound: %d documents JSON-LD rejects (%d members x 3 placements, %d whole documents)", len(docs), len(c04BadMembers), len(c04BadDocs))
}

// ---- command line ----------------------------------------------------------------------------------------------------------

func c04RepoRoot() (string, error) {
	dir, err := os.Getwd()
	if err != nil {
		return "", err
	}
	for {
		if _, err := os.Stat(filepath.Join(dir, "go.mod")); err == nil {
			return dir, nil
		}
		up := filepath.Dir(dir)
		if up == dir {
			return "", fmt.Errorf("no go.mod above the package directory")
		}
		dir = up
	}
}

func TestReplayC04CLI(t *testing.T) {
	goTool, err := exec.LookPath("go")
	if err != nil {
		t.Skip("C04 harness: no go tool in PATH, the command line is not observed")
	}
	root, err := c04RepoRoot()
	if err != nil {
		t.Errorf("C04 harness: %v", err)
		return
	}
	tmp := t.TempDir()
	acv := filepath.Join(tmp, "acv")
	build := exec.Command(goTool, "build", "-p", "2", "-o", acv, "./cmd")
	build.Dir = root
	if out, err := build.CombinedOutput(); err != nil {
		t.Errorf("C04 harness: acv does not build: %v: %s", err, c04Short(string(out), 200))
		return
	}
	profile := filepath.Join(tmp, "profile.yaml")
	if err := os.WriteFile(profile, []byte(c04Profiles[0]), 0o644); err != nil {
		t.Errorf("C04 harness: %v", err)
		return
	}
	run := func(name, text string, withOut bool) (exit int, stdout, outFile string, ok bool) {
		data := filepath.Join(tmp, name)
		if err := os.WriteFile(data, []byte(text), 0o644); err != nil {
			t.Errorf("C04 harness: %v", err)
			return 0, "", "", false
		}
		args := []string{"validate", profile, data}
		target := data + ".report"
		if withOut {
			args = append(args, target)
		}
		cmd := exec.Command(acv, args...)
		var so, se bytes.Buffer
		cmd.Stdout, cmd.Stderr = &so, &se
		err := cmd.Run()
		if err != nil {
			if _, isExit := err.(*exec.ExitError); !isExit {
				t.Errorf("C04 harness: acv does not run: %v", err)
				return 0, "", "", false
			}
		}
		written, _ := os.ReadFile(target)
		return cmd.ProcessState.ExitCode(), so.String(), string(written), true
	}
	// the command must work at all
	if exit, stdout, _, ok := run("good.jsonld", c04Good, false); ok && (exit != 0 || !strings.Contains(stdout, `"conforms": true`)) {
		t.Errorf("C04 harness: acv validate on a readable conforming document: exit status %d, stdout %s", exit, c04Quote(stdout))
		return
	}
	und := c04Undecodable()
	pick := func(label string) c04Text {
		for _, x := range und {
			if x.label == label {
				return x
			}
		}
		t.Errorf("C04 harness: no undecodable text labelled %q", label)
		return c04Text{label, ""}
	}
	var truncated []c04Text
	for _, x := range und {
		if strings.HasPrefix(x.label, "document truncated after") {
			truncated = append(truncated, x)
		}
	}
	if len(truncated) == 0 {
		t.Errorf("C04 harness: no truncated document in the table")
		return
	}
	files := []c04Text{
		pick("empty text"), pick("blank lines and tabs"), truncated[len(truncated)/2], {"malformed JSON", "{not json"},
		pick("RAML source with flow collections"), pick("the validation profile itself"), pick("document behind a UTF-8 byte order mark"), pick("document in UTF-16LE with BOM"),
		{"JSON-LD: numeric @context", `{"@context": 5}`}, {"JSON-LD: scalar @graph", `{"@graph": 5}`}, {"JSON-LD: numeric @id next to valid nodes", `{"@graph": [` + c04Api + `, {"@id": 5}]}`},
		{"JSON-LD: unloadable remote @context", c04BadDocs[0]}, {"JSON-LD: scalar @included", `{"@id": "http://example.org/api", "@included": 5}`},
		{"JSON-LD: @type true in a nested node", `{"@graph": [{"@id": "http://example.org/api", "http://example.org/link": {"@type": true}}]}`},
		{"JSON-LD: literal under @reverse", `{"@reverse": {"http://example.org/p": "lit"}}`}, {"JSON-LD: keyword redefinition", `{"@context": {"@type": "http://example.org/y"}, "@graph": [` + c04Api + `]}`},
	}
	for i, f := range files {
		if doc, err := c04Decode(f.text); err == nil {
			if rejected, _ := c04Rejected(doc); !rejected {
				t.Errorf("C04 harness: %s %s is readable, it does not belong in this table", f.label, c04Quote(f.text))
				continue
			}
		}
		for _, withOut := range []bool{false, true} {
			if withOut && i%3 != 0 {
				continue
			}
			exit, stdout, outFile, ok := run(fmt.Sprintf("data%d.jsonld", i), f.text, withOut)
			if !ok {
				continue
			}
			form := "acv validate PROFILE DATA"
			if withOut {
				form += " OUTPUT_FILE"
			}
			var bad []string
			if exit == 0 {
				bad = append(bad, "exit status 0")
			}
			if strings.Contains(stdout, "conforms") {
				bad = append(bad, "a report on stdout ("+c04Report(stdout)+")")
			}
			if strings.Contains(outFile, "conforms") {
				bad = append(bad, "a report in the output file ("+c04Report(outFile)+")")
			}
			if len(bad) > 0 {
				t.Errorf("C04 violated: %s with DATA = %s %s: %s; the data is unreadable: a non-zero exit status and no report is demanded", form, f.label, c04Quote(f.text), strings.Join(bad, ", "))
			}
		}
	}
}

// ---- text after the document (repaired: F33) ---------------------------------------------------------------------------------------------------------

// Texts that are not a JSON document although a first complete JSON value can be read from them. The statement of C04 speaks
// of texts from which no complete value can be read, its quantification of "all byte strings that are not a JSON document":
// under the second reading these are unreadable data too. The pinned tree decoded the first value, ignored the rest and
// returned a verdict (a document cut at the front was reported as conforming); repaired by the fix F33, so this table is part
// of the suite now.
func TestReplayC04TrailingText(t *testing.T) {
	compiled := c04Compile(t)
	for i, in := range []c04Text{
		{"trailing garbage", `{} garbage`}, {"two objects", `{}{}`}, {"two documents", c04Good + "\n" + c04Good}, {"document followed by text", c04Good + " trailing"},
		{"document followed by a stray bracket", c04Good + "]"}, {"document followed by RAML", c04Good + "\n" + c04Raml}, {"empty graph followed by a truncated document", `{"@graph": []} {"@graph": [`},
		{"document with its first byte cut off", c04Good[1:]}, {"number with a leading zero", `01`},
	} {
		doc, err := c04Decode(in.text)
		if err != nil {
			t.Errorf("C04 harness: %s %s: no first value can be read, it belongs in the undecodable table", in.label, c04Quote(in.text))
			continue
		}
		if rejected, _ := c04Rejected(doc); rejected {
			t.Errorf("C04 harness: %s %s: the first value is rejected by JSON-LD", in.label, c04Quote(in.text))
			continue
		}
		if json.Valid([]byte(in.text)) {
			t.Errorf("C04 harness: %s %s is a JSON document", in.label, c04Quote(in.text))
			continue
		}
		c04Table(t, i, in, "not a JSON document: text follows the first value", compiled, true)
	}
}
