package validator

// Witness for property C15 / obligation post:yaml.Yaml.Get#first-matching-key :
// reordering the keys of a mapping must not change the verdict. Yaml.Get used to scan keys AND values, so a value
// equal to a later key name ("message: targetClass") hijacked the lookup of that key.

import (
	"strings"
	"testing"
)

const c15Data = `{"@id":"http://example.org/n","@type":"http://a.ml/vocabularies/apiContract#WebAPI","http://a.ml/vocabularies/core#name":"x"}`

func c15Profile(validationBody string) string {
	return "#%Validation Profile 1.0\nprofile: KeyOrder\nviolation:\n  - v1\nvalidations:\n  v1:\n" + validationBody
}

func TestReplayC15KeyOrder(t *testing.T) {
	a := c15Profile("    targetClass: apiContract.WebAPI\n    message: targetClass\n    propertyConstraints:\n      core.name:\n        maxCount: 0\n")
	b := c15Profile("    message: targetClass\n    targetClass: apiContract.WebAPI\n    propertyConstraints:\n      core.name:\n        maxCount: 0\n")
	run := func(p string) (out string) {
		defer func() {
			if r := recover(); r != nil {
				out = "panic"
			}
		}()
		rep, err := Validate(p, c15Data, false, nil)
		if err != nil {
			return "error"
		}
		if strings.Contains(rep, `"conforms": false`) {
			return "reported"
		}
		return "conforms"
	}
	ra, rb := run(a), run(b)
	if ra != rb || ra != "reported" {
		t.Errorf("C15 violated: the same validation with its keys in two orders gives %q and %q (expected the node to be reported both times)", ra, rb)
	}
}
