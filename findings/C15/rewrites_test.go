package validator

// Bounded witness search for property C15: the same validations written down differently - level lists permuted (also with a
// name that has no definition), keys of a validation mapping in another order (also with two connectives in one mapping),
// operands of and / or permuted, a prefix renamed consistently (also to a name with a hyphen, also inside message
// variables), flow style instead of block style, quoted instead of plain scalars - must give the same verdict:
// conforms plus the set of (severity, validation, focus node, message). Witness search only.

import (
	"encoding/json"
	"fmt"
	"sort"
	"strings"
	"testing"
)

const c15Data = `{"@graph":[
 {"@id":"http://shop.example/o1","@type":"http://shop.example/Order","http://shop.example/customer":"ACME","http://shop.example/total":"10","http://shop.example/count":3,"http://shop.example/item":[{"@id":"http://shop.example/i1"},{"@id":"http://shop.example/i2"}]},
 {"@id":"http://shop.example/o2","@type":"http://shop.example/Order","http://shop.example/customer":"Bolt"},
 {"@id":"http://shop.example/o3","@type":"http://shop.example/Order","http://shop.example/total":"7","http://shop.example/note":"rush"},
 {"@id":"http://shop.example/i1","@type":"http://shop.example/Item","http://shop.example/sku":"A-1"},
 {"@id":"http://shop.example/i2","@type":"http://shop.example/Item"}
]}`

func c15Verdict(t *testing.T, label, profile string) string {
	rep, err := Validate(profile, c15Data, false, nil)
	if err != nil {
		return "error: " + strings.Split(err.Error(), "\n")[0]
	}
	var doc []map[string]any
	if json.Unmarshal([]byte(rep), &doc) != nil || len(doc) == 0 {
		return "unreadable report"
	}
	enc, _ := doc[0]["doc:encodes"].([]any)
	if len(enc) == 0 {
		return "no report node"
	}
	r, _ := enc[0].(map[string]any)
	var rows []string
	if res, ok := r["result"].([]any); ok {
		for _, x := range res {
			m, _ := x.(map[string]any)
			fn := fmt.Sprint(m["focusNode"])
			rows = append(rows, fmt.Sprintf("%v|%v|%v|%v", m["resultSeverity"], m["sourceShapeName"], fn, m["resultMessage"]))
		}
	}
	sort.Strings(rows)
	return fmt.Sprintf("conforms=%v %s", r["conforms"], strings.Join(rows, " ; "))
}

type c15Variant struct{ label, profile string }

func c15Family(name string, variants []c15Variant, t *testing.T) {
	base := c15Verdict(t, variants[0].label, variants[0].profile)
	if strings.HasPrefix(base, "error") {
		t.Errorf("C15 harness: family %s: the reference spelling does not validate: %s", name, base)
		return
	}
	for _, v := range variants[1:] {
		got := c15Verdict(t, v.label, v.profile)
		if got != base {
			t.Errorf("C15 violated: family %s: %q and %q are the same validations written differently but give different verdicts:\n  %s\n  %s", name, variants[0].label, v.label, base, got)
		}
	}
}

func TestReplayC15Rewrites(t *testing.T) {
	head := func(prefix string, levels string) string {
		return "#%Validation Profile 1.0\nprofile: Shop\nprefixes:\n  " + prefix + ": http://shop.example/\n" + levels
	}
	v := func(prefix string) string {
		return "validations:\n" +
			"  has-total:\n    targetClass: " + prefix + ".Order\n    message: The order of {{ " + prefix + ".customer }} has no total\n    propertyConstraints:\n      " + prefix + ".total:\n        minCount: 1\n" +
			"  has-customer:\n    targetClass: " + prefix + ".Order\n    message: no customer\n    propertyConstraints:\n      " + prefix + ".customer:\n        minCount: 1\n" +
			"  items-have-sku:\n    targetClass: " + prefix + ".Order\n    message: item without sku\n    propertyConstraints:\n      " + prefix + ".item:\n        nested:\n          propertyConstraints:\n            " + prefix + ".sku:\n              minCount: 1\n" +
			"  rush-or-total:\n    targetClass: " + prefix + ".Order\n    message: neither rush nor total\n    or:\n      - propertyConstraints:\n          " + prefix + ".note:\n            minCount: 1\n      - propertyConstraints:\n          " + prefix + ".total:\n            minCount: 1\n      - propertyConstraints:\n          " + prefix + ".item:\n            minCount: 3\n"
	}
	// 1. level lists: order, and a name without definition in any position
	c15Family("level-list order", []c15Variant{
		{"violation [has-total, has-customer, items-have-sku]", head("shop", "violation:\n  - has-total\n  - has-customer\n  - items-have-sku\nwarning:\n  - rush-or-total\n") + v("shop")},
		{"violation [items-have-sku, has-customer, has-total]", head("shop", "violation:\n  - items-have-sku\n  - has-customer\n  - has-total\nwarning:\n  - rush-or-total\n") + v("shop")},
		{"warning listed before violation", head("shop", "warning:\n  - rush-or-total\nviolation:\n  - has-customer\n  - has-total\n  - items-have-sku\n") + v("shop")},
		{"flow-style lists", head("shop", "violation: [has-total, has-customer, items-have-sku]\nwarning: [rush-or-total]\n") + v("shop")},
	}, t)
	c15Family("level list with an undefined name", []c15Variant{
		{"[has-total, retired, has-customer]", head("shop", "violation:\n  - has-total\n  - retired\n  - has-customer\n") + v("shop")},
		{"[retired, has-total, has-customer]", head("shop", "violation:\n  - retired\n  - has-total\n  - has-customer\n") + v("shop")},
		{"[has-customer, has-total, retired]", head("shop", "violation:\n  - has-customer\n  - has-total\n  - retired\n") + v("shop")},
	}, t)
	// 2. prefix renamed consistently, also to a hyphenated name, also in message variables
	c15Family("prefix rename", []c15Variant{
		{"prefix shop", head("shop", "violation:\n  - has-total\n  - has-customer\n  - items-have-sku\n  - rush-or-total\n") + v("shop")},
		{"prefix s", head("s", "violation:\n  - has-total\n  - has-customer\n  - items-have-sku\n  - rush-or-total\n") + v("s")},
		{"prefix web-shop", head("web-shop", "violation:\n  - has-total\n  - has-customer\n  - items-have-sku\n  - rush-or-total\n") + v("web-shop")},
		{"prefix Shop2", head("Shop2", "violation:\n  - has-total\n  - has-customer\n  - items-have-sku\n  - rush-or-total\n") + v("Shop2")},
	}, t)
	// 3. operand order of and / or, key order inside a validation, two connectives in one mapping
	body := func(keys ...string) string {
		parts := map[string]string{
			"targetClass": "    targetClass: shop.Order\n",
			"message":     "    message: m\n",
			"or":          "    or:\n      - propertyConstraints:\n          shop.note:\n            minCount: 1\n      - propertyConstraints:\n          shop.total:\n            minCount: 1\n",
			"or-swapped":  "    or:\n      - propertyConstraints:\n          shop.total:\n            minCount: 1\n      - propertyConstraints:\n          shop.note:\n            minCount: 1\n",
			"not":         "    not:\n      propertyConstraints:\n        shop.customer:\n          minCount: 1\n",
			"and":         "    and:\n      - propertyConstraints:\n          shop.customer:\n            minCount: 1\n      - propertyConstraints:\n          shop.total:\n            minCount: 1\n",
			"and-swapped": "    and:\n      - propertyConstraints:\n          shop.total:\n            minCount: 1\n      - propertyConstraints:\n          shop.customer:\n            minCount: 1\n",
		}
		s := "validations:\n  v:\n"
		for _, k := range keys {
			s += parts[k]
		}
		return head("shop", "violation:\n  - v\n") + s
	}
	c15Family("operand order", []c15Variant{
		{"or [note, total]", body("targetClass", "message", "or")},
		{"or [total, note]", body("targetClass", "message", "or-swapped")},
		{"keys: or, message, targetClass", body("or", "message", "targetClass")},
	}, t)
	c15Family("and operand order", []c15Variant{
		{"and [customer, total]", body("targetClass", "message", "and")},
		{"and [total, customer]", body("message", "and-swapped", "targetClass")},
	}, t)
	c15Family("two connectives in one mapping", []c15Variant{
		{"keys: or, not", body("targetClass", "message", "or", "not")},
		{"keys: not, or", body("targetClass", "message", "not", "or")},
		{"keys: not, targetClass, or, message", body("not", "targetClass", "or", "message")},
	}, t)
	c15Family("and with or in one mapping", []c15Variant{
		{"keys: and, or", body("targetClass", "message", "and", "or")},
		{"keys: or, and", body("targetClass", "message", "or", "and")},
	}, t)
	// 2b. an alias for a built-in prefix, in the positions where a compact IRI is an argument (datatype, property comparison)
	dt := func(prefix, decl string) string {
		return "#%Validation Profile 1.0\nprofile: Shop\nprefixes:\n  shop: http://shop.example/\n" + decl + "violation:\n  - total-is-a-long\n  - total-is-an-integer\n  - customer-is-a-string\nvalidations:\n" +
			"  total-is-a-long:\n    targetClass: shop.Order\n    message: m\n    propertyConstraints:\n      shop.count:\n        datatype: " + prefix + ".long\n" +
			"  total-is-an-integer:\n    targetClass: shop.Order\n    message: m\n    propertyConstraints:\n      shop.count:\n        datatype: " + prefix + ".integer\n" +
			"  customer-is-a-string:\n    targetClass: shop.Order\n    message: m\n    propertyConstraints:\n      shop.customer:\n        datatype: " + prefix + ".string\n"
	}
	c15Family("alias of the built-in xsd prefix in datatype", []c15Variant{
		{"xsd.*", dt("xsd", "")},
		{"xs.* with xs declared as the XML Schema namespace", dt("xs", "  xs: http://www.w3.org/2001/XMLSchema#\n")},
		{"xsd.* with xsd declared again", dt("xsd", "  xsd: http://www.w3.org/2001/XMLSchema#\n")},
	}, t)
	// 4. scalar and collection style
	quoted := strings.NewReplacer("targetClass: shop.Order", "targetClass: \"shop.Order\"", "message: no customer", "message: 'no customer'", "minCount: 1", "minCount: 1 # at least one").Replace(v("shop"))
	c15Family("YAML style", []c15Variant{
		{"plain block style", head("shop", "violation:\n  - has-total\n  - has-customer\n") + v("shop")},
		{"quoted scalars and comments", head("shop", "violation:\n  - \"has-total\"\n  - 'has-customer'\n") + quoted},
	}, t)
}
