package validator

// Bounded witness search for property C02: every property path built from at most three steps over the atoms
// p, q, r, p^, q^ with "/" and "|" (parentheses explicit) is evaluated on a small graph by an independent evaluator of the
// documented meaning (a predicate yields its objects, a / b composes, a | b unions, p^ follows the predicate backwards; a value
// reached by several routes counts once) and compared with what the real validator counts, through minCount / maxCount
// constraints on three focus nodes. Witness search only: it decides nothing by itself, a disagreement is a concrete path.
//   C02_STRIDE  use every n-th path (default 4), C02_OUT json summary

import (
	"encoding/json"
	"fmt"
	"os"
	"sort"
	"strconv"
	"strings"
	"testing"
)

type c02Edge struct{ s, p, o string }

var c02Edges = []c02Edge{
	{"n1", "p", "a"}, {"n1", "p", "b"}, {"n1", "q", "b"}, {"n1", "r", "c"},
	{"n2", "p", "b"}, {"n2", "q", "c"}, {"n3", "q", "a"},
	{"a", "p", "c"}, {"a", "q", "d"}, {"b", "p", "d"}, {"b", "q", "d"}, {"b", "r", "n1"},
	{"c", "p", "n2"}, {"c", "q", "a"}, {"d", "r", "b"}, {"d", "p", "a"},
}

type c02Path struct {
	op   string // "", "/", "|"
	atom string // p q r p^ q^
	l, r *c02Path
}

func (x *c02Path) String() string {
	if x.op == "" {
		if strings.HasSuffix(x.atom, "^") {
			return "ex." + strings.TrimSuffix(x.atom, "^") + "^"
		}
		return "ex." + x.atom
	}
	return "(" + x.l.String() + " " + x.op + " " + x.r.String() + ")"
}

func (x *c02Path) eval(from map[string]bool) map[string]bool {
	out := map[string]bool{}
	switch x.op {
	case "":
		pred, inv := strings.TrimSuffix(x.atom, "^"), strings.HasSuffix(x.atom, "^")
		for _, e := range c02Edges {
			if e.p != pred {
				continue
			}
			if !inv && from[e.s] {
				out[e.o] = true
			}
			if inv && from[e.o] {
				out[e.s] = true
			}
		}
	case "/":
		return x.r.eval(x.l.eval(from))
	case "|":
		for k := range x.l.eval(from) {
			out[k] = true
		}
		for k := range x.r.eval(from) {
			out[k] = true
		}
	}
	return out
}

// finalDirs: whether the values of the path come from forward steps, inverse steps, or both (a union mixing the two)
func (x *c02Path) finalDirs() (fwd, inv bool) {
	switch x.op {
	case "":
		if strings.HasSuffix(x.atom, "^") {
			return false, true
		}
		return true, false
	case "/":
		return x.r.finalDirs()
	}
	f1, i1 := x.l.finalDirs()
	f2, i2 := x.r.finalDirs()
	return f1 || f2, i1 || i2
}

func c02Class(x *c02Path) string {
	if f, i := x.finalDirs(); f && i {
		return "node-reached-forwards-and-backwards-counted-twice"
	}
	return "other"
}

func c02AllPaths() []*c02Path {
	var atoms []*c02Path
	for _, a := range []string{"p", "q", "r", "p^", "q^"} {
		atoms = append(atoms, &c02Path{atom: a})
	}
	paths := append([]*c02Path{}, atoms...)
	var two []*c02Path
	for _, op := range []string{"/", "|"} {
		for _, a := range atoms {
			for _, b := range atoms {
				two = append(two, &c02Path{op: op, l: a, r: b})
			}
		}
	}
	paths = append(paths, two...)
	for _, op := range []string{"/", "|"} {
		for _, t := range two {
			for _, a := range atoms {
				paths = append(paths, &c02Path{op: op, l: t, r: a}, &c02Path{op: op, l: a, r: t})
			}
		}
	}
	return paths
}

func c02Data() string {
	nodes := map[string]map[string][]string{}
	for _, e := range c02Edges {
		if nodes[e.s] == nil {
			nodes[e.s] = map[string][]string{}
		}
		if nodes[e.o] == nil {
			nodes[e.o] = map[string][]string{}
		}
		nodes[e.s][e.p] = append(nodes[e.s][e.p], e.o)
	}
	var ids []string
	for id := range nodes {
		ids = append(ids, id)
	}
	sort.Strings(ids)
	var parts []string
	for _, id := range ids {
		s := `{"@id":"http://example.org/` + id + `"`
		if strings.HasPrefix(id, "n") {
			s += `,"@type":"http://example.org/T` + id[1:] + `"`
		}
		var ps []string
		for p := range nodes[id] {
			ps = append(ps, p)
		}
		sort.Strings(ps)
		for _, p := range ps {
			var os []string
			for _, o := range nodes[id][p] {
				os = append(os, `{"@id":"http://example.org/`+o+`"}`)
			}
			s += `,"http://example.org/` + p + `":[` + strings.Join(os, ",") + `]`
		}
		parts = append(parts, s+"}")
	}
	return `{"@graph":[` + strings.Join(parts, ",") + `]}`
}

func TestReplayC02PathDenotation(t *testing.T) {
	stride := 4
	if s := os.Getenv("C02_STRIDE"); s != "" {
		if n, err := strconv.Atoi(s); err == nil && n > 0 {
			stride = n
		}
	}
	all := c02AllPaths()
	var paths []*c02Path
	for i, p := range all {
		if i%stride == 0 || i < 55 {
			paths = append(paths, p)
		}
	}
	data := c02Data()
	checked, bad := 0, 0
	var examples []string
	byClass := map[string]int{}
	classExamples := map[string][]string{}
	const batch = 8
	for start := 0; start < len(paths); start += batch {
		end := start + batch
		if end > len(paths) {
			end = len(paths)
		}
		var names, vals []string
		type want struct {
			path  string
			focus string
			n     int
			class string
		}
		wants := map[string]want{}
		for i, p := range paths[start:end] {
			for _, f := range []string{"1", "2", "3"} {
				n := len(p.eval(map[string]bool{"n" + f: true}))
				for _, kind := range []string{"min", "max"} {
					name := fmt.Sprintf("v%d_%s_%s", start+i, f, kind)
					names = append(names, name)
					cls := c02Class(p)
					if kind == "min" {
						cls = "other" // counting too few values is never explained by a node counted twice
					}
					wants[name] = want{p.String(), "n" + f, n, cls}
					vals = append(vals, fmt.Sprintf("  %s:\n    targetClass: ex.T%s\n    message: m\n    propertyConstraints:\n      %s:\n        %sCount: %d\n", name, f, p.String(), kind, n))
				}
			}
		}
		profile := "#%Validation Profile 1.0\nprofile: P\nprefixes:\n  ex: http://example.org/\nviolation:\n  - " + strings.Join(names, "\n  - ") + "\nvalidations:\n" + strings.Join(vals, "")
		rep, err := Validate(profile, data, false, nil)
		if err != nil {
			t.Errorf("C02 violated: profile with paths %v does not validate: %v", paths[start:end], strings.Split(err.Error(), "\n")[0])
			bad++
			byClass["does-not-validate"]++
			continue
		}
		for name, w := range wants {
			checked++
			if strings.Contains(rep, `"sourceShapeName": "`+name+`"`) {
				bad++
				byClass[w.class]++
				msg := fmt.Sprintf("%s from %s: %s must count exactly %d values", w.path, w.focus, name, w.n)
				if len(classExamples[w.class]) < 4 {
					classExamples[w.class] = append(classExamples[w.class], msg)
				}
				if len(examples) < 12 && w.class == "other" {
					examples = append(examples, msg)
				}
			}
		}
	}
	sort.Strings(examples)
	for _, e := range examples {
		t.Errorf("C02 violated: %s", e)
	}
	if out := os.Getenv("C02_OUT"); out != "" {
		b, _ := json.MarshalIndent(map[string]any{"paths": len(paths), "of": len(all), "constraints_checked": checked, "disagreements": bad, "differences_by_class": byClass, "examples": classExamples}, "", " ")
		os.WriteFile(out, b, 0644)
	}
	t.Logf("paths=%d of %d, constraints checked=%d, disagreements=%d", len(paths), len(all), checked, bad)
}

// Second part: the constraint kinds that look at the VALUES a path denotes (not only at how many there are): containsAll,
// containsSome, in and exactCount, on every path of one and two steps (55 paths) from the three focus nodes, with value lists
// derived from the denotation D computed by the independent evaluator: containsAll D holds, containsAll D + a stranger fails
// (when D is not empty), containsSome {one of D} holds, containsSome {a stranger} fails (when D is not empty), in D holds,
// in D minus one value fails, exactCount |D| holds, exactCount |D|+1 fails (counts only where the recorded double count cannot
// arise); and two constraints of one kind on different paths under one `or` (fails exactly when both fail).
func TestReplayC02ValueKinds(t *testing.T) {
	all := c02AllPaths()[:55]
	data := c02Data()
	iri := func(n string) string { return "http://example.org/" + n }
	list := func(ns []string) string {
		var q []string
		for _, n := range ns {
			q = append(q, `"`+iri(n)+`"`)
		}
		return "[" + strings.Join(q, ", ") + "]"
	}
	type want struct {
		desc string
		fail bool
	}
	const batch = 4
	for start := 0; start < len(all); start += batch {
		end := start + batch
		if end > len(all) {
			end = len(all)
		}
		var names, vals []string
		wants := map[string]want{}
		add := func(name, focus, body, desc string, fail bool) {
			names = append(names, name)
			wants[name] = want{desc, fail}
			vals = append(vals, fmt.Sprintf("  %s:\n    targetClass: ex.T%s\n    message: m\n%s", name, focus, body))
		}
		leaf := func(path, constraint string) string {
			return "    propertyConstraints:\n      " + path + ":\n        " + constraint + "\n"
		}
		for i, p := range all[start:end] {
			for _, f := range []string{"1", "2", "3"} {
				dm := p.eval(map[string]bool{"n" + f: true})
				var d []string
				for n := range dm {
					d = append(d, n)
				}
				sort.Strings(d)
				id := fmt.Sprintf("k%d_%s", start+i, f)
				ps := p.String()
				from := " on " + ps + " from n" + f + " (denotation " + fmt.Sprint(d) + ")"
				if len(d) > 0 {
					add(id+"_all", f, leaf(ps, "containsAll: "+list(d)), "containsAll of exactly the denoted values"+from, false)
					add(id+"_allx", f, leaf(ps, "containsAll: "+list(append(append([]string{}, d...), "stranger"))), "containsAll of the denoted values and a stranger"+from, true)
					add(id+"_some", f, leaf(ps, "containsSome: "+list(d[:1])), "containsSome of one denoted value"+from, false)
					add(id+"_somex", f, leaf(ps, "containsSome: "+list([]string{"stranger"})), "containsSome of a stranger only"+from, true)
					add(id+"_in", f, leaf(ps, "in: "+list(d)), "in the denoted values"+from, false)
					add(id+"_inx", f, leaf(ps, "in: "+list(append([]string{"stranger"}, d[1:]...))), "in the denoted values but one"+from, true)
				}
				if c02Class(p) == "other" {
					add(id+"_exact", f, leaf(ps, fmt.Sprintf("exactCount: %d", len(d))), "exactCount of the number of denoted values"+from, false)
					add(id+"_exactx", f, leaf(ps, fmt.Sprintf("exactCount: %d", len(d)+1)), "exactCount of one more than the number of denoted values"+from, true)
				}
				// two constraints of one kind on different paths in one body
				other := all[(start+i+7)%len(all)]
				om := other.eval(map[string]bool{"n" + f: true})
				if len(d) > 0 && len(om) > 0 {
					var od []string
					for n := range om {
						od = append(od, n)
					}
					sort.Strings(od)
					item := func(path, l string) string {
						return "      - propertyConstraints:\n          " + path + ":\n            containsSome: " + l + "\n"
					}
					add(id+"_or_ok", f, "    or:\n"+item(ps, list([]string{"stranger"}))+item(other.String(), list(od[:1])), "or of containsSome {stranger} on "+ps+" and containsSome {a denoted value} on "+other.String()+" from n"+f, false)
					add(id+"_or_bad", f, "    or:\n"+item(ps, list([]string{"stranger"}))+item(other.String(), list([]string{"stranger"})), "or of containsSome {stranger} on "+ps+" and on "+other.String()+" from n"+f, true)
					add(id+"_or_ok2", f, "    or:\n"+item(ps, list(d[:1]))+item(other.String(), list([]string{"stranger"})), "or of containsSome {a denoted value} on "+ps+" and containsSome {stranger} on "+other.String()+" from n"+f, false)
				}
			}
		}
		profile := "#%Validation Profile 1.0\nprofile: P\nprefixes:\n  ex: http://example.org/\nviolation:\n  - " + strings.Join(names, "\n  - ") + "\nvalidations:\n" + strings.Join(vals, "")
		rep, err := Validate(profile, data, false, nil)
		if err != nil {
			t.Errorf("C02 violated: value kinds on the paths %v: no report: %v", all[start:end], strings.Split(err.Error(), "\n")[0])
			continue
		}
		var keys []string
		for n := range wants {
			keys = append(keys, n)
		}
		sort.Strings(keys)
		for _, n := range keys {
			w := wants[n]
			if got := strings.Contains(rep, `"sourceShapeName": "`+n+`"`); got != w.fail {
				t.Errorf("C02 violated: %s: reported=%v, by the denotation it must be %v", w.desc, got, w.fail)
			}
		}
	}
}
