package validator

// Witness for property C02 / obligation own:generator.traverseOr#t :
// in  a / (b^ | c^)  both alternatives must be followed (slice aliasing used to make both clauses search c).

import (
	"strings"
	"testing"
)

const aliasProfile = `#%Validation Profile 1.0
profile: Alias
prefixes:
  ex: http://example.org/
violation:
  - v1
validations:
  v1:
    targetClass: ex.T
    message: m
    propertyConstraints:
      ex.a / (ex.b^ | ex.c^):
        minCount: 2
`

const aliasData = `{"@graph":[
 {"@id":"http://example.org/n","@type":"http://example.org/T","http://example.org/a":{"@id":"http://example.org/m"}},
 {"@id":"http://example.org/m","http://example.org/label":"m"},
 {"@id":"http://example.org/x","http://example.org/b":{"@id":"http://example.org/m"}},
 {"@id":"http://example.org/y","http://example.org/c":{"@id":"http://example.org/m"}}
]}`

func TestReplayC02AlternativeAliasing(t *testing.T) {
	u, err := GenerateRego(aliasProfile, false, nil)
	if err != nil {
		t.Fatal(err)
	}
	if !strings.Contains(u.Code, `"http://example.org/b"`) {
		t.Errorf("C02 violated: the generated path rule for a / (b^ | c^) never mentions predicate b (both clauses search c)")
	}
	rep, err := Validate(aliasProfile, aliasData, false, nil)
	if err != nil {
		t.Fatal(err)
	}
	if !strings.Contains(rep, `"conforms": true`) {
		t.Errorf("C02 violated: n reaches x (via b^) and y (via c^) through m, so minCount 2 holds, but the node is reported")
	}
}
