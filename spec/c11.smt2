; C11 vocabulary: the number of the clock reading a time.Time value carries (A-TIME: time.Now is monotone; its readings are
; numbered by the ghost counter evClock)
;; type time.Time
(declare-fun timeTick (T_time_Time) Int)
