; C13 vocabulary.
; jsonQuote(s): the JSON string literal of s, quotes included. Assumed (A-JSONQ): encoding/json renders a string as a
; literal that decodes to it; (A-OPA7): Rego lexes JSON string literals. The equations below fix its value on single
; characters, so that a sanitizer that mishandles a character class is refuted with that character as the model.
(declare-fun jsonQuote (String) String)
(assert (forall ((c String)) (! (=> (and (= (str.len c) 1) (not (= c """")) (not (= c "\u{5c}")) (>= (str.to_code c) 32)) (= (jsonQuote c) (str.++ """" c """"))) :pattern ((jsonQuote c)))))
(assert (= (jsonQuote """") """\u{5c}"""""))
(assert (= (jsonQuote "\u{5c}") """\u{5c}\u{5c}"""))
(assert (= (jsonQuote "\u{a}") """\u{5c}n"""))
(assert (= (jsonQuote "\u{d}") """\u{5c}r"""))
(assert (= (jsonQuote "\u{9}") """\u{5c}t"""))
(assert (= (jsonQuote "") """"""))
; list of quoted values (regoStringList): element-wise jsonQuote joined by a separator
;; type []string
(declare-fun strJoin (Seq_String String) String)
(assert (forall ((sep String)) (! (= (strJoin empty_String sep) "") :pattern ((strJoin empty_String sep)))))
; strings.Fields(s): the maximal runs of non-space characters of s, in order (no element holds a line break: A-FIELDS)
(declare-fun strFields (String) Seq_String)
; a JSON string literal is its content between two double quotes
(declare-fun jsonInner (String) String)
(assert (forall ((s String)) (! (= (jsonQuote s) (str.++ """" (jsonInner s) """")) :pattern ((jsonQuote s)))))
