; C15 vocabulary: IRI expansion as a function of (context map contents, compact IRI). Assumed pure naming of
; IriExpander.Expand (it reads only its context and its argument; regexp and string functions are deterministic).
(declare-fun expandF ((Array String Any) (Array String Bool) String) String)
(declare-fun expandErrF ((Array String Any) (Array String Bool) String) Any)
; compact IRIs prefix.local : the text before the first dot and the text after it
(define-fun beforeDot ((s String)) String (str.substr s 0 (str.indexof s "." 0)))
(define-fun afterDot ((s String)) String (str.substr s (+ 1 (str.indexof s "." 0)) (str.len s)))
