; C04 vocabulary: the assumed contract of encoding/json's streaming decoder.
;   json.NewDecoder(bytes.NewBuffer([]byte(s))).Decode(&v) returns a non-nil error
;   exactly when no complete JSON value can be read from s  (assumption A-JSON).
;; type []byte
(declare-fun stringToBytes (String) Seq_Int)
(declare-fun bytesBuffer (Seq_Int) Int)
(declare-fun jsonDecoder (Int) Int)
(declare-fun jsonValid (Int) Bool)
(define-fun jsonTextValid ((s String)) Bool (jsonValid (jsonDecoder (bytesBuffer (stringToBytes s)))))
