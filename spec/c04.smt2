; C04 vocabulary: the assumed contract of encoding/json's streaming decoder.
;   json.NewDecoder(bytes.NewBuffer([]byte(s))).Decode(&v) returns a non-nil error
;   exactly when no complete JSON value can be read from s  (assumption A-JSON).
;; type []byte
(declare-fun stringToBytes (String) Seq_Int)
(declare-fun bytesBuffer (Seq_Int) Int)
(declare-fun jsonDecoder (Int) Int)
(declare-fun jsonValid (Int) Bool)
(define-fun jsonTextValid ((s String)) Bool (jsonValid (jsonDecoder (bytesBuffer (stringToBytes s)))))
; after one value has been decoded, Token() returns io.EOF exactly when only blanks follow: the text is ONE document
(declare-fun jsonAtEnd (Int) Bool)
(define-fun jsonOneDocument ((s String)) Bool (and (jsonTextValid s) (jsonAtEnd (jsonDecoder (bytesBuffer (stringToBytes s))))))
