; C16 vocabulary: build as a function (it is deterministic and pure); its defining equations are the proved postconditions.
(declare-fun buildF (String Any) Any)

; C17 vocabulary: the shape of the value the generated PEG parser hands to build (IRI leaves under AND / OR nodes).
;; istype isPathIRI path.IRI
;; istype isPathAND path.AND
;; istype isPathOR path.OR
(declare-fun wfAst (Any) Bool)
(declare-fun wfAstAll (Seq_Any) Bool)
(assert (forall ((a Any)) (! (= (wfAst a) (or (isPathIRI a) (and (isPathAND a) (wfAstAll (|S_path_AND.body| (unbox_path_AND a)))) (and (isPathOR a) (wfAstAll (|S_path_OR.body| (unbox_path_OR a)))))) :pattern ((wfAst a)))))
(assert (forall ((s Seq_Any) (i Int)) (! (=> (and (wfAstAll s) (<= 0 i) (< i (len_Any s))) (wfAst (at_Any s i))) :pattern ((wfAstAll s) (at_Any s i)))))
; the error ParsePath answers for a string (nil when it is a path), named as a function (A-PURE)
(declare-fun pathErrF (String) Any)
