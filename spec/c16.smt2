; C16 vocabulary: build as a function (it is deterministic and pure); its defining equations are the proved postconditions.
(declare-fun buildF (String Any) Any)
