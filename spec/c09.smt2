; C09 vocabulary: the compiled form of a profile text and the report of a compiled profile as functions of their inputs.
; That compilation is a function of the text up to the numbering of generated identifiers, and that evaluation is a
; function of (compiled profile, data, configuration), are assumptions about OPA (A-OPA5) plus the frame obligations
; frame:*#no-unsynchronised-package-state / #compiled-profile-not-written of this property.
;; type rego.PreparedEvalQuery
;; type config.ReportConfiguration
(declare-fun compiledQuery (String) T_rego_PreparedEvalQuery)
(declare-fun compileErr (String) Any)
(declare-fun libCompiledReport (T_rego_PreparedEvalQuery String Any S_config_ReportConfiguration) String)
(declare-fun libCompiledReportErr (T_rego_PreparedEvalQuery String Any S_config_ReportConfiguration) Any)
