; C07 vocabulary: standard-library functions used when inventing names (assumed behaviour, uninterpreted).
(declare-fun reCompile (String) Int)                 ; regexp.Compile / MustCompile of a constant pattern
(declare-fun reReplaceAll (Int String String) String) ; (*Regexp).ReplaceAllString
(declare-fun strToLower (String) String)
