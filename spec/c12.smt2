; C12 / C15 vocabulary for the YAML wrapper and message parsing.
;; type profile.Message
(declare-fun yamlValueFor (Int Any) Int)             ; node paired with the first key equal to the given key in a mapping node (0 if none)
(declare-fun parseMsg (String) S_profile_Message)    ; ParseMessageExpression as a function of its text (regexp is deterministic)
