; C12 / C15 vocabulary for the YAML wrapper and message parsing.
;; type profile.Message
(declare-fun yamlValueFor (Int Any) Int)             ; node paired with the first key equal to the given key in a mapping node (0 if none)
(declare-fun parseMsg (String) S_profile_Message)    ; ParseMessageExpression as a function of its text (regexp is deterministic)
; level lists: the names of the rules produced for a level are the listed names that are strings and are defined under
; `validations`, in list order (listedDefined is a filter-map over the content sequence, defined by its empty/snoc equations)
;; type []*yaml.Node
;; type yaml.Node
;; type profile.TopLevelExpression
;; type []profile.Rule
;; type []string
;; box string
;; box profile.TopLevelExpression
(declare-fun ruleNames (Seq_Any) Seq_String)
(assert (= (ruleNames empty_Any) empty_String))
(assert (forall ((s Seq_Any) (x Any)) (! (= (ruleNames (snoc_Any s x)) (snoc_String (ruleNames s) (|S_profile_BaseStatement.Name| (|S_profile_Expression.BaseStatement| (|S_profile_TopLevelExpression.Expression| (unbox_profile_TopLevelExpression x)))))) :pattern ((ruleNames (snoc_Any s x))))))
(define-fun listedOk ((n S_yaml_Node) (vref Int)) Bool (and (= (|S_yaml_Node.Kind| n) 8) (= (|S_yaml_Node.Tag| n) "!!str") (not (= (yamlValueFor vref (box_string (|S_yaml_Node.Value| n))) 0))))
(declare-fun listedDefined (Seq_RH_yaml_Node (Array Int S_yaml_Node) Int) Seq_String)
(assert (forall ((h (Array Int S_yaml_Node)) (v Int)) (! (= (listedDefined empty_RH_yaml_Node h v) empty_String) :pattern ((listedDefined empty_RH_yaml_Node h v)))))
(assert (forall ((s Seq_RH_yaml_Node) (n Int) (h (Array Int S_yaml_Node)) (v Int)) (! (= (listedDefined (snoc_RH_yaml_Node s n) h v) (ite (and (not (= n 0)) (listedOk (select h n) v)) (snoc_String (listedDefined s h v) (|S_yaml_Node.Value| (select h n))) (listedDefined s h v))) :pattern ((listedDefined (snoc_RH_yaml_Node s n) h v)))))
