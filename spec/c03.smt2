; C03 vocabulary.
; strings.Title / strings.ToLower on the three level words (assumed behaviour of the standard library on these constants).
(declare-fun strTitle (String) String)
(declare-fun strToLower (String) String)
(assert (= (strTitle "violation") "Violation"))
(assert (= (strTitle "warning") "Warning"))
(assert (= (strTitle "info") "Info"))
(assert (= (strToLower "Violation") "violation"))
(assert (= (strToLower "Warning") "warning"))
(assert (= (strToLower "Info") "info"))
(assert (= (strToLower "violation") "violation"))
(assert (= (strToLower "warning") "warning"))
(assert (= (strToLower "info") "info"))
