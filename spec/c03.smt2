; C03 vocabulary.
; strings.Title / strings.ToLower on the three level words (assumed behaviour of the standard library on these constants).
(declare-fun strTitle (String) String)
(declare-fun strToLower (String) String)
(assert (= (strTitle "violation") "Violation"))
(assert (= (strTitle "warning") "Warning"))
(assert (= (strTitle "info") "Info"))
(assert (= (strToLower "Violation") "violation"))
(assert (= (strToLower "Warning") "warning"))
(assert (= (strToLower "Info") "info"))
(assert (= (strToLower "violation") "violation"))
(assert (= (strToLower "warning") "warning"))
(assert (= (strToLower "info") "info"))
; the creation time a validation configuration answers (A-CONFIG: the same whenever it is asked during one validation),
; and time.Time.Format as an uninterpreted function of (instant, layout)
;; type time.Time
(declare-fun cfgTime (Any) T_time_Time)
(declare-fun timeFormat (T_time_Time String) String)
