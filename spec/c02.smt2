; C02 vocabulary: the number of alternatives (words of the disjunctive normal form) of a property path.
;   a predicate (forward or inverse) is one word; a | b unions the words; a / rest prefixes every word of rest with every word of a.
;; type path.Property
;; type path.AndPath
;; type path.OrPath
;; type path.NullPath
;; type []path.PropertyPath
(declare-fun nalts (Any) Int)
(declare-fun sumAlts (Seq_Any) Int)
(declare-fun andAlts (Seq_Any) Int)
(declare-fun times (Int Int) Int)
(assert (forall ((c Int)) (! (= (times 0 c) 0) :pattern ((times 0 c)))))
(assert (forall ((i Int) (c Int)) (! (=> (>= i 0) (= (times (+ i 1) c) (+ (times i c) c))) :pattern ((times (+ i 1) c)))))
(assert (forall ((i Int) (c Int)) (! (=> (and (>= i 0) (>= c 0)) (>= (times i c) 0)) :pattern ((times i c)))))
(assert (= (sumAlts empty_Any) 0))
(assert (forall ((s Seq_Any) (x Any)) (! (= (sumAlts (snoc_Any s x)) (+ (sumAlts s) (nalts x))) :pattern ((sumAlts (snoc_Any s x))))))
(assert (forall ((a Any)) (! (>= (nalts a) 0) :pattern ((nalts a)))))
(assert (forall ((s Seq_Any)) (! (>= (sumAlts s) 0) :pattern ((sumAlts s)))))
(assert (forall ((s Seq_Any)) (! (>= (andAlts s) 0) :pattern ((andAlts s)))))
(assert (forall ((p S_path_Property)) (! (= (nalts (box_path_Property p)) 1) :pattern ((box_path_Property p)))))
(assert (forall ((p S_path_NullPath)) (! (= (nalts (box_path_NullPath p)) 0) :pattern ((box_path_NullPath p)))))
(assert (forall ((p S_path_OrPath)) (! (= (nalts (box_path_OrPath p)) (sumAlts (|S_path_OrPath.Or| p))) :pattern ((box_path_OrPath p)))))
(assert (forall ((p S_path_AndPath)) (! (= (nalts (box_path_AndPath p)) (andAlts (|S_path_AndPath.And| p))) :pattern ((box_path_AndPath p)))))
(assert (forall ((s Seq_Any)) (! (=> (= (len_Any s) 1) (= (andAlts s) (nalts (at_Any s 0)))) :pattern ((andAlts s)))))
(assert (forall ((s Seq_Any)) (! (=> (> (len_Any s) 1) (= (andAlts s) (times (nalts (at_Any s 0)) (andAlts (sub_Any s 1 (len_Any s)))))) :pattern ((andAlts s)))))
(assert (= (nalts nilAny) 0))
; the set-valued path query (one value per reached node, however many routes lead to it) the generator emits for
; (path, start variable, prefixes): GeneratePropertySet named as a function (A-PURE)
;; type generator.RegoPathResult
(declare-fun propSetF (Any String Int) S_generator_RegoPathResult)
