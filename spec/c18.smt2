; C18 vocabulary. The library's results are treated as functions of the texts it is given (that they are is C06);
; the CLI is judged against these functions: what it prints / writes must be exactly their value.
;; type []byte
(declare-fun bytesToString (Seq_Int) String)
(declare-fun fileBytes (String) Seq_Int)
(declare-fun libReport (String String) String)     ; report returned by the library for (profile text, data text)
(declare-fun libReportErr (String String) Any)     ; its error result
(declare-fun libRegoCode (String) String)          ; Code of the generated policy for a profile text
(declare-fun libRegoErr (String) Any)
(declare-fun libNormalized (String) Any)           ; normalised input for a data text
(declare-fun libNormalizedErr (String) Any)
(declare-fun libEncode (Any) String)               ; validator.Encode
(define-fun fileText ((path String)) String (bytesToString (fileBytes path)))
