/-
  The sequence algebra of govc (govc/term.go, seqAxioms) interpreted over finite lists with integer indices, and its
  axioms proved as theorems. The SMT encoding keeps `len/at/empty/snoc/take/concat/upd/sub/mk` uninterpreted and asserts
  these facts with triggers; this file shows they hold in the intended model, so they cannot be the source of an unsound
  proof (they can only be incomplete). `Z` is the zero value of the element type (`default`).

  Checked with:  lean /verif/lean/SeqAxioms.lean     (Lean 4.33 + Mathlib, offline)
-/
import Mathlib.Tactic

set_option linter.unusedSectionVars false
set_option linter.unusedVariables false
set_option linter.unusedSimpArgs false
set_option linter.deprecated false

namespace Govc

variable {α : Type} [Inhabited α]

def len (s : List α) : Int := s.length
def at' (s : List α) (i : Int) : α := if 0 ≤ i then s.getD i.toNat default else default
def empty : List α := []
def snoc (s : List α) (x : α) : List α := s ++ [x]
def take (s : List α) (i : Int) : List α := s.take i.toNat
def concat (a b : List α) : List α := a ++ b
def upd (s : List α) (i : Int) (x : α) : List α := if 0 ≤ i then s.set i.toNat x else s
def sub (s : List α) (a b : Int) : List α := (s.drop a.toNat).take (b - a).toNat
def mk (n : Int) : List α := List.replicate n.toNat default

theorem len_nonneg (s : List α) : 0 ≤ len s := by simp [len]

theorem len_empty : len (empty : List α) = 0 := by simp [len, empty]

theorem len_zero_empty (s : List α) (h : len s = 0) : s = empty := by
  simp [len] at h; simp [empty, h]

theorem len_snoc (s : List α) (x : α) : len (snoc s x) = len s + 1 := by simp [len, snoc]

theorem at_snoc_last (s : List α) (x : α) : at' (snoc s x) (len s) = x := by
  simp [at', snoc, len, List.getD_eq_getElem?_getD]

theorem at_snoc_before (s : List α) (x : α) (i : Int) (h0 : 0 ≤ i) (h1 : i < len s) :
    at' (snoc s x) i = at' s i := by
  simp only [at', snoc, len] at *
  have hi : i.toNat < s.length := by omega
  simp [h0, List.getD_eq_getElem?_getD, List.getElem?_append_left hi]

theorem take_zero (s : List α) : take s 0 = empty := by simp [take, empty]

theorem take_len (s : List α) : take s (len s) = s := by simp [take, len]

theorem len_take (s : List α) (i : Int) (h0 : 0 ≤ i) (h1 : i ≤ len s) : len (take s i) = i := by
  simp only [take, len] at *
  simp [List.length_take]; omega

theorem at_take (s : List α) (i j : Int) (h0 : 0 ≤ j) (h1 : j < i) (h2 : i ≤ len s) :
    at' (take s i) j = at' s j := by
  simp only [at', take, len] at *
  have hj : j.toNat < i.toNat := by omega
  simp [h0, List.getD_eq_getElem?_getD, List.getElem?_take, hj]

theorem take_succ (s : List α) (i : Int) (h0 : 0 ≤ i) (h1 : i < len s) :
    take s (i + 1) = snoc (take s i) (at' s i) := by
  simp only [at', take, len, snoc] at *
  have hi : i.toNat < s.length := by omega
  have : (i + 1).toNat = i.toNat + 1 := by omega
  rw [this, List.take_succ]
  simp [h0, List.getD_eq_getElem?_getD, List.getElem?_eq_getElem hi]

theorem len_concat (a b : List α) : len (concat a b) = len a + len b := by simp [len, concat]

theorem at_concat (a b : List α) (i : Int) (h0 : 0 ≤ i) (h1 : i < len a + len b) :
    at' (concat a b) i = if i < len a then at' a i else at' b (i - len a) := by
  simp only [at', concat, len] at *
  by_cases h : i < (a.length : Int)
  · have hi : i.toNat < a.length := by omega
    simp [h0, h, List.getD_eq_getElem?_getD, List.getElem?_append_left hi]
  · have hi : a.length ≤ i.toNat := by omega
    have h2 : (0 : Int) ≤ i - a.length := by omega
    have h3 : (i - (a.length : Int)).toNat = i.toNat - a.length := by omega
    simp [h0, h, h2, h3, List.getD_eq_getElem?_getD, List.getElem?_append_right hi]

theorem concat_empty (a : List α) : concat a empty = a := by simp [concat, empty]

theorem empty_concat (a : List α) : concat empty a = a := by simp [concat, empty]

theorem concat_snoc (a b : List α) (x : α) : concat a (snoc b x) = snoc (concat a b) x := by
  simp [concat, snoc]

theorem len_upd (s : List α) (i : Int) (x : α) : len (upd s i x) = len s := by
  simp only [upd, len]; split <;> simp

theorem at_upd (s : List α) (i : Int) (x : α) (j : Int) (h0 : 0 ≤ j) (h1 : j < len s) :
    at' (upd s i x) j = if i = j then x else at' s j := by
  simp only [at', upd, len] at *
  have hj : j.toNat < s.length := by omega
  by_cases hi : 0 ≤ i
  · by_cases e : i = j
    · subst e
      simp [hi, List.getD_eq_getElem?_getD, List.getElem?_set, hj]
    · have ne : i.toNat ≠ j.toNat := by omega
      simp [hi, h0, e, List.getD_eq_getElem?_getD, List.getElem?_set, ne]
  · have e : i ≠ j := by omega
    simp [hi, h0, e]

theorem take_upd_succ (s : List α) (i : Int) (x : α) (h0 : 0 ≤ i) (h1 : i < len s) :
    take (upd s i x) (i + 1) = snoc (take s i) x := by
  simp only [take, upd, len, snoc] at *
  have hi : i.toNat < s.length := by omega
  have : (i + 1).toNat = i.toNat + 1 := by omega
  rw [this]
  simp only [h0, if_true]
  rw [List.take_succ]
  simp [List.take_set_of_le, List.getElem?_set, hi]

theorem take_upd_before (s : List α) (i : Int) (x : α) (k : Int) (h0 : 0 ≤ k) (h1 : k ≤ i) :
    take (upd s i x) k = take s k := by
  simp only [take, upd] at *
  have hi : 0 ≤ i := by omega
  have hk : k.toNat ≤ i.toNat := by omega
  simp [hi, List.take_set_of_le hk]

theorem len_sub (s : List α) (a b : Int) (h0 : 0 ≤ a) (h1 : a ≤ b) (h2 : b ≤ len s) :
    len (sub s a b) = b - a := by
  simp only [sub, len] at *
  simp [List.length_take, List.length_drop]; omega

theorem at_sub (s : List α) (a b k : Int) (h0 : 0 ≤ a) (h1 : a ≤ b) (h2 : b ≤ len s) (h3 : 0 ≤ k)
    (h4 : k < b - a) : at' (sub s a b) k = at' s (a + k) := by
  simp only [at', sub, len] at *
  have hk : k.toNat < (b - a).toNat := by omega
  have hak : (0 : Int) ≤ a + k := by omega
  have e : (a + k).toNat = a.toNat + k.toNat := by omega
  simp [h3, hak, e, List.getD_eq_getElem?_getD, List.getElem?_take, hk, List.getElem?_drop]

theorem sub_all (s : List α) : sub s 0 (len s) = s := by simp [sub, len]

theorem len_mk (n : Int) (h : 0 ≤ n) : len (mk n : List α) = n := by
  simp [len, mk]; omega

theorem at_mk (n i : Int) (h0 : 0 ≤ i) (h1 : i < n) : at' (mk n : List α) i = default := by
  simp only [at', mk]
  have hi : i.toNat < n.toNat := by omega
  simp [h0, List.getD_eq_getElem?_getD, List.getElem?_replicate, hi]

end Govc

/-
  Folds. The preludes (spec/*.smt2) introduce folds such as allFail / allHold / allOk by their two defining equations over
  `empty` and `snoc`, and additionally assert three consequences that need induction (which the SMT solvers do not do):
  the fold over a concatenation, the instance at an element, and the disjunctive dual. Any function satisfying the two
  defining equations has these properties:
-/
namespace Govc

variable {α : Type} [Inhabited α]

theorem fold_and_concat (f : List α → Bool) (p : α → Bool) (h0 : f empty = true)
    (hs : ∀ s x, f (snoc s x) = (f s && p x)) (a b : List α) : f (concat a b) = (f a && f b) := by
  induction b using List.reverseRecOn with
  | nil => simp [concat, empty] at *; simp [h0]
  | append_singleton b x ih =>
    have e : concat a (b ++ [x]) = snoc (concat a b) x := by simp [concat, snoc]
    have e2 : b ++ [x] = snoc b x := rfl
    rw [e, hs, ih, e2, hs, Bool.and_assoc]

theorem fold_and_elem (f : List α → Bool) (p : α → Bool)
    (hs : ∀ s x, f (snoc s x) = (f s && p x)) (s : List α) (hf : f s = true) (i : Int) (h0 : 0 ≤ i)
    (h1 : i < len s) : p (at' s i) = true := by
  induction s using List.reverseRecOn with
  | nil => simp [len] at h1; omega
  | append_singleton s x ih =>
    have e2 : s ++ [x] = snoc s x := rfl
    rw [e2, hs] at hf
    simp only [Bool.and_eq_true] at hf
    by_cases hl : i < len s
    · rw [e2, at_snoc_before s x i h0 hl]; exact ih hf.1 hl
    · have : i = len s := by
        have hl2 := len_snoc s x
        rw [e2] at h1
        omega
      rw [e2, this, at_snoc_last]; exact hf.2

theorem fold_or_concat (f : List α → Bool) (p : α → Bool) (h0 : f empty = false)
    (hs : ∀ s x, f (snoc s x) = (f s || p x)) (a b : List α) : f (concat a b) = (f a || f b) := by
  induction b using List.reverseRecOn with
  | nil => simp [concat, empty] at *; simp [h0]
  | append_singleton b x ih =>
    have e : concat a (b ++ [x]) = snoc (concat a b) x := by simp [concat, snoc]
    have e2 : b ++ [x] = snoc b x := rfl
    rw [e, hs, ih, e2, hs, Bool.or_assoc]

end Govc
