#!/bin/bash
# Checks that the 25 sequence axioms of govc/term.go hold for finite lists (Lean 4 + Mathlib, offline). Exit 0 = all proved.
cd "$(dirname "$0")"
if grep -n "sorry\|admit\|axiom " SeqAxioms.lean; then echo "ERROR: unproved statement in SeqAxioms.lean"; exit 1; fi
OUT=$(lean SeqAxioms.lean 2>&1); RC=$?
echo "$OUT" | grep -E "error|sorry" && exit 1
[ $RC -eq 0 ] && echo "SeqAxioms.lean: $(grep -c '^theorem' SeqAxioms.lean) theorems checked by $(lean --version | head -1)"
exit $RC
