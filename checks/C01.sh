#!/bin/bash
# C01 = (a) SMT / ownership / door obligations (govc): the propositional skeleton proved for all formulas + (b) a bounded stand-in
# for what the contracts assume, the meaning of the emitted Rego: formulas over three atoms built with not / and / or / if-then /
# if-then-else up to depth two, validated against the eight nodes realising every truth assignment, must report exactly the
# nodes on which the classical reading is false. (b) is labelled bounded and never counted as proved.
cd "$(dirname "$0")/.."
TIER=${1:-quick}
OUT=/verif/out; [ -n "${GOVC_REPO:-}" ] && OUT="$GOVC_REPO.out"; mkdir -p "$OUT"; export OUT
STRIDE=40; [ "$TIER" = thorough ] && STRIDE=3
START=$(date +%s.%N)
bin/govc check -prop C01 -tier "$TIER" > $OUT/c01_govc.log 2>&1; RC=$?
grep -E '^(VIOLATION|KNOWN-FINDING|ERROR|OBLIGATION|SUMMARY|NOTE|UNDECIDED)' $OUT/c01_govc.log
mkdir -p $OUT/replay/C01
rm -f $OUT/c01_bounded.json
C01_STRIDE=$STRIDE C01_OUT=$OUT/c01_bounded.json replay/overlay_test.sh internal/validator findings/C01/truth_table_test.go TestReplayC01TruthTables -v > $OUT/c01_bounded.log 2>&1; TRC=$?
replay/overlay_test.sh internal/validator findings/C01/atom_kinds_test.go TestReplayC01AtomKinds -v > $OUT/c01_kinds.log 2>&1; KRC=$?
export KRC
python3 - "$TIER" "$RC" "$TRC" "$START" <<'PY'
import json, sys, time, os, re
tier, rc, trc, start = sys.argv[1], int(sys.argv[2]), int(sys.argv[3]), float(sys.argv[4])
OUT = os.environ['OUT']
ev = json.load(open('evidence/C01.json')) if os.path.exists('evidence/C01.json') else {"property_id":"C01","tier":tier,"seed":0,"coverage":{}}
known = {}
for l in open('known_findings.txt'):
    m = re.match(r'finding: property=C01 obligation=bounded:generator.Dispatch#truth-tables/(\S+)\s+(?:witness=\S+\s+)?(.*)', l)
    if m: known[m.group(1)] = m.group(2)
viol = 0; rcx = 0; b = None
if not os.path.exists(OUT + '/c01_bounded.json'):
    print("ERROR bounded stand-in did not run (see out/c01_bounded.log)")
    rcx = 2
else:
    b = json.load(open(OUT + '/c01_bounded.json'))
    bad = {"classical-reading": b['disagreements']} if b['disagreements'] else {}
    if bad:
        path = os.path.abspath(OUT + '/replay/C01/bounded_path-denotation.json')
        json.dump({"property":"C01","obligation":"bounded:generator.Dispatch#truth-tables","kind":"bounded","formulas":b['formulas'],
                   "differences_by_class":bad,"failing_inputs":b.get('examples'),
                   "replay":{"attempted":True,"confirmed":True,"how":"each entry is a formula and a node (which of ex.a, ex.b, ex.c it has) on which the real validator (go test -overlay, findings/C01/truth_table_test.go) reports differently from the classical reading"}}, open(path,'w'), indent=1)
        print(f"VIOLATION property=C01 replay={path}")
        viol = 1
klog = open(OUT + '/c01_kinds.log').read() if os.path.exists(OUT + '/c01_kinds.log') else ''
kfails = [re.sub(r'^\s*zz_replay_test.go:\d+:\s*', '', l) for l in klog.split('\n') if 'C01 violated:' in l]
kran = re.search(r'^(ok|FAIL|--- (PASS|FAIL))', klog, re.M) is not None
if not kran:
    print("ERROR the atom-kinds suite did not run (see out/c01_kinds.log)"); rcx = 2
elif kfails:
    path = os.path.abspath(OUT + '/replay/C01/witness_atom_kinds.json')
    json.dump({"property":"C01","obligation":"witness:atom_kinds_test.go","kind":"witness","failing_inputs":kfails[:60],
               "replay":{"attempted":True,"confirmed":True,"how":"each entry is a constraint kind, a formula around it and the nodes the working tree reports (go test -overlay, findings/C01/atom_kinds_test.go)"}}, open(path,'w'), indent=1)
    print(f"VIOLATION property=C01 replay={path}")
    viol = 1
elif int(os.environ.get('KRC','0')) != 0:
    print("ERROR the atom-kinds suite failed without naming a violation (see out/c01_kinds.log)"); rcx = 2
cov = ev.get('coverage', {})
cov['atom_kinds_suite'] = {"what":"every constraint kind (27 rows) as the atom of nine formulas (k, not k, not not k, if k then never, if-then-else, or, and, if always then k, not and) on a node where it holds and one where it fails; reported nodes = nodes where the classical reading is false","ran":kran,"failures":len(kfails),"label":"bounded witness search - never counted as proved"}
cov['bounded'] = None if b is None else {"what":"real validator vs classical truth tables: formulas over three atoms (minCount 1 on ex.a/ex.b/ex.c) with not/and/or/if-then/if-then-else up to depth two, on the eight nodes realising every assignment","formulas":b['formulas'],"of_all_formulas_up_to_depth_two":b['of'],
    "node_checks":b['node_checks'],"disagreements":b['disagreements'],"exhaustive_within_bound":b['formulas']==b['of'],"label":"bounded - never counted as proved"}
cov['explanation'] = "proof part: %s of %s obligations (SMT, ownership, door) discharged, with the recorded finding on the assumed leaf clauses; bounded part (labelled bounded): sampled formulas up to depth two agree with their classical truth tables on all eight assignments" % (cov.get('discharged'), cov.get('obligations'))
ev['coverage'] = cov
ev['level'] = 'other'
ev['tier'] = tier
ev['violations'] = int(ev.get('violations', 0)) + viol
ev['wall_s'] = time.time() - start
ev.setdefault('seed', 0); ev.setdefault('property_id', 'C01')
if not os.environ.get('GOVC_REPO'): json.dump(ev, open('evidence/C01.json','w'), indent=1)
sys.exit(1 if (rc == 1 or viol) else (2 if (rc == 2 or rcx == 2) else 0))
PY
