#!/bin/bash
# C17 = (a) the safety sweep: every panic site, nil dereference, index, type assertion, division, channel operation and
# callee precondition in the functions a public entry point reaches without passing a recovering frame is an SMT
# obligation (govc), plus (b) witness search: the panic corpus through the real entry points. (b) decides nothing on its
# own except that a panic it provokes is a violation with a concrete input.
cd "$(dirname "$0")/.."
TIER=${1:-quick}
OUT=/verif/out; [ -n "${GOVC_REPO:-}" ] && OUT="$GOVC_REPO.out"; mkdir -p "$OUT"; export OUT
BUDGET=250; [ "$TIER" = thorough ] && BUDGET=6000
START=$(date +%s.%N)
mkdir -p $OUT/replay/C17
bin/govc check -prop C17 -tier "$TIER" > $OUT/c17_govc.log 2>&1; RC=$?
grep -E '^(VIOLATION|KNOWN-FINDING|ERROR|OBLIGATION|SUMMARY)' $OUT/c17_govc.log
rm -f $OUT/c17_corpus.json
C17_BUDGET=$BUDGET C17_OUT=$OUT/c17_corpus.json replay/overlay_test.sh pkg findings/C17/panic_corpus_test.go TestCorpusC17 -v -timeout 1200s > $OUT/c17_corpus.log 2>&1; TRC=$?
python3 - "$TIER" "$RC" "$TRC" "$START" <<'PY'
import json, sys, time, os, re
tier, rc, trc, start = sys.argv[1], int(sys.argv[2]), int(sys.argv[3]), float(sys.argv[4])
ev = json.load(open('evidence/C17.json')) if os.path.exists('evidence/C17.json') else {"property_id":"C17","tier":tier,"seed":0,"coverage":{}}
known = {}
for l in open('known_findings.txt'):
    m = re.match(r'finding: property=C17 obligation=corpus:panic/(\S+)\s+(.*)', l)
    if m: known[m.group(1)] = m.group(2)
viol = 0; rcx = 0; c = None
log = open(os.environ['OUT']+'/c17_corpus.log').read() if os.path.exists(os.environ['OUT']+'/c17_corpus.log') else ''
crash = [l for l in log.split('\n') if l.startswith('panic:') or l.startswith('fatal error:')]
path = os.path.abspath(os.environ['OUT']+'/replay/C17/corpus_panic.json')
if os.path.exists(os.environ['OUT']+'/c17_corpus.json') and not crash:
    c = json.load(open(os.environ['OUT']+'/c17_corpus.json'))
    sigs = c.get('panic_signatures') or {}
    new = {}
    for s, inputs in sigs.items():
        key = re.sub(r'\W+', '_', s)[:80]
        if key in known:
            print(f"KNOWN-FINDING: property=C17 corpus:panic/{key} {known[key]}")
        else:
            new[s] = inputs
    if new:
        json.dump({"property":"C17","obligation":"corpus:panic","kind":"witness","panic_signatures":new,
                   "replay":{"attempted":True,"confirmed":True,"how":"each entry is a panic (innermost repository frame: message class) with the entry point and input label that provoked it on the working tree (go test -overlay, findings/C17/panic_corpus_test.go)"}}, open(path,'w'), indent=1)
        print(f"VIOLATION property=C17 replay={path}")
        viol = 1
elif crash:
    json.dump({"property":"C17","obligation":"corpus:process-crash","kind":"witness","crash":crash[:5],"log_tail":log[-4000:],
               "replay":{"attempted":True,"confirmed":True,"how":"the test process running the entry points died with a panic outside the calling goroutine"}}, open(path,'w'), indent=1)
    print(f"VIOLATION property=C17 replay={path}")
    viol = 1
else:
    print("ERROR panic corpus did not run (see out/c17_corpus.log)")
    rcx = 2
cov = ev.get('coverage', {})
cov['witness_corpus'] = None if c is None else {"what":"mutated fixtures and raw documents through Validate / CompileProfile+ValidateCompiled / GenerateRego / NormalizeInput; a recovered panic is a violation","inputs":c['inputs'],"seed":c['seed'],"distinct_panic_signatures":len(c.get('panic_signatures') or {}),"label":"witness search - never counted as proved"}
cov['explanation'] = "sweep: %s of %s safety / precondition obligations over the %s functions exposed to the public entry points discharged by SMT; functions behind a recovering frame (the generator under generate(), input processing under ProcessInput) and the dependencies are not swept: their panics are converted to errors by the recover, which is itself under contract; witness corpus labelled as such" % (cov.get('discharged'), cov.get('obligations'), cov.get('functions_under_contract', '?') if not isinstance(cov.get('functions_under_contract'), list) else len(cov.get('functions_under_contract')))
ev['coverage'] = cov
ev['level'] = 'other'
ev['tier'] = tier
ev['violations'] = int(ev.get('violations', 0)) + viol
ev['wall_s'] = time.time() - start
ev.setdefault('seed', 0); ev.setdefault('property_id', 'C17')
if not os.environ.get('GOVC_REPO'): json.dump(ev, open('evidence/C17.json','w'), indent=1)
sys.exit(1 if (rc == 1 or viol) else (2 if (rc == 2 or rcx == 2) else 0))
PY
