#!/bin/bash
# C02 = (a) SMT / ownership obligations on the traversal code (govc) + (b) a bounded stand-in for what no contract here can
# express, the meaning of the emitted Rego: every path of at most three steps over p, q, r, p^, q^ with / and | is evaluated
# on a small graph by an independent evaluator of the documented meaning and compared with what the real validator counts.
# (b) is labelled bounded and never counted as proved; a disagreement is a concrete path and focus node.
cd "$(dirname "$0")/.."
TIER=${1:-quick}
OUT=/verif/out; [ -n "${GOVC_REPO:-}" ] && OUT="$GOVC_REPO.out"; mkdir -p "$OUT"; export OUT
STRIDE=4; [ "$TIER" = thorough ] && STRIDE=1
START=$(date +%s.%N)
bin/govc check -prop C02 -tier "$TIER" > $OUT/c02_govc.log 2>&1; RC=$?
grep -E '^(VIOLATION|KNOWN-FINDING|ERROR|OBLIGATION|SUMMARY|NOTE|UNDECIDED)' $OUT/c02_govc.log
mkdir -p $OUT/replay/C02
rm -f $OUT/c02_bounded.json
C02_STRIDE=$STRIDE C02_OUT=$OUT/c02_bounded.json replay/overlay_test.sh internal/validator findings/C02/path_denotation_test.go TestReplayC02PathDenotation -v > $OUT/c02_bounded.log 2>&1; TRC=$?
replay/overlay_test.sh internal/validator findings/C02/path_denotation_test.go TestReplayC02ValueKinds -v > $OUT/c02_kinds.log 2>&1; KRC=$?
export KRC
python3 - "$TIER" "$RC" "$TRC" "$START" <<'PY'
import json, sys, time, os, re
tier, rc, trc, start = sys.argv[1], int(sys.argv[2]), int(sys.argv[3]), float(sys.argv[4])
OUT = os.environ['OUT']
ev = json.load(open('evidence/C02.json')) if os.path.exists('evidence/C02.json') else {"property_id":"C02","tier":tier,"seed":0,"coverage":{}}
known = {}
for l in open('known_findings.txt'):
    m = re.match(r'finding: property=C02 obligation=bounded:generator.GeneratePropertySet#path-denotation/(\S+)\s+(?:witness=\S+\s+)?(.*)', l)
    if m: known[m.group(1)] = m.group(2)
viol = 0; rcx = 0; b = None
if not os.path.exists(OUT + '/c02_bounded.json'):
    print("ERROR bounded stand-in did not run (see out/c02_bounded.log)")
    rcx = 2
else:
    b = json.load(open(OUT + '/c02_bounded.json'))
    bad = {c: n for c, n in (b.get('differences_by_class') or {}).items() if c not in known}
    for c, n in (b.get('differences_by_class') or {}).items():
        if c in known:
            ex = (b.get('examples') or {}).get(c, [''])[0]
            print(f"KNOWN-FINDING: property=C02 bounded:generator.GeneratePropertySet#path-denotation/{c} {n} of {b['constraints_checked']} counting constraints over {b['paths']} paths of at most three steps, e.g. {ex}")
    if bad:
        path = os.path.abspath(OUT + '/replay/C02/bounded_path-denotation.json')
        json.dump({"property":"C02","obligation":"bounded:generator.GeneratePropertySet#path-denotation","kind":"bounded","paths":b['paths'],
                   "differences_by_class":bad,"failing_inputs":{c:(b.get('examples') or {}).get(c, []) for c in bad},
                   "replay":{"attempted":True,"confirmed":True,"how":"each entry is a path, a focus node of the fixed graph in findings/C02/path_denotation_test.go and the number of values the documented meaning gives; the real validator (go test -overlay) counts differently"}}, open(path,'w'), indent=1)
        print(f"VIOLATION property=C02 replay={path}")
        viol = 1
klog = open(OUT + '/c02_kinds.log').read() if os.path.exists(OUT + '/c02_kinds.log') else ''
kfails = [re.sub(r'^\s*zz_replay_test.go:\d+:\s*', '', l) for l in klog.split('\n') if 'C02 violated:' in l]
kran = re.search(r'^(ok|FAIL|--- (PASS|FAIL))', klog, re.M) is not None
if not kran:
    print("ERROR the value-kinds suite did not run (see out/c02_kinds.log)"); rcx = 2
elif kfails:
    path = os.path.abspath(OUT + '/replay/C02/witness_value_kinds.json')
    json.dump({"property":"C02","obligation":"witness:path_denotation_test.go/TestReplayC02ValueKinds","kind":"witness","failing_inputs":kfails[:60],
               "replay":{"attempted":True,"confirmed":True,"how":"each entry is a path, a focus node and a value constraint on which the working tree (go test -overlay) disagrees with the denotation of the path"}}, open(path,'w'), indent=1)
    print(f"VIOLATION property=C02 replay={path}")
    viol = 1
elif int(os.environ.get('KRC','0')) != 0:
    print("ERROR the value-kinds suite failed without naming a violation (see out/c02_kinds.log)"); rcx = 2
cov = ev.get('coverage', {})
cov['value_kinds_suite'] = {"what":"containsAll / containsSome / in / exactCount with value lists derived from the denotation, on the 55 paths of one and two steps from three focus nodes, and two containsSome constraints on different paths under one or","ran":kran,"failures":len(kfails),"label":"bounded witness search - never counted as proved"}
cov['bounded'] = None if b is None else {"what":"real validator vs independent evaluator of path denotation (composition, union, converse; one value per reached node) through minCount/maxCount on three focus nodes of a 7-node graph","paths":b['paths'],"of_all_paths_up_to_three_steps":b['of'],
    "constraints_checked":b['constraints_checked'],"disagreements":b['disagreements'],"differences_by_class":b.get('differences_by_class'),"exhaustive_within_bound":b['paths']==b['of'],"label":"bounded - never counted as proved"}
cov['explanation'] = "proof part: %s of %s obligations (SMT + ownership analysis) on the traversal code discharged; bounded part (labelled bounded): the meaning of the emitted Rego is compared with the documented path semantics on every sampled path of at most three steps" % (cov.get('discharged'), cov.get('obligations'))
ev['coverage'] = cov
ev['level'] = 'other'
ev['tier'] = tier
ev['violations'] = int(ev.get('violations', 0)) + viol
ev['wall_s'] = time.time() - start
ev.setdefault('seed', 0); ev.setdefault('property_id', 'C02')
if not os.environ.get('GOVC_REPO'): json.dump(ev, open('evidence/C02.json','w'), indent=1)
sys.exit(1 if (rc == 1 or viol) else (2 if (rc == 2 or rcx == 2) else 0))
PY
