#!/bin/bash
# C16 = (a) SMT-discharged contracts on build / ParsePath (govc) + (b) bounded stand-in for the generated PEG engine:
# every token string up to the bound, real ParsePath against an independent recogniser of the documented grammar.
cd "$(dirname "$0")/.."
TIER=${1:-quick}
OUT=/verif/out; [ -n "${GOVC_REPO:-}" ] && OUT="$GOVC_REPO.out"; mkdir -p "$OUT"; export OUT
BOUND=5; [ "$TIER" = thorough ] && BOUND=6
START=$(date +%s.%N)
bin/govc check -prop C16 -tier "$TIER" > $OUT/c16_govc.log 2>&1; RC=$?
grep -E '^(VIOLATION|KNOWN-FINDING|ERROR|OBLIGATION|SUMMARY)' $OUT/c16_govc.log
mkdir -p $OUT/replay/C16
C16_BOUND=$BOUND C16_OUT=$OUT/c16_bounded.json replay/overlay_test.sh internal/parser/path bounded/c16_bounded_test.go TestBoundedC16 -v > $OUT/c16_bounded.log 2>&1; TRC=$?
python3 - "$TIER" "$RC" "$TRC" "$START" <<'PY'
import json, sys, time, os, re
tier, rc, trc, start = sys.argv[1], int(sys.argv[2]), int(sys.argv[3]), float(sys.argv[4])
ev = json.load(open('evidence/C16.json')) if os.path.exists('evidence/C16.json') else {"property_id":"C16","tier":tier,"seed":0,"coverage":{}}
known = set()
for l in open('known_findings.txt'):
    m = re.match(r'finding: property=C16 obligation=bounded:path.ParsePath#agrees-with-grammar/(\S+)', l)
    if m: known.add(m.group(1))
viol = 0
if trc != 0 or not os.path.exists(os.environ['OUT']+'/c16_bounded.json'):
    b = None
    print("ERROR bounded stand-in did not run (see out/c16_bounded.log)")
    rcx = 2
else:
    b = json.load(open(os.environ['OUT']+'/c16_bounded.json'))
    bad = {c: n for c, n in b['differences_by_class'].items() if c not in known}
    for c, n in b['differences_by_class'].items():
        if c in known:
            print(f"KNOWN-FINDING: property=C16 bounded:path.ParsePath#agrees-with-grammar/{c} {n} of {b['strings']} strings up to {b['bound']} tokens, e.g. {b['examples'][c][0]}")
    if bad:
        path = os.path.abspath(os.environ['OUT']+'/replay/C16/bounded_path.ParsePath_agrees-with-grammar.json')
        fails = [d for d in b.get('all_differences', []) if d.split('\t')[0] in bad][:200]
        json.dump({"property":"C16","obligation":"bounded:path.ParsePath#agrees-with-grammar","kind":"bounded","bound_tokens":b['bound'],
                   "differences_by_class":bad,"failing_inputs":fails,"examples":{c:b['examples'][c] for c in bad},
                   "replay":{"attempted":True,"confirmed":True,"how":"each failing input is a concrete string on which the real ParsePath (run through go test -overlay) disagrees with the grammar recogniser"}}, open(path,'w'), indent=1)
        print(f"VIOLATION property=C16 replay={path}")
        viol = 1
    rcx = 0
cov = ev.get('coverage', {})
cov['bounded'] = None if b is None else {"what":"real ParsePath vs independent recogniser of the documented grammar (whole input, structure)","bound_tokens":b['bound'],"alphabet":b['tokens'],
    "strings":b['strings'],"sentences":b['sentences'],"agree":b['agree'],"differences_by_class":b['differences_by_class'],"exhaustive_within_bound":True,"size_ladder":"beyond the token bound, sampled: sequences and alternatives of 1..512 steps, nesting 1..256 deep, names of 8..4096 characters","label":"bounded - never counted as proved"}
cov['explanation'] = "proof part: %s of %s SMT obligations on build/ParsePath discharged; bounded part (labelled bounded): the generated PEG interpreter (peg.go) is outside the verifiable subset and is compared with the grammar on every token string up to the bound" % (cov.get('discharged'), cov.get('obligations'))
cov['samples'] = (cov.get('samples') or []) + ([] if b is None else [{"bounded_examples": b['examples']}])
ev['coverage'] = cov
ev['level'] = 'other'
ev['tier'] = tier
ev['violations'] = int(ev.get('violations', 0)) + viol
ev['wall_s'] = time.time() - start
ev.setdefault('seed', 0); ev.setdefault('property_id', 'C16')
if not os.environ.get('GOVC_REPO'): json.dump(ev, open('evidence/C16.json','w'), indent=1)
sys.exit(1 if (rc == 1 or viol) else (2 if (rc == 2 or rcx == 2) else 0))
PY
