#!/bin/bash
# usage: with_witness.sh <property> <tier> <package dir> <witness test file> <run pattern> <what the witness suite does>
# The property's obligations (govc) plus a witness suite run against the real code (go test -overlay). The witness suite is
# bounded and labelled so: it decides nothing by itself, but a failure it reports is a concrete input on which the working tree
# violates the property, hence a VIOLATION with a replayed input.
cd "$(dirname "$0")/.."
PROP=$1; TIER=$2; PKG=$3; TESTFILE=$4; RUN=$5; WHAT=$6
OUT=/verif/out; [ -n "${GOVC_REPO:-}" ] && OUT="$GOVC_REPO.out"; mkdir -p "$OUT/replay/$PROP"; export OUT
START=$(date +%s.%N)
bin/govc check -prop "$PROP" -tier "$TIER" > "$OUT/${PROP}_govc.log" 2>&1; RC=$?
grep -E '^(VIOLATION|KNOWN-FINDING|ERROR|OBLIGATION|SUMMARY|NOTE|UNDECIDED)' "$OUT/${PROP}_govc.log"
replay/overlay_test.sh "$PKG" "$TESTFILE" "$RUN" -v > "$OUT/${PROP}_witness.log" 2>&1; TRC=$?
python3 - "$PROP" "$TIER" "$RC" "$TRC" "$START" "$WHAT" "$TESTFILE" <<'PY'
import json, sys, time, os, re
prop, tier, rc, trc, start, what, testfile = sys.argv[1], sys.argv[2], int(sys.argv[3]), int(sys.argv[4]), float(sys.argv[5]), sys.argv[6], sys.argv[7]
OUT = os.environ['OUT']
log = open(f'{OUT}/{prop}_witness.log').read()
ran = re.search(r'^(ok|FAIL|--- (PASS|FAIL))', log, re.M) is not None
fails = [re.sub(r'^\s*zz_replay_test.go:\d+:\s*', '', l) for l in log.split('\n') if f'{prop} violated:' in l]
viol = 0; rcx = 0
if not ran:
    print(f"ERROR witness suite did not run (see out/{prop}_witness.log)"); rcx = 2
elif not fails and trc != 0 and re.search(r'^(fatal error:|panic:)', log, re.M):
    # the suite crashed (a data race the runtime detects, a panic outside the suite's own recover): the crash is the witness
    crash = [l for l in log.split('\n') if re.match(r'^(fatal error:|panic:|goroutine \d+ \[running\]|\t/|[\w./()*]+\(.*\)$)', l)][:25]
    path = os.path.abspath(f'{OUT}/replay/{prop}/witness_suite.json')
    json.dump({"property":prop,"obligation":"witness:"+os.path.basename(testfile),"kind":"witness","failing_inputs":["the witness suite crashed: "+crash[0]] if crash else ["the witness suite crashed"],
               "crash":crash,"replay":{"attempted":True,"confirmed":True,"how":"go test -overlay of "+testfile+" on the working tree ends in a runtime crash"}}, open(path,'w'), indent=1)
    print(f"VIOLATION property={prop} replay={path}")
    viol = 1
elif not fails and trc != 0:
    print(f"ERROR witness suite failed without naming a violation (see out/{prop}_witness.log)"); rcx = 2
elif fails:
    path = os.path.abspath(f'{OUT}/replay/{prop}/witness_suite.json')
    json.dump({"property":prop,"obligation":"witness:"+os.path.basename(testfile),"kind":"witness","failing_inputs":fails[:50],
               "replay":{"attempted":True,"confirmed":True,"how":"each entry is a concrete input on which the working tree (go test -overlay, "+testfile+") violates the property"}}, open(path,'w'), indent=1)
    print(f"VIOLATION property={prop} replay={path}")
    viol = 1
evf = f'evidence/{prop}.json'
ev = json.load(open(evf)) if os.path.exists(evf) else {"property_id":prop,"tier":tier,"seed":0,"coverage":{}}
cov = ev.get('coverage', {})
m = re.search(r'--- (PASS|FAIL): (\S+) \(([\d.]+)s\)', log)
cov['witness_suite'] = {"what": what, "test": testfile, "ran": ran, "failures": len(fails), "seconds": float(m.group(3)) if m else None, "label": "bounded witness search - never counted as proved"}
ev['coverage'] = cov
ev['tier'] = tier
ev['violations'] = int(ev.get('violations', 0)) + viol
ev['wall_s'] = time.time() - start
if not os.environ.get('GOVC_REPO'): json.dump(ev, open(evf,'w'), indent=1)
sys.exit(1 if (rc == 1 or viol) else (2 if (rc == 2 or rcx == 2) else 0))
PY
