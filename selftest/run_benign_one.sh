#!/bin/bash
# usage: run_benign_one.sh <diff under selftest/benign> [props...]  -- one harmless edit on a scratch worktree; every check must stay silent
cd /verif
d=$1; shift
PROPS=${*:-C01 C02 C03 C04 C06 C07 C08 C09 C10 C11 C12 C13 C14 C15 C16 C17 C18}
WT=$(mktemp -d /tmp/acv-benign.XXXXXX); rmdir "$WT"
git -C /repo worktree add -q --detach "$WT" HEAD || exit 2
trap 'git -C /repo worktree remove --force "$WT" 2>/dev/null; rm -rf "$WT" "$WT.out" "$WT.log"; git -C /repo worktree prune' EXIT
if ! git -C "$WT" apply "/verif/selftest/benign/$d" 2>/dev/null; then echo "BENIGN $d SKIP patch-does-not-apply"; exit 0; fi
bad=""
for P in $PROPS; do
  GOVC_REPO="$WT" ./check $P quick > "$WT.log" 2>&1; RC=$?
  if [ $RC -ne 0 ] || grep -q '^VIOLATION' "$WT.log"; then
    bad="$bad $P(exit=$RC)"
    grep -E '^(VIOLATION|ERROR|UNDECIDED)' "$WT.log" | head -4 | sed "s/^/BENIGN-DETAIL $d $P: /"
  fi
done
if [ -n "$bad" ]; then echo "BENIGN $d ALARM$bad"; exit 1; else echo "BENIGN $d silent"; fi
