#!/bin/bash
# usage: confirm_seed.sh <out dir of one mutant, e.g. /tmp/seed/out/C11/m1> <dest name, e.g. C11-m1>
# Confirms in a scratch worktree that (1) the patch applies and builds, (2) the existing suite passes with it,
# (3) the demo fails with it, (4) the demo passes without it. On success copies it to /verif/seeded/<dest>/.
set -u
SRC=$1; DEST=$2
export GOFLAGS=-mod=mod GOPROXY=off GOSUMDB=off GOTOOLCHAIN=local
WT=$(mktemp -d /tmp/confirm.XXXXXX); rmdir "$WT"
git -C /repo worktree add -q --detach "$WT" seedbase || exit 2
cleanup() { git -C /repo worktree remove --force "$WT" 2>/dev/null; rm -rf "$WT"; }
trap cleanup EXIT
PKG=$(python3 -c "import json;print(json.load(open('$SRC/meta.json')).get('demo_pkg_dir','').strip('/').replace('/tmp/seed/','').split('/',1)[-1] if False else json.load(open('$SRC/meta.json')).get('demo_pkg_dir',''))")
PKG=${PKG#/tmp/seed/*/}; PKG=${PKG#./}; PKG=${PKG%/}
RUNPAT=$(python3 - "$SRC/meta.json" <<'PY'
import json,sys,re
m=json.load(open(sys.argv[1])); r=m.get('demo_run','')
g=re.search(r"-run\s+'?\"?([^'\"\s]+)",r)
print(g.group(1) if g else 'TestDemo')
PY
)
demo() { (cd "$WT" && cp "$SRC"/demo_test.go "$WT/$PKG/zz_demo_test.go" && go test -vet=off -count=1 -timeout 300s -run "$RUNPAT" "./$PKG/" ; rc=$?; rm -f "$WT/$PKG/zz_demo_test.go"; exit $rc) ; }
echo "== $DEST: pkg=$PKG run=$RUNPAT"
demo > "$WT.clean.log" 2>&1; CLEAN=$?
(cd "$WT" && git apply "$SRC/patch.diff") || { echo "RESULT $DEST patch-does-not-apply"; exit 1; }
(cd "$WT" && go build ./... ) || { echo "RESULT $DEST does-not-build"; exit 1; }
(cd "$WT" && go test -vet=off -count=1 -timeout 25m ./... > "$WT.suite.log" 2>&1); SUITE=$?
demo > "$WT.mut.log" 2>&1; MUT=$?
echo "clean-demo=$CLEAN suite-with-patch=$SUITE demo-with-patch=$MUT"
if [ $CLEAN -eq 0 ] && [ $SUITE -eq 0 ] && [ $MUT -ne 0 ]; then
  mkdir -p /verif/seeded/$DEST && cp "$SRC"/patch.diff "$SRC"/demo_test.go "$SRC"/meta.json /verif/seeded/$DEST/
  python3 - "$DEST" "$PKG" "$RUNPAT" <<'PY'
import json,sys
d=f"/verif/seeded/{sys.argv[1]}/meta.json"; m=json.load(open(d))
m['confirmed_by_me']={'clean_demo':'pass','suite_with_patch':'pass','demo_with_patch':'fail','demo_pkg_dir':sys.argv[2],'run':sys.argv[3],'how':'selftest/confirm_seed.sh in a scratch worktree of seedbase'}
json.dump(m,open(d,'w'),indent=1)
PY
  echo "RESULT $DEST confirmed"
else
  tail -5 "$WT.clean.log" "$WT.suite.log" "$WT.mut.log" 2>/dev/null | tail -30
  echo "RESULT $DEST NOT-confirmed"
fi
rm -f "$WT".*.log
