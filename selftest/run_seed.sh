#!/bin/bash
# usage: run_seed.sh <seed name under /verif/seeded> [property ...]
# Applies the seeded change to a scratch worktree of /repo's HEAD (plus /repo's uncommitted changes) under /tmp, runs the
# quick checks against that copy (GOVC_REPO; no evidence is written), prints one line per property and removes the copy.
set -u
S=/verif/seeded/$1; shift
OWN=$(python3 -c "import json;print(json.load(open('$S/meta.json'))['property'])")
PROPS=${*:-$(python3 -c "import json;m=json.load(open('$S/meta.json'));print(' '.join(dict.fromkeys([m['property']]+m.get('detect_with',[]))))")}
SUP=$(python3 -c "import json;print(json.load(open('$S/meta.json')).get('superseded',''))")
if [ -n "$SUP" ]; then echo "SELFTEST $(basename $S) SKIP superseded: ${SUP:0:100}..."; exit 3; fi
WT=$(mktemp -d /tmp/acv-seed.XXXXXX); rmdir "$WT"
git -C /repo worktree add -q --detach "$WT" HEAD || exit 2
cleanup() { git -C /repo worktree remove --force "$WT" 2>/dev/null; rm -rf "$WT" "$WT.out"; git -C /repo worktree prune; }
trap cleanup EXIT
if ! git -C /repo diff --quiet; then git -C /repo diff | git -C "$WT" apply || { echo "SEED $(basename $S) cannot copy working tree changes"; exit 2; }; fi
if ! git -C "$WT" apply "$S/patch.diff" 2>/dev/null; then echo "SELFTEST $(basename $S) SKIP patch-does-not-apply (superseded)"; exit 3; fi
det=""
for P in $PROPS; do
  GOVC_REPO="$WT" /verif/check $P quick > "$WT.log" 2>&1; RC=$?
  if [ $RC -eq 1 ] && grep -q "^VIOLATION property=$P" "$WT.log"; then det="$det $P"; fi
  if [ -n "${VERBOSE:-}" ]; then grep -E '^(VIOLATION|ERROR|OBLIGATION)' "$WT.log" | head -8; fi
done
rm -f "$WT.log"
own=no; case " $det " in *" $OWN "*) own=yes;; esac
if [ -n "$det" ]; then echo "SELFTEST $(basename $S) DETECTED by$det own=$own"; else echo "SELFTEST $(basename $S) MISSED (checked: $PROPS)"; exit 1; fi
