#!/bin/bash
# usage: run_seed.sh <seed name under /verif/seeded> [property ...]   -- applies the patch to /repo, runs the checks, reverts.
set -u
S=/verif/seeded/$1; shift
PROPS=${*:-$(python3 -c "import json;print(json.load(open('$S/meta.json'))['property'])")}
git -C /repo diff --quiet || { echo "repo dirty"; exit 2; }
git -C /repo apply "$S/patch.diff" || { echo "patch does not apply to /repo HEAD"; exit 2; }
for P in $PROPS; do
  /verif/check $P quick > /tmp/seedrun.$$.log 2>&1; RC=$?
  echo "SEED $(basename $S) property=$P exit=$RC $(grep -c '^VIOLATION' /tmp/seedrun.$$.log) violation lines"
  grep -E '^(VIOLATION|ERROR|OBLIGATION)' /tmp/seedrun.$$.log | head -8
done
rm -f /tmp/seedrun.$$.log
git -C /repo apply -R "$S/patch.diff"; git -C /repo checkout -- . ; git -C /repo status --short | head -3
