#!/bin/bash
# Must-pass corpus: property-preserving edits (selftest/benign/*.diff: renamed locals, reordered independent statements, helpers
# extracted or inlined, guard clauses, loops rewritten, switch <-> if). Each is applied to its own scratch worktree of /repo's
# HEAD; every check must end with status 0 and without a VIOLATION line. usage: run_benign.sh [name prefix] ; JOBS=n
cd /verif
JOBS=${JOBS:-4}
ls selftest/benign/${1:-}*.diff | xargs -n1 basename | xargs -P "$JOBS" -I{} /verif/selftest/run_benign_one.sh {} 2>&1 | grep '^BENIGN' | sort | tee /tmp/benign.$$.out | grep -v DETAIL
echo "BENIGN summary silent=$(grep -c ' silent$' /tmp/benign.$$.out) alarms=$(grep -c ' ALARM' /tmp/benign.$$.out)"
grep DETAIL /tmp/benign.$$.out | cut -c1-260
rm -f /tmp/benign.$$.out
