#!/bin/bash
# Must-pass corpus: property-preserving edits (renamed locals, reordered independent statements, a helper extracted, changed
# messages, early-return style). Each diff is applied to a scratch worktree of /repo's HEAD; every check must end with
# status 0 and without a VIOLATION line. usage: run_benign.sh [props...]
cd /verif
PROPS=${*:-C01 C02 C03 C04 C06 C07 C08 C09 C10 C11 C12 C13 C14 C15 C16 C17 C18}
bad=0
for d in selftest/benign/*.diff; do
  WT=$(mktemp -d /tmp/acv-benign.XXXXXX); rmdir "$WT"
  git -C /repo worktree add -q --detach "$WT" HEAD || exit 2
  if ! git -C "$WT" apply "$PWD/$d" 2>/dev/null; then echo "BENIGN $(basename $d) SKIP patch-does-not-apply"; else
    for P in $PROPS; do
      GOVC_REPO="$WT" ./check $P quick > "$WT.log" 2>&1; RC=$?
      if [ $RC -ne 0 ] || grep -q '^VIOLATION' "$WT.log"; then echo "BENIGN $(basename $d) ALARM property=$P exit=$RC"; grep -E '^(VIOLATION|ERROR|UNDECIDED)' "$WT.log" | head -4; bad=1; fi
    done
    echo "BENIGN $(basename $d) done"
  fi
  git -C /repo worktree remove --force "$WT" 2>/dev/null; rm -rf "$WT" "$WT.out" "$WT.log"; git -C /repo worktree prune
done
exit $bad
