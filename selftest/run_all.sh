#!/bin/bash
# Must-fail corpus: applies every seeded change under /verif/seeded to /repo in turn, runs the quick check of the
# property it breaks (or the properties given in meta.json "detect_with"), reverts, and prints one line per seed.
# usage: run_all.sh [seed name prefix]
cd /verif
git -C /repo diff --quiet || { echo "repo dirty"; exit 2; }
PASS=0; FAIL=0
for d in /verif/seeded/${1:-}*/; do
  s=$(basename $d)
  [ -f $d/patch.diff ] || continue
  props=$(python3 -c "import json;m=json.load(open('$d/meta.json'));print(' '.join(m.get('detect_with',[m['property']])))")
  if ! git -C /repo apply --check $d/patch.diff 2>/dev/null; then echo "SELFTEST $s SKIP patch-does-not-apply (superseded)"; continue; fi
  git -C /repo apply $d/patch.diff
  det=""
  for p in $props; do
    ./check $p quick > /tmp/selftest.$$.log 2>&1; rc=$?
    if [ $rc -eq 1 ] && grep -q "^VIOLATION property=$p" /tmp/selftest.$$.log; then det="$det $p"; fi
  done
  git -C /repo apply -R $d/patch.diff; git -C /repo checkout -- . 2>/dev/null
  if [ -n "$det" ]; then echo "SELFTEST $s DETECTED by$det"; PASS=$((PASS+1)); else echo "SELFTEST $s MISSED (checked: $props)"; FAIL=$((FAIL+1)); fi
done
rm -f /tmp/selftest.$$.log
echo "SELFTEST summary detected=$PASS missed=$FAIL"
