#!/bin/bash
# Must-fail corpus: every seeded change under /verif/seeded is applied to its own scratch worktree under /tmp, the quick
# check of the property it breaks (or the properties in meta.json "detect_with") is run against that copy, and the copy is
# removed. /repo's working tree is never touched. usage: run_all.sh [seed name prefix] ; JOBS=n (default 4)
cd /verif
JOBS=${JOBS:-4}
ls -d /verif/seeded/${1:-}*/ | xargs -n1 basename | xargs -P "$JOBS" -I{} /verif/selftest/run_seed.sh {} 2>&1 | grep '^SELFTEST' | sort | tee /tmp/selftest.$$.out
echo "SELFTEST summary detected=$(grep -c ' DETECTED ' /tmp/selftest.$$.out) missed=$(grep -c ' MISSED ' /tmp/selftest.$$.out) skipped=$(grep -c ' SKIP ' /tmp/selftest.$$.out)"
rm -f /tmp/selftest.$$.out
