package path

// Bounded stand-in for the generated PEG engine (property C16): the real ParsePath is compared with an independent
// recursive-descent recogniser of the documented grammar (third_party/propertyparser.peg, with an end-of-input check
// and the modifier class read as intended: ^ or *) on EVERY token string up to a length bound, plus a size ladder
// (sampled): sequences and alternatives of 1..512 steps, nesting 1..256 deep, names of 8..4096 characters.
//   Expression = Term (_ "/" _ Term)* ; Term = Factor (_ "|" _ Factor)* ; Factor = "(" _ Expression _ ")" | Iri | "@type"
//   Iri = [a-zA-Z0-9_-]+ "." [.\\/a-zA-Z0-9_-]+ _ ("^" | "*")?        _ = [ \n\t\r]*
// Environment: C16_BOUND (token count, default 4), C16_OUT (file for the JSON summary).

import (
	"github.com/aml-org/amf-custom-validator/internal/misc"
	"github.com/aml-org/amf-custom-validator/internal/types"

	"encoding/json"
	"fmt"
	"os"
	"strconv"
	"strings"
	"testing"
)

type oNode struct {
	kind       string // iri and or
	iri        string
	inv, trans bool
	kids       []*oNode
}

type oParser struct {
	s string
	i int
}

func (p *oParser) ws() {
	for p.i < len(p.s) && strings.ContainsRune(" \n\t\r", rune(p.s[p.i])) {
		p.i++
	}
}

func isNs(c byte) bool {
	return c >= 'a' && c <= 'z' || c >= 'A' && c <= 'Z' || c >= '0' && c <= '9' || c == '_' || c == '-'
}
func isProp(c byte) bool { return isNs(c) || c == '.' || c == '\\' || c == '/' }

func (p *oParser) iri() *oNode {
	start := p.i
	j := p.i
	for j < len(p.s) && isNs(p.s[j]) {
		j++
	}
	if j == p.i || j >= len(p.s) || p.s[j] != '.' {
		return nil
	}
	k := j + 1
	for k < len(p.s) && isProp(p.s[k]) {
		k++
	}
	if k == j+1 {
		return nil
	}
	n := &oNode{kind: "iri", iri: p.s[start:k]}
	p.i = k
	p.ws()
	if p.i < len(p.s) && (p.s[p.i] == '^' || p.s[p.i] == '*') {
		if p.s[p.i] == '^' {
			n.inv = true
		} else {
			n.trans = true
		}
		p.i++
	}
	return n
}

func (p *oParser) factor() *oNode {
	save := p.i
	if p.i < len(p.s) && p.s[p.i] == '(' {
		p.i++
		p.ws()
		if e := p.expression(); e != nil {
			p.ws()
			if p.i < len(p.s) && p.s[p.i] == ')' {
				p.i++
				return e
			}
		}
		p.i = save
	}
	if n := p.iri(); n != nil {
		return n
	}
	p.i = save
	if strings.HasPrefix(p.s[p.i:], "@type") {
		p.i += 5
		return &oNode{kind: "iri", iri: "@type"}
	}
	return nil
}

func (p *oParser) list(sep byte, sub func() *oNode, kind string) *oNode {
	head := sub()
	if head == nil {
		return nil
	}
	acc := []*oNode{head}
	for {
		save := p.i
		p.ws()
		if p.i < len(p.s) && p.s[p.i] == sep {
			p.i++
			p.ws()
			if n := sub(); n != nil {
				acc = append(acc, n)
				continue
			}
		}
		p.i = save
		break
	}
	if len(acc) == 1 {
		return acc[0]
	}
	return &oNode{kind: kind, kids: acc}
}

func (p *oParser) term() *oNode       { return p.list('|', p.factor, "or") }
func (p *oParser) expression() *oNode { return p.list('/', p.term, "and") }

func oracle(s string) (*oNode, bool) {
	if s == "" {
		return nil, true // the null path
	}
	p := &oParser{s: s}
	n := p.expression()
	if n == nil || p.i != len(s) {
		return nil, false
	}
	return n, true
}

func (n *oNode) String() string {
	if n == nil {
		return "null"
	}
	switch n.kind {
	case "iri":
		s := n.iri
		if n.inv {
			s += "^"
		}
		if n.trans {
			s += "*"
		}
		return s
	}
	var ks []string
	for _, k := range n.kids {
		ks = append(ks, k.String())
	}
	sep := " / "
	if n.kind == "or" {
		sep = " | "
	}
	return "(" + strings.Join(ks, sep) + ")"
}

// stripStrayModifiers blanks a double quote or comma that directly follows an IRI (after optional blanks)
func stripStrayModifiers(s string) string {
	var b strings.Builder
	for i := 0; i < len(s); i++ {
		c := s[i]
		if c == '"' || c == ',' {
			j := i - 1
			for j >= 0 && strings.ContainsRune(" \n\t\r", rune(s[j])) {
				j--
			}
			if j >= 0 && isProp(s[j]) && !(i+1 < len(s) && (s[i+1] == '^' || s[i+1] == '*' || s[i+1] == '"' || s[i+1] == ',')) {
				b.WriteByte(' ') // the engine consumed it as a (meaningless) modifier: what follows starts a new token
				continue
			}
		}
		b.WriteByte(c)
	}
	return b.String()
}

func realString(p PropertyPath) string {
	switch v := p.(type) {
	case NullPath:
		return "null"
	case Property:
		s := v.Iri
		if v.Inverse {
			s += "^"
		}
		if v.Transitive {
			s += "*"
		}
		return s
	case AndPath:
		var ks []string
		for _, k := range v.And {
			ks = append(ks, realString(k))
		}
		return "(" + strings.Join(ks, " / ") + ")"
	case OrPath:
		var ks []string
		for _, k := range v.Or {
			ks = append(ks, realString(k))
		}
		return "(" + strings.Join(ks, " | ") + ")"
	}
	return fmt.Sprintf("?%T", p)
}

func realParse(s string) (res string, outcome string) {
	defer func() {
		if r := recover(); r != nil {
			res, outcome = "", "panic"
		}
	}()
	p, err := ParsePath(s)
	if err != nil {
		return "", "error"
	}
	return realString(p), "accept"
}

type c16Summary struct {
	Bound       int               `json:"bound"`
	Tokens      []string          `json:"tokens"`
	Strings     int               `json:"strings"`
	Sentences   int               `json:"sentences"`
	Agree       int               `json:"agree"`
	Differences map[string]int    `json:"differences_by_class"`
	Examples    map[string][]string `json:"examples"`
	AllDiffs    []string          `json:"all_differences,omitempty"`
}

func TestBoundedC16(t *testing.T) {
	bound := 4
	if b, err := strconv.Atoi(os.Getenv("C16_BOUND")); err == nil && b > 0 {
		bound = b
	}
	tokens := []string{"a.b", "c.d", "@type", "/", "|", "(", ")", "^", " ", "x", ".", "*", "\"", ",", "\t"}
	sum := c16Summary{Bound: bound, Tokens: tokens, Differences: map[string]int{}, Examples: map[string][]string{}}
	var rec func(prefix string, depth int)
	check := func(s string) {
		sum.Strings++
		want, ok := oracle(s)
		got, outcome := realParse(s)
		if ok {
			sum.Sentences++
		}
		class := ""
		switch {
		case ok && outcome == "accept" && (want.String() == got):
			sum.Agree++
			return
		case !ok && outcome == "error":
			sum.Agree++
			return
		case !ok && outcome == "panic":
			class = "rejected-by-panic-instead-of-error"
		case !ok && outcome == "accept":
			class = "non-sentence-accepted"
			// known grammar slip: the modifier class ["^","*"] also contains the double quote and the comma
			if w2, ok2 := oracle(stripStrayModifiers(s)); ok2 && w2.String() == got {
				class = "stray-quote-or-comma-as-modifier"
			}
		case ok && outcome != "accept":
			class = "sentence-rejected"
		default:
			class = "wrong-structure"
		}
		sum.Differences[class]++
		if len(sum.Examples[class]) < 12 {
			sum.Examples[class] = append(sum.Examples[class], fmt.Sprintf("%q -> %s %s (grammar: %v %s)", s, outcome, got, ok, want.String()))
		}
		if len(sum.AllDiffs) < 200000 {
			sum.AllDiffs = append(sum.AllDiffs, class+"\t"+s)
		}
	}
	rec = func(prefix string, depth int) {
		check(prefix)
		if depth == bound {
			return
		}
		for _, tk := range tokens {
			rec(prefix+tk, depth+1)
		}
	}
	rec("", 0)
	// size ladder (beyond the token bound, sampled not exhaustive): long sequences and alternatives, deep nesting, long names
	for n := 1; n <= 512; n *= 2 {
		var steps []string
		for k := 0; k < n; k++ {
			steps = append(steps, fmt.Sprintf("vocabulary%d.property-name_%d", k%7, k))
		}
		check(strings.Join(steps, " / "))
		check(strings.Join(steps, " | "))
		check(strings.Join(steps, "/") + " /")
		if n <= 256 {
			check(strings.Repeat("(", n) + "a.b" + strings.Repeat(")", n))
			check(strings.Repeat("( ", n) + "a.b / c.d^" + strings.Repeat(" )", n) + " | c.d")
			check(strings.Repeat("(", n) + "a.b" + strings.Repeat(")", n-1))
		}
		check("ns." + strings.Repeat("x", n*8))
		check(strings.Repeat("n", n*8) + ".p" + strings.Repeat(" ", n) + "^")
	}
	// every IRI the grammar accepts as a step must also be expandable once its prefix is declared (the expander has its own
	// pattern for compact IRIs: a step that parses but cannot be expanded makes a well-formed profile fail)
	for _, pre := range []string{"a", "Z9", "x_1", "my-ns", "0", "_", "-a", "oas3", "v1-beta", "A_B-c9"} {
		for _, suf := range []string{"b", "B2", "p_q", "p-q", "a.b", "a\\/b", "0", "_x", "-y", "x9_-.z", "a/b", "v1/items/id", "a\\b", "a\\/b/c"} {
			iri := pre + "." + suf
			sum.Strings++
			if _, ok := oracle(iri); !ok {
				continue
			}
			sum.Sentences++
			exp := misc.IriExpander{Context: types.ObjectMap{pre: "http://ns.example/"}}
			got, err := exp.Expand(iri)
			if err == nil && got == "http://ns.example/"+strings.ReplaceAll(suf, "\\/", "/") {
				sum.Agree++
				continue
			}
			class := "sentence-not-expandable"
			sum.Differences[class]++
			if len(sum.Examples[class]) < 12 {
				sum.Examples[class] = append(sum.Examples[class], fmt.Sprintf("%q is a step of the grammar but expands to %q, %v (prefix %s declared as http://ns.example/)", iri, got, err, pre))
			}
			sum.AllDiffs = append(sum.AllDiffs, class+"\t"+iri)
		}
	}
	b, _ := json.Marshal(sum)
	if out := os.Getenv("C16_OUT"); out != "" {
		os.WriteFile(out, b, 0644)
	}
	t.Logf("bound=%d strings=%d sentences=%d agree=%d differences=%v", bound, sum.Strings, sum.Sentences, sum.Agree, sum.Differences)
	for c, ex := range sum.Examples {
		if len(ex) > 4 {
			ex = ex[:4]
		}
		for _, e := range ex {
			t.Logf("  %s: %s", c, e)
		}
	}
}
