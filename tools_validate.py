#!/opt/veriftools/pyvenv/bin/python
# validate MANIFEST.json and every evidence file against the schemas
import json, jsonschema, glob, sys
ok = True
try:
    jsonschema.validate(json.load(open('/verif/MANIFEST.json')), json.load(open('/root/.vp/MANIFEST.schema.json')))
    print('MANIFEST valid')
except Exception as e:
    ok = False; print('MANIFEST INVALID', str(e)[:300])
sch = json.load(open('/root/.vp/EVIDENCE.schema.json'))
for f in sorted(glob.glob('/verif/evidence/*.json')):
    try:
        jsonschema.validate(json.load(open(f)), sch); print(f, 'valid')
    except Exception as e:
        ok = False; print(f, 'INVALID', str(e)[:300])
sys.exit(0 if ok else 1)
