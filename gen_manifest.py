#!/usr/bin/env python3
# Regenerates MANIFEST.json from the table below (kept in one place so it is always valid and current).
import json, subprocess
ids = [json.loads(l)['id'] for l in open('/verif/properties.jsonl')]
hook_commits = subprocess.run(['git','-C','/repo','log','--format=%h %s','--grep=^verif:'],capture_output=True,text=True).stdout.strip().split('\n')
OPA = "OPA evaluates the generated module as documented (rule bodies are conjunctions, not = negation as failure, same-head rules union); the constant Rego preamble is pinned by the golden tests"
checks = {
 'C04': dict(cat='proof', text="Every obligation generated from the real bodies of ProcessInput, ValidateCompiledWithConfiguration, ValidateWithConfiguration, Validate, ValidateCompiled and the four pkg wrappers is discharged by an SMT solver for all inputs: when encoding/json reports a decode error the entry point returns a non-nil error and an empty report (modular: each caller is checked against the callee's contract).",
              note="Assumed: encoding/json Decoder.Decode returns an error exactly when no complete JSON value can be read (A-JSON). The JSON-LD rejection half (json-gold Flatten error) is a panic site covered under C17, not an error return. js/ (WASM wrapper) is not loaded (build tag).",
              tech="contract-based deductive verification: weakest-precondition style VCs from the Go AST (govc), discharged by z3/cvc5", ref="5/C04"),
 'C03': dict(cat='proof', text="Report side, for all result lists and configurations: buildResults gives every result the severity of its bucket (three loop invariants over the JSON heap), BuildReport is checked at the call of ValidationReportNode against the statement's own wording (conforms iff no result has Violation severity; every result has one of the three level severities), ValidationReportNode writes exactly the keys @id/@type/profileName/conforms/dateCreated/result with dateCreated present iff configured and result present iff non-empty; the context builders read only the two schema IRIs. 83 obligations, all discharged.",
              note="Assumed: OPA returns fresh, pairwise distinct result maps (A-OPA4, requires-assumed on buildResults) of the asserted shapes (A-OPA8); strings.Title on the three level words; encoding/json in Encode. Generator/parser side of the level mapping (rule head = lower-cased level, default <level> = []) is pinned by the golden files and additionally covered under C01/C07 where claimed.",
              tech="contract-based deductive verification (heap maps as SMT arrays, quantified frame postconditions, loop invariants), govc + z3/cvc5", ref="5/C03"),
 'C18': dict(cat='proof', text="Ghost model of the process (exitCode), stdout and the output file (exists/writable/content/offset/append). For every prior file state and every library result: exit 0 implies stdout == old ++ report ++ newline (4 args) or file content == report (5 args); any library error gives a non-zero exit and unchanged stdout; generate/normalize print exactly the library's values. 94 obligations over 18 functions, all discharged.",
              note="Assumed contracts of os/fmt/ioutil primitives (spec in govc/ghost.go), one output path, the library's results named as functions of its inputs (ensures-assumed clauses, justified by C06); a panic inside the CLI is modelled as exit status 2 with nothing further printed.",
              tech="contract-based deductive verification with a file-system/stdout ghost model, govc + z3/cvc5 (string theory)", ref="5/C18"),
 'C06': dict(cat='other', text="Sufficient condition decided per run from the typed AST of the working tree: in a sequential Go program the only ways to lose functional dependence on the inputs are the syntactic nondeterminism sources (range over a map, time.Now, rand, pointer formatting, goroutines) and mutable package state. Every such source reachable from the entry points is an obligation det:<source>; it is discharged only by a recognised commuting loop body (entry copy into another map) or by a committed justification. A new source, or an order-sensitive body (the repaired GetMapKeys defect), fails its obligation.",
              note="Not a functional proof of byte-identity: OPA evaluation/serialisation and encoding/json are assumed deterministic (A-OPA5); the det: obligations are decided by the effect analysis (frame back end), not by SMT; justifications in spec/c06_allowed_nondeterminism.txt are trusted text.",
              tech="contract-style determinism obligations from a typed effect analysis of the real code (govc frame back end)", ref="5/C06"),
 'C08': dict(cat='proof', text="(1) Invariant on the deny map: every built-in named by the statement is a key of validator.unsafeBuiltinsMap, the key strings being read from the source of the linked engine on every run; nobody writes the map. (2) The only call that parses or compiles policy text in non-test code is rego.New in CompileRego, rego.UnsafeBuiltins(unsafeBuiltinsMap) is among its options and no other option is passed. (3) SMT-discharged propagation contracts with ghost flags set by the translation of PrepareForEval / Eval: when the engine rejects the module, CompileRego, ProcessProfile, CompileProfile and every Validate entry point return an error and an empty report and Eval has not been called. 55 obligations.",
              note="Assumed (A-OPA6): a query prepared with UnsafeBuiltins(S) rejects at compile time a module calling any member of S in any syntactic position; all embedding positions end up in RegoUnit.Code (pinned by the golden files). The net.lookup_ip_addr gap found by the invariant was repaired (fix commit).",
              tech="contract-based deductive verification: global invariant evaluated from dependency source + single-door frame obligations + SMT-discharged error-propagation contracts with ghost state", ref="5/C08"),
 'C09': dict(cat='proof', text="Equivalence: with the compiled form of a profile text and the report of (compiled profile, data, configuration) named as functions, ValidateWithConfiguration is proved (SMT, modular) to return exactly what ValidateCompiledWithConfiguration returns for ProcessProfile's result, pkg.CompileProfile to return ProcessProfile's result, and the pkg wrappers to delegate unchanged. Reuse: frame obligations show that no function reachable from the validating entry points writes package-level state or stores through the compiled-profile argument, so the report cannot depend on call history.",
              note="Assumed: OPA compilation is a function of the module text up to generated-identifier numbering and evaluation a function of its inputs (A-OPA5); Eval does not observably mutate the prepared query; rego.ResultSet data is fresh per Eval (A-OPA4).",
              tech="contract-based deductive verification (delegation postconditions over uninterpreted library functions) + frame obligations from the effect analysis", ref="5/C09"),
 'C10': dict(cat='other', text="Sufficient ownership condition, not an exploration of schedules: for each of the five public entry points the frame obligation shows that no reachable function writes a package-level variable (or memory reached from one through a syntactic path or a written-through parameter) except via sync/atomic or sync, and that no goroutine is started on the path, so concurrent calls share only read-only globals and caller-owned arguments. The Genvar counter race found this way was repaired (fix: atomic).",
              note="Assumed: Go memory model; OPA, json-gold, yaml.v3, regexp are safe for concurrent use as used; reports are invariant under the numbering of generated identifiers (A-OPA5). Interleavings are not explored; aliasing is tracked only one assignment deep.",
              tech="frame/ownership obligations from a typed effect analysis of the real code (govc frame back end); -race replay as witness", ref="5/C10"),
 'C11': dict(cat='proof', text="Ghost protocol state (chanClosed, evOpen, evNext, evCur) is updated by the translation of channel send/close; every send must satisfy the stage-order assertion, every exported validator closes the channel exactly once on every return path, CompileProfile closes only on error. 94 obligations (pre/post/ghost/safety) over 18 functions, all discharged for all inputs and all failure stages.",
              note="Assumed: the caller drains the channel (A-DRAIN, blocking is not modelled); panics are not returns (C17). Milestones part: see level_note in evidence (GenerateMilestonesFromEvents contract pending).",
              tech="contract-based deductive verification with ghost state: VCs from the Go AST (govc), discharged by z3/cvc5", ref="5/C11"),
}
na_reason = {
 'C05': "decided inside json-gold's flatten/compact algorithm (dependency); no contract on repository code can express it; assuming Flatten canonical would assume the property (DESIGN 5/C05)",
}
m = {"version":1,
 "setup_cmd":"cd /verif/govc && GOFLAGS=-mod=mod GOPROXY=off GOSUMDB=off GOTOOLCHAIN=local go build -o ../bin/govc .",
 "hooks":{"guard":"verif","enable":"go build -tags verif ./...  (contracts are //@ comments in <pkg>/zz_contracts_verif.go; govc loads the tree with -tags=verif)",
          "baseline_off_cmd":"cd /repo && GOFLAGS=-mod=mod GOPROXY=off GOSUMDB=off GOTOOLCHAIN=local go test -vet=off -count=1 -timeout 25m ./...",
          "source_commits":[c.split()[0] for c in hook_commits if c],"add_only":True},
 "engines":[{"name":"govc","path":"/verif/govc","serves_properties":sorted(checks),"kind_free_text":"verification-condition generator for a Go subset (go/ast+go/types), contracts as //@ comments, SMT back ends z3 4.8.12 / z3 5.1.0 / cvc5 1.0"}],
 "checks":[], "notes":"see DESIGN.md; known_findings.txt lists repaired and recorded defects",
 "not_applicable":[]}
for i in ids:
    if i in checks:
        c = checks[i]
        m["checks"].append({"property_id":i,"quick_cmd":f"./check {i} quick","thorough_cmd":f"./check {i} thorough","evidence_file":f"/verif/evidence/{i}.json",
            "replay_cmd_template":"cat {path}","engine":"govc",
            "level_claimed":{"category":c['cat'],"text":c['text'],"design_ref":c['ref']},"level_note":c['note'],"technique":c['tech']})
    else:
        m["not_applicable"].append({"property_id":i,"reason":na_reason.get(i,"contracts for this property are not committed yet (framework under construction; see DESIGN.md section 5)")})
json.dump(m,open('/verif/MANIFEST.json','w'),indent=1)
print(len(m['checks']),'checks',len(m['not_applicable']),'not applicable')
