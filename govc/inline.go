package main

// Inlining of higher-order calls: a repository function without contract that receives a function literal (or a named
// repository function) as an argument is executed in place, and calls of that parameter execute the literal's body in
// place. Loops met inside inlined code continue the caller's loop numbering, so the caller's contract supplies their
// invariants. (In /repo: handleSingleOrMultipleNodes with its three closures, generateResult with the two aggregators.)

import (
	"go/ast"
	"go/types"
	"strings"
)

type closure struct {
	lit  *ast.FuncLit
	info *types.Info
	fn   *FuncInfo
}

type frame struct {
	returns  []*State
	resVars  []*types.Var
	resNames []string
	deferred []*deferred
	info     *types.Info
	loops    []*loopCtx
}

func (ex *Exec) pushFrame(sig *types.Signature, info *types.Info) frame {
	f := frame{ex.returns, ex.resVars, ex.resNames, ex.deferred, ex.info, ex.loops}
	ex.returns, ex.resVars, ex.resNames, ex.deferred, ex.loops = nil, nil, nil, nil, nil
	ex.info = info
	_, rn := calleeNames(sig)
	ex.resNames = rn
	for i := 0; i < sig.Results().Len(); i++ {
		rv := sig.Results().At(i)
		ex.resVars = append(ex.resVars, rv)
		z := ex.U.Zero(ex.U.SortOf(rv.Type()))
		if rv.Name() != "" && rv.Name() != "_" {
			ex.declare(rv, z)
		} else {
			ex.st.vars[rv] = z
		}
	}
	return f
}

func (ex *Exec) popFrame(f frame) []Term {
	if !ex.st.dead() {
		ex.returns = append(ex.returns, ex.st)
	}
	var final *State
	for _, r := range ex.returns {
		final = ex.merge(final, r)
	}
	var rs []Term
	if final == nil {
		// the inlined code never returns normally
		ex.st = ex.st.clone()
		ex.kill()
		for _, rv := range ex.resVars {
			rs = append(rs, ex.U.Zero(ex.U.SortOf(rv.Type())))
		}
	} else {
		ex.st = final
		for _, rv := range ex.resVars {
			rs = append(rs, final.vars[rv])
		}
	}
	ex.returns, ex.resVars, ex.resNames, ex.deferred, ex.info, ex.loops = f.returns, f.resVars, f.resNames, f.deferred, f.info, f.loops
	return rs
}

func hasFuncParam(sig *types.Signature) bool {
	for i := 0; i < sig.Params().Len(); i++ {
		if _, ok := sig.Params().At(i).Type().Underlying().(*types.Signature); ok {
			return true
		}
	}
	return false
}

func (ex *Exec) shouldInline(fi *FuncInfo, c *ast.CallExpr) bool {
	if fi.Contract != nil || fi.Obj == nil || len(ex.inlineStack) > 4 {
		return false
	}
	for _, n := range ex.inlineStack {
		if n == fi.Name {
			return false
		}
	}
	sig := fi.Obj.Type().(*types.Signature)
	if sig.Variadic() {
		return false
	}
	if !hasFuncParam(sig) {
		// a small helper without contract (straight-line code, no loop, no recursion): executing it in place keeps the
		// caller's proof independent of how its body is cut into helper functions
		return ex.isSmallHelper(fi)
	}
	for _, a := range c.Args {
		switch x := unparen(a).(type) {
		case *ast.FuncLit:
			return true
		case *ast.Ident:
			if fn, ok := ex.info.Uses[x].(*types.Func); ok {
				if _, ok := ex.P.ByObj[fn]; ok {
					return true
				}
			}
			if v, ok := ex.info.Uses[x].(*types.Var); ok {
				if _, bound := ex.closures[v]; bound {
					return true
				}
			}
		}
	}
	return false
}

func (ex *Exec) inlineCall(c *ast.CallExpr, fi *FuncInfo, args []Term) []Term {
	sig := fi.Obj.Type().(*types.Signature)
	ex.note("inlined call of " + fi.Name + " (higher-order: function arguments executed in place)")
	callerInfo := ex.info
	ex.inlineStack = append(ex.inlineStack, fi.Name)
	defer func() { ex.inlineStack = ex.inlineStack[:len(ex.inlineStack)-1] }()
	// bind function-typed parameters
	off := 0
	if sig.Recv() != nil {
		off = 1
	}
	for i := 0; i < sig.Params().Len(); i++ {
		pv := sig.Params().At(i)
		if _, ok := pv.Type().Underlying().(*types.Signature); !ok || i >= len(c.Args) {
			continue
		}
		switch x := unparen(c.Args[i]).(type) {
		case *ast.FuncLit:
			ex.closures[pv] = &closure{lit: x, info: callerInfo}
		case *ast.Ident:
			if fn, ok := callerInfo.Uses[x].(*types.Func); ok {
				if callee, ok := ex.P.ByObj[fn]; ok {
					ex.closures[pv] = &closure{fn: callee}
				}
			} else if v, ok := callerInfo.Uses[x].(*types.Var); ok {
				if cl, ok := ex.closures[v]; ok {
					ex.closures[pv] = cl
				}
			}
		}
	}
	savedBoxed := ex.boxed
	ex.info = fi.Pkg.TypesInfo
	ex.findBoxed(fi.Body())
	f := ex.pushFrame(sig, fi.Pkg.TypesInfo)
	f.info = callerInfo
	if r := sig.Recv(); r != nil && len(args) > 0 {
		ex.declare(r, args[0])
	}
	for i := 0; i < sig.Params().Len(); i++ {
		if off+i < len(args) {
			ex.declare(sig.Params().At(i), args[off+i])
		}
	}
	ex.block(fi.Body().List)
	rs := ex.popFrame(f)
	_ = savedBoxed
	// the process may have ended inside the inlined code (os.Exit, or a panic in the CLI): that ends the caller as well
	if ce := ex.P.Effects[fi.Name]; ce != nil && ce.Ghost["exit"] && !ex.st.dead() && !ex.inDefer {
		ex.afterOsCall()
	}
	return rs
}

// callClosure executes a bound function argument in place
func (ex *Exec) callClosure(c *ast.CallExpr, cl *closure, args []Term) []Term {
	if cl.fn != nil {
		return ex.callRepo(c, cl.fn, args)
	}
	sig := cl.info.TypeOf(cl.lit).(*types.Signature)
	callerInfo := ex.info
	ex.info = cl.info
	ex.findBoxed(cl.lit.Body)
	f := ex.pushFrame(sig, cl.info)
	f.info = callerInfo
	for i := 0; i < sig.Params().Len(); i++ {
		if i < len(args) {
			ex.declare(sig.Params().At(i), args[i])
		}
	}
	ex.block(cl.lit.Body.List)
	return ex.popFrame(f)
}

func (ex *Exec) isSmallHelper(fi *FuncInfo) bool {
	if fi.Body() == nil || fi.Lit != nil || strings.HasSuffix(fi.File, "/peg.go") {
		return false
	}
	if fi.Name == ex.F.Name {
		return false
	}
	if r := ex.P.Reach[fi.Name]; r != nil && r[fi.Name] {
		// recursive: acceptable only when the cycle runs through the function being verified (its recursive call is then an
		// ordinary call against its own contract) and the helper does not call itself
		back := ex.P.Reach[ex.F.Name]
		if !(r[ex.F.Name] && back != nil && back[fi.Name]) || ex.callsDirectly(fi, fi.Name) {
			return false
		}
	}
	n, ok, loops := 0, true, 0
	ast.Inspect(fi.Body(), func(nd ast.Node) bool {
		switch nd.(type) {
		case *ast.ForStmt, *ast.RangeStmt:
			loops++
		case *ast.DeferStmt, *ast.GoStmt, *ast.SelectStmt, *ast.FuncLit, *ast.LabeledStmt:
			ok = false
		}
		if _, isStmt := nd.(ast.Stmt); isStmt {
			n++
		}
		return ok
	})
	if loops > 0 && ex.lostLoops() == 0 {
		// a helper with a loop is executed in place only when the contract of the caller has loops the caller's code no longer
		// shows (the loop was moved into the helper): its loops then bind to those contract loops
		return false
	}
	return ok && n <= 150
}

func (ex *Exec) callsDirectly(fi *FuncInfo, name string) bool {
	found := false
	ast.Inspect(fi.Body(), func(nd ast.Node) bool {
		if c, ok := nd.(*ast.CallExpr); ok {
			if callee, _ := ex.P.staticCallee(fi.Pkg.TypesInfo, c); callee != nil && callee.Name == name {
				found = true
			}
		}
		return !found
	})
	return found
}

// lostLoops: loop contracts of the function being verified that are not used yet and whose header no loop of its body carries
func (ex *Exec) lostLoops() int {
	c := ex.F.Contract
	if c == nil {
		return 0
	}
	have := map[string]bool{}
	for _, h := range ex.codeLoopHeaders() {
		have[h] = true
	}
	n := 0
	for _, lc := range c.Loops {
		if !lc.seen && lc.Header != "" && !have[normSpace(lc.Header)] {
			n++
		}
	}
	return n
}
