package main

// Replay of refuted obligations against the real code (go test -overlay). Filled in per obligation kind.

func attemptReplay(prop string, ob *Obligation, p *Prog, dir string) map[string]any {
	return map[string]any{"attempted": false, "confirmed": false, "reason": "no replay generator for this obligation kind; the solver output above is the evidence"}
}
