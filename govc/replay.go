package main

// Replay of failed obligations against the real code.
// A property may have a witness harness /verif/replay/<prop>.sh: it runs a small corpus of concrete inputs for that
// property against the working tree (go test -overlay, nothing is written to the repo) and prints
// "REPLAY-CONFIRMED <input>" lines for inputs on which the real code violates the property. This is witness search
// for an obligation the verifier already failed to discharge - it is never the deciding step.

import (
	"context"
	"os"
	"os/exec"
	"path/filepath"
	"strings"
	"sync"
	"time"
)

var replayCache = map[string]map[string]any{}
var replayMu sync.Mutex

func attemptReplay(prop string, ob *Obligation, p *Prog, dir string) map[string]any {
	replayMu.Lock()
	defer replayMu.Unlock()
	if r, ok := replayCache[prop]; ok {
		return r
	}
	script := filepath.Join(verifDir, "replay", prop+".sh")
	if st, err := os.Stat(script); err != nil || st.Mode()&0111 == 0 {
		r := map[string]any{"attempted": false, "confirmed": false, "reason": "no witness harness for this property; the solver output above is the evidence"}
		replayCache[prop] = r
		return r
	}
	ctx, cancel := context.WithTimeout(context.Background(), 300*time.Second)
	defer cancel()
	cmd := exec.CommandContext(ctx, script)
	cmd.Env = append(os.Environ(), "OBLIGATION="+ob.Name, "REPO="+repoDir)
	out, err := cmd.CombinedOutput()
	txt := string(out)
	var confirmed []string
	for _, l := range strings.Split(txt, "\n") {
		if strings.HasPrefix(strings.TrimSpace(l), "REPLAY-CONFIRMED") {
			confirmed = append(confirmed, strings.TrimSpace(l))
		}
	}
	if len(txt) > 6000 {
		txt = txt[:6000] + "\n…"
	}
	r := map[string]any{"attempted": true, "confirmed": len(confirmed) > 0, "harness": script, "failing_inputs": confirmed, "log": txt}
	if err != nil && len(confirmed) == 0 {
		r["note"] = "harness exit: " + err.Error()
	}
	replayCache[prop] = r
	return r
}
