package main

// Query assembly and solver racing.

import (
	"bytes"
	"context"
	"fmt"
	"os"
	"os/exec"
	"path/filepath"
	"strings"
	"sync"
	"time"
)

type SolverCfg struct {
	Name string
	Cmd  []string // file appended
}

func solvers(timeoutS int) []SolverCfg {
	return []SolverCfg{
		{"z3-4.8.12", []string{"/usr/bin/z3", "-smt2", fmt.Sprintf("-T:%d", timeoutS)}},
		{"z3-5.1.0", []string{"z3-new", "-smt2", fmt.Sprintf("-T:%d", timeoutS)}},
		{"cvc5-1.0", []string{"cvc5", "--lang=smt2", "--enum-inst", "--strings-exp", "--produce-models", fmt.Sprintf("--tlimit=%d", timeoutS*1000)}},
	}
}

// Query builds the SMT-LIB text for one obligation.
func (ex *Exec) Query(ob *Obligation) string { return ex.query(ob, false) }

// GroundQuery: declarations, facts and negated goal only
func (ex *Exec) GroundQuery(ob *Obligation) string { return ex.query(ob, true) }

func (ex *Exec) query(ob *Obligation, ground bool) string {
	var body strings.Builder
	for _, f := range ex.facts[:ob.NFacts] {
		body.WriteString("(assert ")
		body.WriteString(f)
		body.WriteString(")\n")
	}
	body.WriteString("(assert " + ob.PC.S + ")\n")
	body.WriteString("(assert (not " + ob.Goal.S + "))\n")
	bs := body.String()
	// relevant prelude axioms: transitive closure over mentioned prelude symbols
	used := map[string]bool{}
	mentions := func(text string, sym string) bool {
		i := 0
		for {
			j := strings.Index(text[i:], sym)
			if j < 0 {
				return false
			}
			j += i
			end := j + len(sym)
			okL := j == 0 || strings.ContainsRune(" ()\n", rune(text[j-1]))
			okR := end >= len(text) || strings.ContainsRune(" ()\n", rune(text[end]))
			if okL && okR {
				return true
			}
			i = j + 1
		}
	}
	for s := range ex.preludeSyms {
		if mentions(bs, s) {
			used[s] = true
		}
	}
	// define-funs pull in the symbols of their bodies
	include := make([]bool, len(ex.preludeAxioms))
	for changed := true; changed; {
		changed = false
		for i, ax := range ex.preludeAxioms {
			if include[i] {
				continue
			}
			for _, s := range ax.Syms {
				if used[s] {
					include[i] = true
					changed = true
					for _, s2 := range ax.Syms {
						if ex.preludeSyms[s2] && !used[s2] {
							used[s2] = true
						}
					}
					break
				}
			}
		}
	}
	var ax strings.Builder
	for i, a := range ex.preludeAxioms {
		if include[i] {
			ax.WriteString(a.Text)
			ax.WriteByte('\n')
		}
	}
	decls := ex.U.Decls(bs)
	all := decls + ax.String() + bs
	var seqAx strings.Builder
	for _, s := range ex.U.order {
		if s.Kind == KSeq && strings.Contains(all, "_"+s.Name[4:]) {
			seqAx.WriteString(ex.U.seqAxioms(s))
		}
	}
	if ob.Kind == "cover" || ground {
		// reachability check: ground facts only (quantified axioms make "sat" answers slow and add nothing here)
		var q strings.Builder
		q.WriteString("; cover " + ob.Name + "\n(set-logic ALL)\n")
		q.WriteString(decls)
		for _, a := range ex.preludeAxioms {
			_ = a
		}
		q.WriteString(bs)
		q.WriteString("(check-sat)\n")
		return q.String()
	}
	var q strings.Builder
	q.WriteString("; obligation " + ob.Name + "\n; " + strings.ReplaceAll(ob.Text, "\n", " ") + "\n")
	q.WriteString("(set-option :produce-models true)\n(set-logic ALL)\n")
	q.WriteString(decls)
	q.WriteString(seqAx.String())
	q.WriteString(ex.U.boxAxioms(all))
	q.WriteString(ax.String())
	q.WriteString(bs)
	q.WriteString("(check-sat)\n")
	return q.String()
}

type solveResult struct {
	status string // unsat sat unknown timeout error
	solver string
	ms     int64
	out    string
}

func runSolver(ctx context.Context, s SolverCfg, file string) solveResult {
	start := time.Now()
	cmd := exec.CommandContext(ctx, s.Cmd[0], append(s.Cmd[1:], file)...)
	var out bytes.Buffer
	cmd.Stdout = &out
	cmd.Stderr = &out
	err := cmd.Run()
	ms := time.Since(start).Milliseconds()
	txt := out.String()
	first := strings.TrimSpace(strings.SplitN(txt, "\n", 2)[0])
	switch first {
	case "unsat", "sat", "unknown":
		return solveResult{first, s.Name, ms, txt}
	case "timeout":
		return solveResult{"timeout", s.Name, ms, txt}
	}
	if ctx.Err() != nil {
		return solveResult{"timeout", s.Name, ms, txt}
	}
	if strings.Contains(txt, "timeout") || strings.Contains(txt, "interrupted") {
		return solveResult{"timeout", s.Name, ms, txt}
	}
	_ = err
	return solveResult{"error", s.Name, ms, txt}
}

// race runs all solvers on the query; the first definitive answer wins.
func race(query string, dir string, name string, timeoutS int, wantModel bool, second bool) (solveResult, []solveResult) {
	file := filepath.Join(dir, sanitizeFile(name)+".smt2")
	os.WriteFile(file, []byte(query), 0644)
	ctx, cancel := context.WithTimeout(context.Background(), time.Duration(timeoutS+2)*time.Second)
	defer cancel()
	ss := solvers(timeoutS)
	ch := make(chan solveResult, len(ss))
	for _, s := range ss {
		go func(s SolverCfg) { ch <- runSolver(ctx, s, file) }(s)
	}
	var all []solveResult
	var best solveResult
	got := false
	for range ss {
		r := <-ch
		all = append(all, r)
		if r.status == "unsat" || r.status == "sat" {
			if !got {
				best, got = r, true
				if !second {
					cancel()
				}
			} else if second && r.status != best.status {
				// disagreement between solvers: machinery error
				best.out += "\nDISAGREEMENT: " + r.solver + " says " + r.status
				best.status = "error"
			}
		}
	}
	if !got {
		// prefer unknown over timeout over error for reporting
		for _, pref := range []string{"unknown", "timeout", "error"} {
			for _, r := range all {
				if r.status == pref {
					return r, all
				}
			}
		}
	}
	return best, all
}

func sanitizeFile(s string) string {
	r := strings.NewReplacer("/", "_", ":", "_", "#", "_", ">", "_", "*", "_", " ", "_", "$", "_")
	return r.Replace(s)
}

// getModel re-runs one solver with (get-model) for a refuted obligation
func getModel(query string, dir, name string, timeoutS int, solver string) string {
	file := filepath.Join(dir, sanitizeFile(name)+".model.smt2")
	os.WriteFile(file, []byte(query+"(get-model)\n"), 0644)
	for _, s := range solvers(timeoutS) {
		if s.Name != solver {
			continue
		}
		ctx, cancel := context.WithTimeout(context.Background(), time.Duration(timeoutS+2)*time.Second)
		r := runSolver(ctx, s, file)
		cancel()
		return r.out
	}
	return ""
}

// solveAll discharges obligations in parallel
func solveAll(items []*solveItem, dir string, timeoutS int, workers int, second bool) {
	var wg sync.WaitGroup
	ch := make(chan *solveItem)
	for w := 0; w < workers; w++ {
		wg.Add(1)
		go func() {
			defer wg.Done()
			for it := range ch {
				if it.done {
					continue
				}
				tmo := timeoutS
				if it.ob.Kind == "cover" {
					tmo = 3
				} else if it.short && tmo > 2 {
					tmo = 2
				}
				r, all := race(it.query, dir, it.ob.Name, tmo, false, second && it.ob.Kind != "cover")
				it.ob.Solver, it.ob.TimeMs, it.ob.Output = r.solver, r.ms, strings.TrimSpace(r.out)
				switch r.status {
				case "unsat":
					it.ob.Status = "discharged"
				case "sat":
					it.ob.Status = "refuted"
					if it.ob.Kind != "cover" {
						it.ob.Model = getModel(it.query, dir, it.ob.Name, timeoutS, r.solver)
					}
				default:
					it.ob.Status = r.status
					if it.ground != "" {
						// candidate counterexample: the same goal without quantified axioms (may be spurious; used for replay only)
						gr, _ := race(it.ground, dir, it.ob.Name+".ground", 3, false, false)
						if gr.status == "sat" {
							it.ob.Model = "; candidate model (quantified axioms dropped)\n" + getModel(it.ground, dir, it.ob.Name+".ground", 3, gr.solver)
						} else if gr.status == "unsat" {
							it.ob.Status, it.ob.Solver, it.ob.TimeMs = "discharged", gr.solver+" (ground)", it.ob.TimeMs+gr.ms
						}
					}
				}
				if second {
					n := 0
					for _, a := range all {
						if a.status == "unsat" {
							n++
						}
					}
					it.agree = n
				}
			}
		}()
	}
	for _, it := range items {
		ch <- it
	}
	close(ch)
	wg.Wait()
}

type solveItem struct {
	ob     *Obligation
	query  string
	ground string
	agree  int
	short  bool
	done   bool
}
