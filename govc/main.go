package main

import (
	"encoding/json"
	"flag"
	"fmt"
	"os"
	"path/filepath"
	"sort"
	"strconv"
	"strings"
	"time"
)

var (
	verifDir = "/verif"
	repoDir  = "/repo"
	outBase  = "/verif/out"
)

func main() {
	// scratch copies (must-fail corpus, experiments): the registered commands never set these
	if v := os.Getenv("GOVC_REPO"); v != "" {
		repoDir = v
		outBase = v + ".out"
	}
	if len(os.Args) < 2 {
		fmt.Fprintln(os.Stderr, "usage: govc check|funcs|effects ...")
		os.Exit(2)
	}
	switch os.Args[1] {
	case "check":
		os.Exit(cmdCheck(os.Args[2:]))
	case "funcs":
		cmdFuncs(os.Args[2:])
	default:
		fmt.Fprintln(os.Stderr, "unknown command", os.Args[1])
		os.Exit(2)
	}
}

func loadAll() *Prog {
	p, err := LoadProg(repoDir)
	if err != nil {
		fmt.Fprintln(os.Stderr, "ERROR load:", err)
		os.Exit(2)
	}
	p.ComputeEffects()
	p.ComputeReach()
	return p
}

func cmdFuncs(args []string) {
	fs := flag.NewFlagSet("funcs", flag.ExitOnError)
	fs.StringVar(&repoDir, "repo", repoDir, "")
	fs.Parse(args)
	p := loadAll()
	for _, n := range p.Order {
		fi := p.Funcs[n]
		c := ""
		if fi.Contract != nil {
			c = " [contract: " + strings.Join(fi.Contract.AllTags(), ",") + "]"
		}
		fmt.Printf("%s%s %s\n", n, c, p.Effects[n].Describe())
	}
	for _, e := range p.BindErrors {
		fmt.Println("BIND ERROR:", e)
	}
}

type Finding struct {
	Kind       string // finding | fixed
	Property   string
	Obligation string
	Witness    string
	Text       string
}

func loadFindings() []Finding {
	var fs []Finding
	b, err := os.ReadFile(filepath.Join(verifDir, "known_findings.txt"))
	if err != nil {
		return nil
	}
	for _, l := range strings.Split(string(b), "\n") {
		l = strings.TrimSpace(l)
		if l == "" || strings.HasPrefix(l, "#") {
			continue
		}
		var f Finding
		switch {
		case strings.HasPrefix(l, "finding:"):
			f.Kind = "finding"
			l = strings.TrimSpace(l[8:])
		case strings.HasPrefix(l, "fixed:"):
			f.Kind = "fixed"
			l = strings.TrimSpace(l[6:])
		default:
			continue
		}
		var rest []string
		for _, w := range strings.Fields(l) {
			switch {
			case strings.HasPrefix(w, "property=") && f.Property == "":
				f.Property = w[9:]
			case strings.HasPrefix(w, "obligation=") && f.Obligation == "":
				f.Obligation = w[11:]
			case strings.HasPrefix(w, "witness=") && f.Witness == "":
				f.Witness = w[8:]
			default:
				rest = append(rest, w)
			}
		}
		f.Text = strings.Join(rest, " ")
		fs = append(fs, f)
	}
	return fs
}

func loadExpected(prop string) (map[string]bool, bool) {
	b, err := os.ReadFile(filepath.Join(verifDir, "obligations", "expected", prop+".txt"))
	if err != nil {
		return map[string]bool{}, false
	}
	m := map[string]bool{}
	for _, l := range strings.Split(string(b), "\n") {
		l = strings.TrimSpace(l)
		if l != "" && !strings.HasPrefix(l, "#") {
			m[l] = true
		}
	}
	return m, true
}

func hasTag(tags []string, t string) bool {
	for _, x := range tags {
		if x == t {
			return true
		}
	}
	return false
}

type oblRec struct {
	Name   string `json:"name"`
	Kind   string `json:"kind"`
	Func   string `json:"function"`
	Status string `json:"status"`
	Solver string `json:"solver,omitempty"`
	TimeMs int64  `json:"time_ms"`
	Pos    string `json:"pos,omitempty"`
	Text   string `json:"text,omitempty"`
	Agree  int    `json:"solvers_agreeing,omitempty"`
}

func cmdCheck(args []string) int {
	fs := flag.NewFlagSet("check", flag.ExitOnError)
	prop := fs.String("prop", "", "property id")
	tier := fs.String("tier", "quick", "quick|thorough")
	only := fs.String("func", "", "only this function (debug)")
	update := fs.Bool("update-expected", false, "rewrite the expected-obligation list from this run")
	timeout := fs.Int("timeout", 0, "per-obligation solver timeout (s)")
	verbose := fs.Bool("v", false, "verbose")
	noEvidence := fs.Bool("no-evidence", false, "do not write the evidence file")
	fs.StringVar(&repoDir, "repo", repoDir, "")
	fs.StringVar(&verifDir, "verif", verifDir, "")
	fs.Parse(args)
	if *prop == "" {
		fmt.Fprintln(os.Stderr, "missing -prop")
		return 2
	}
	specDir = filepath.Join(verifDir, "spec")
	start := time.Now()
	seed := 0
	if s := os.Getenv("VERIF_SEED"); s != "" {
		seed, _ = strconv.Atoi(s)
	}
	if t := os.Getenv("VERIF_TIER"); t != "" && *tier == "" {
		*tier = t
	}
	tmo := 30
	if *tier == "thorough" {
		tmo = 60
	}
	if *timeout > 0 {
		tmo = *timeout
	}
	p := loadAll()
	// targets
	var exposed map[string]bool
	var targets []*FuncInfo
	for _, n := range p.Order {
		fi := p.Funcs[n]
		if *only != "" && n != *only {
			continue
		}
		if *prop == "C17" {
			if strings.HasSuffix(fi.File, "/peg.go") {
				continue // generated PEG interpreter: out of the subset (it recovers its own panics); bounded stand-in under C16
			}
			if exposed == nil {
				exposed = p.exposedToEntryPoints()
			}
			if !exposed[n] {
				continue // not reachable from a public entry point except below a frame that recovers panics into an error
			}
			targets = append(targets, fi)
			continue
		}
		if fi.Contract != nil && hasTag(fi.Contract.AllTags(), *prop) {
			targets = append(targets, fi)
		}
	}
	outDir := filepath.Join(outBase, "smt", *prop)
	os.RemoveAll(outDir)
	os.MkdirAll(outDir, 0755)
	var items []*solveItem
	var outOfSubset []string
	oosFuncs := map[string]string{}
	notes := map[string]bool{}
	funcsUnder := []string{}
	for _, fi := range targets {
		ex := NewExec(p, fi)
		func() {
			defer func() {
				if r := recover(); r != nil {
					ex.unsupported = fmt.Sprintf("translator panic: %v", r)
					if *verbose {
						panic(r)
					}
				}
			}()
			ex.Run()
		}()
		if ex.unsupported != "" {
			outOfSubset = append(outOfSubset, fi.Name+": "+ex.unsupported)
			oosFuncs[fi.Name] = ex.unsupported
			continue
		}
		n := 0
		for _, ob := range ex.obls {
			// every proof obligation of a function in the property's cone supports the property's own obligations
			// (invariants and callee preconditions are assumed after being asserted), whatever tag it carries;
			// safety obligations belong to C17 only
			supporting := *prop != "C17" && ob.Kind != "safe" && ob.Kind != "cover" && fi.Contract != nil && !(len(ob.Tags) == 1 && ob.Tags[0] == "C17")
			if *prop == "C17" && ob.Kind != "cover" && fi.Contract != nil {
				// the sweep assumes every requires / invariant / callee ensures of the exposed functions, whatever its tag:
				// all of them are obligations of the sweep as well
				supporting = !(ob.Detached && !hasTag(ob.Tags, "C17"))
			}
			if *prop == "C07" && ob.Kind == "safe" && (strings.Contains(ob.Name, "#index#") || strings.Contains(ob.Name, "#slice")) && fi.Contract != nil && contractHasTag(fi.Contract, "C07") {
				// an index out of range in a function whose postcondition carries the property (the name list of the variable
				// generator) is a failed compilation of a well-formed profile
				supporting = true
			}
			if !hasTag(ob.Tags, *prop) && !supporting {
				continue
			}
			if *prop == "C17" && ob.Kind == "cover" && fi.Contract == nil {
				continue // covers of functions without contract say nothing
			}
			it := &solveItem{ob: ob, query: ex.Query(ob)}
			if ob.Kind != "cover" {
				it.ground = ex.GroundQuery(ob)
			}
			items = append(items, it)
			n++
		}
		if n > 0 {
			funcsUnder = append(funcsUnder, fi.Name)
			for _, nt := range ex.notes {
				notes[nt] = true
			}
		}
	}
	// analysis obligations (frame / determinism back end)
	for _, ob := range p.FrameObligations(*prop) {
		items = append(items, &solveItem{ob: ob, done: true})
		funcsUnder = append(funcsUnder, ob.Func)
	}
	// contract binding
	executed := map[string]bool{}
	for _, fi := range targets {
		executed[fi.Name] = true
	}
	for _, c := range p.Contracts {
		for k, l := range c.Loops {
			if c.bound && !l.seen && executed[c.Func] && oosFuncs[c.Func] == "" {
				if fi := p.Funcs[c.Func]; fi != nil && (*only == "" || *only == c.Func) {
					p.bindProblem(c.Func, fmt.Sprintf("%s: loop %d of the contract (%s) has no loop in the code", c.Func, k, l.Header))
				}
			}
		}
	}
	sort.Strings(p.BindErrors)
	bindErr := false
	for i, e := range p.BindErrors {
		if i > 0 && e == p.BindErrors[i-1] {
			continue
		}
		fmt.Println("ERROR contract-binding", e)
		bindErr = true
	}
	second := *tier == "thorough"
	expected, haveExpected := loadExpected(*prop)
	findings := loadFindings()
	known := map[string]Finding{}
	for _, f := range findings {
		if f.Kind == "finding" && f.Property == *prop {
			known[f.Obligation] = f
		}
	}
	knownElsewhere := map[string]bool{}
	for _, f := range findings {
		if f.Kind == "finding" && f.Property != *prop {
			knownElsewhere[f.Obligation] = true
		}
	}
	var kept []*solveItem
	for _, it := range items {
		// a supporting obligation that is a recorded finding of another property is reported there, not here
		if knownElsewhere[it.ob.Name] && !hasTag(it.ob.Tags, *prop) {
			continue
		}
		kept = append(kept, it)
	}
	items = kept
	for _, it := range items {
		_, isKnown := known[it.ob.Name]
		if (haveExpected && !*update && !expected[it.ob.Name]) || isKnown {
			it.short = true // unclaimed obligation (or a recorded finding): decided quickly or left undecided
		}
	}
	solveAll(items, outDir, tmo, 8, second)

	replayDir := filepath.Join(outBase, "replay", *prop)
	os.RemoveAll(replayDir)
	os.MkdirAll(replayDir, 0755)

	var recs []oblRec
	var violations []string
	nDis, nObl := 0, 0
	var undecided, knownHit []string
	var samples []any
	var solverMs int64
	seen := map[string]bool{}
	bindUndecided := map[string][]string{}
	var newExpected []string
	for _, it := range items {
		ob := it.ob
		good := ob.Status == "discharged"
		if ob.Expect == "sat" {
			good = ob.Status != "discharged" && ob.Status != "error"
		}
		seen[ob.Name] = true
		solverMs += ob.TimeMs
		rec := oblRec{Name: ob.Name, Kind: ob.Kind, Func: ob.Func, Status: ob.Status, Solver: ob.Solver, TimeMs: ob.TimeMs, Pos: ob.Pos, Text: ob.Text, Agree: it.agree}
		if ob.Expect == "sat" {
			if good {
				rec.Status = "reachable"
			} else {
				rec.Status = "vacuous"
			}
		}
		recs = append(recs, rec)
		if *verbose || !good {
			fmt.Printf("OBLIGATION %s status=%s solver=%s time=%dms  (%s)\n", ob.Name, rec.Status, ob.Solver, ob.TimeMs, ob.Pos)
			if !good && ob.Solver == "frame-checker" {
				for _, l := range strings.Split(ob.Output, "\n") {
					fmt.Println("    " + l)
				}
			}
		}
		if good {
			newExpected = append(newExpected, ob.Name)
		}
		if kf, isKnown := known[ob.Name]; isKnown {
			if !good {
				fmt.Printf("KNOWN-FINDING: property=%s %s %s\n", *prop, ob.Name, kf.Text)
				knownHit = append(knownHit, ob.Name)
			} else {
				fmt.Printf("NOTE known finding %s no longer fails\n", ob.Name)
				nObl++
				nDis++
			}
			continue
		}
		if !haveExpected || expected[ob.Name] {
			nObl++
			if good {
				nDis++
				if len(samples) < 6 && ob.Kind != "cover" {
					samples = append(samples, map[string]any{"obligation": ob.Name, "kind": ob.Kind, "text": ob.Text, "solver": ob.Solver, "time_ms": ob.TimeMs})
				}
			} else if haveExpected {
				path := writeReplay(replayDir, *prop, ob, p)
				confirmed := replayConfirmed(path)
				opk := ob.Func
				if i := strings.Index(opk, "."); i >= 0 {
					opk = opk[:i]
				}
				if len(p.OrphanPkgs[opk]) > 0 && len(p.BindByFunc[ob.Func]) == 0 {
					p.bindProblem(ob.Func, p.OrphanPkgs[opk][0]+": a function under contract of this package is gone, its callers' proofs have lost it")
				}
				// (an obligation decided from the typed AST does not depend on how the contract binds)
				if (len(p.BindByFunc[ob.Func]) > 0 || len(p.ApproxBind[ob.Func]) > 0) && !confirmed && ob.Solver != "frame-checker" {
					// the contract of this function no longer fits its code (a loop was restructured, a local renamed): the
					// failed proof says nothing about the property. Undecided; the check ends with status 2, not with a violation
					bindUndecided[ob.Func] = append(bindUndecided[ob.Func], ob.Name)
					undecided = append(undecided, ob.Name)
					continue
				}
				suffix := ""
				if !confirmed {
					suffix = " no-failing-input-found"
				}
				violations = append(violations, fmt.Sprintf("VIOLATION property=%s replay=%s%s", *prop, path, suffix))
			}
		} else if !good && ob.Solver == "frame-checker" && ob.Status == "refuted" {
			// decided by the frame / determinism back end (no solver involved): a new source of shared state or nondeterminism
			path := writeReplay(replayDir, *prop, ob, p)
			suffix := ""
			if !replayConfirmed(path) {
				suffix = " no-failing-input-found"
			}
			violations = append(violations, fmt.Sprintf("VIOLATION property=%s replay=%s%s", *prop, path, suffix))
			nObl++
		} else if !good && *prop == "C17" && (ob.Kind == "safe" || ob.Kind == "pre" || strings.HasPrefix(ob.Name, "safe:") || strings.HasPrefix(ob.Name, "pre:")) && replayConfirmed(writeReplay(replayDir, *prop, ob, p)) {
			// a new panic site (or a new call whose precondition fails) in code exposed to the entry points, and the panic
			// corpus makes the working tree panic: a violation with a concrete input
			violations = append(violations, fmt.Sprintf("VIOLATION property=%s replay=%s", *prop, filepath.Join(replayDir, sanitizeFile(ob.Name)+".json")))
			nObl++
		} else if !good {
			// a new, unclaimed obligation that does not discharge: undecided unless it replays
			undecided = append(undecided, ob.Name)
			if *verbose {
				fmt.Printf("UNDECIDED %s\n", ob.Name)
			}
		}
	}
	// recorded findings against an assumed clause: the clause is never checked, so the finding is printed whenever the
	// contracts of this property still carry it (it says: this assumption is known to be false for the recorded inputs)
	for _, n := range sortedKeys(known) {
		if !strings.HasPrefix(n, "assumed:") || seen[n] {
			continue
		}
		fn, id := oblFunc(n), ""
		if j := strings.LastIndex(n, "#"); j >= 0 {
			id = n[j+1:]
		}
		if fi := p.Funcs[fn]; fi != nil && fi.Contract != nil {
			for _, cl := range fi.Contract.Of("ensures-assumed") {
				if cl.ID == id && hasTag(cl.Tags, *prop) {
					fmt.Printf("KNOWN-FINDING: property=%s %s %s\n", *prop, n, known[n].Text)
					knownHit = append(knownHit, n)
					break
				}
			}
		}
	}
	// expected obligations that were not generated
	var missing []string
	for n := range expected {
		if !seen[n] && *only == "" {
			missing = append(missing, n)
		}
	}
	sort.Strings(missing)
	for _, m := range missing {
		// an expected obligation that is no longer generated is harmless (a call or a panic site went away) unless its
		// function left the supported subset: then nothing about it can be re-established
		fn := oblFunc(m)
		if why, bad := oosFuncs[fn]; bad && !strings.HasPrefix(m, "cover:") && !strings.HasPrefix(m, "safe:") {
			ob := &Obligation{Name: m, Kind: "subset", Func: fn, Status: "not-generated", Output: "function " + fn + " is outside the verifiable subset: " + why + "; the obligation, discharged on the unchanged tree, can no longer be established", Text: "obligation not generated"}
			path := writeReplay(replayDir, *prop, ob, p)
			violations = append(violations, fmt.Sprintf("VIOLATION property=%s replay=%s no-failing-input-found", *prop, path))
			fmt.Printf("OBLIGATION %s status=not-generated (%s out of subset: %s)\n", m, fn, why)
		}
	}
	for _, o := range outOfSubset {
		fmt.Println("OUT-OF-SUBSET", o)
	}
	if *update {
		sort.Strings(newExpected)
		os.MkdirAll(filepath.Join(verifDir, "obligations", "expected"), 0755)
		os.WriteFile(filepath.Join(verifDir, "obligations", "expected", *prop+".txt"), []byte(strings.Join(newExpected, "\n")+"\n"), 0644)
		fmt.Printf("expected list rewritten: %d obligations\n", len(newExpected))
	}
	// binding problems: an error (status 2) only where an obligation of that function could not be established
	for _, pk := range sortedKeys(p.OrphanPkgs) {
		for _, m := range p.OrphanPkgs[pk] {
			fmt.Println("NOTE contract-binding", m)
		}
	}
	for _, fn := range sortedKeys(p.ApproxBind) {
		if len(bindUndecided[fn]) > 0 && len(p.BindByFunc[fn]) == 0 {
			p.bindProblem(fn, p.ApproxBind[fn][0]+" (guessed); the proof over the guessed binding failed")
		} else {
			fmt.Println("NOTE contract-binding", p.ApproxBind[fn][0])
		}
	}
	for _, fn := range sortedKeys(p.BindByFunc) {
		word := "NOTE contract-binding"
		if len(bindUndecided[fn]) > 0 {
			word = "ERROR contract-binding"
			bindErr = true
		}
		for _, m := range p.BindByFunc[fn] {
			fmt.Println(word, m)
		}
		for _, o := range bindUndecided[fn] {
			fmt.Printf("UNDECIDED %s (the contract of %s does not bind to the changed code)\n", o, fn)
		}
	}
	for _, v := range violations {
		fmt.Println(v)
	}
	wall := time.Since(start).Seconds()
	if !*noEvidence && *only == "" && os.Getenv("GOVC_REPO") == "" {
		writeEvidence(*prop, *tier, seed, recs, nObl, nDis, len(violations), funcsUnder, undecided, knownHit, outOfSubset, notes, samples, solverMs, wall, tmo)
	}
	fmt.Printf("SUMMARY property=%s functions=%d obligations=%d discharged=%d known-findings=%d undecided=%d violations=%d wall=%.1fs\n", *prop, len(funcsUnder), nObl, nDis, len(knownHit), len(undecided), len(violations), wall)
	if len(violations) > 0 {
		return 1
	}
	if bindErr {
		return 2
	}
	return 0
}

// oblFunc extracts the function an obligation name belongs to
func oblFunc(name string) string {
	i := strings.Index(name, ":")
	if i < 0 {
		return ""
	}
	rest := name[i+1:]
	if j := strings.Index(rest, "->"); j >= 0 {
		return rest[:j]
	}
	if j := strings.Index(rest, "#"); j >= 0 {
		return rest[:j]
	}
	return rest
}

func replayConfirmed(path string) bool {
	b, err := os.ReadFile(path)
	if err != nil {
		return false
	}
	var m map[string]any
	if json.Unmarshal(b, &m) != nil {
		return false
	}
	r, _ := m["replay"].(map[string]any)
	c, _ := r["confirmed"].(bool)
	return c
}

func writeReplay(dir, prop string, ob *Obligation, p *Prog) string {
	path := filepath.Join(dir, sanitizeFile(ob.Name)+".json")
	rep := map[string]any{
		"property": prop, "obligation": ob.Name, "kind": ob.Kind, "function": ob.Func, "position": ob.Pos, "clause": ob.Text,
		"status": ob.Status, "solver": ob.Solver, "solver_output": ob.Output, "model": ob.Model,
		"query_file": filepath.Join(outBase, "smt", prop, sanitizeFile(ob.Name)+".smt2"),
	}
	rep["replay"] = attemptReplay(prop, ob, p, dir)
	b, _ := json.MarshalIndent(rep, "", " ")
	os.WriteFile(path, b, 0644)
	return path
}

func writeEvidence(prop, tier string, seed int, recs []oblRec, nObl, nDis, nViol int, funcs, undecided, known, oos []string, notes map[string]bool, samples []any, solverMs int64, wall float64, tmo int) {
	level := manifestLevel(prop)
	expl := fmt.Sprintf("%d of %d claimed obligations discharged (SMT solvers and, for frame:/det:/own:/esc:/hyg: obligations, the typed effect analysis); %d known findings open", nDis, nObl, len(known))
	if level == "proof" && (nObl != nDis || len(known) > 0 || nObl == 0) {
		level = "other"
		expl += "; not counted as proved"
	}
	var ns []string
	for n := range notes {
		ns = append(ns, n)
	}
	sort.Strings(ns)
	bySolver := map[string]int{}
	for _, r := range recs {
		if r.Status == "discharged" {
			bySolver[r.Solver]++
		}
	}
	trusted := trustedBase(prop)
	cov := map[string]any{
		"obligations": nObl, "discharged": nDis,
		"checker_cmd":              fmt.Sprintf("bin/govc check -prop %s -tier %s (z3 4.8.12 | z3 5.1.0 | cvc5 1.0 raced, %ds per obligation)", prop, tier, tmo),
		"trusted_base":             trusted,
		"functions_under_contract": funcs,
		"obligation_list":          recs,
		"discharged_by_solver":     bySolver,
		"solver_time_ms":           solverMs,
		"undecided_unclaimed":      undecided,
		"known_findings":           known,
		"out_of_subset":            oos,
		"abstractions_used":        ns,
		"samples":                  samples,
	}
	cov["explanation"] = expl
	if len(samples) == 0 {
		cov["samples"] = []any{map[string]any{"note": "no discharged obligation to sample"}}
	}
	ev := map[string]any{"property_id": prop, "tier": tier, "seed": seed, "level": level, "coverage": cov, "assumptions": trusted, "wall_s": wall, "violations": nViol}
	os.MkdirAll(filepath.Join(verifDir, "evidence"), 0755)
	b, _ := json.MarshalIndent(ev, "", " ")
	os.WriteFile(filepath.Join(verifDir, "evidence", prop+".json"), b, 0644)
}

// manifestLevel: the level category claimed for the property in MANIFEST.json (the evidence must carry the same level)
func manifestLevel(prop string) string {
	b, err := os.ReadFile(filepath.Join(verifDir, "MANIFEST.json"))
	if err != nil {
		return "proof"
	}
	var m struct {
		Checks []struct {
			PropertyID   string `json:"property_id"`
			LevelClaimed struct {
				Category string `json:"category"`
			} `json:"level_claimed"`
		} `json:"checks"`
	}
	if json.Unmarshal(b, &m) != nil {
		return "proof"
	}
	for _, c := range m.Checks {
		if c.PropertyID == prop && c.LevelClaimed.Category != "" {
			return c.LevelClaimed.Category
		}
	}
	return "proof"
}

func trustedBase(prop string) []string {
	base := []string{
		"govc itself (translator, symbolic executor, effect analysis) is unverified; guarded by cover/canary queries and the must-fail corpus",
		"SMT solvers z3 4.8.12, z3 5.1.0, cvc5 1.0 (raced; thorough tier asks for agreement)",
		"Go int treated as mathematical integer (A-INT); strings as SMT-LIB strings (A-UTF8)",
		"slices have value semantics in the logic (aliasing covered separately by own: obligations where claimed)",
		"sequence axioms (empty/snoc/take/concat/upd/sub/mk) and the inductive consequences asserted for folds (over concat, at an element) are theorems about finite lists: proved in /verif/lean/SeqAxioms.lean (Lean 4 + Mathlib), re-checked by the thorough tier; the SMT encoding keeps the operations uninterpreted, so the axioms can be incomplete but not inconsistent with lists",
		"closed world of interface implementations: the named types of the loaded repository packages",
		"external (dependency / standard library) functions: no panic, results unconstrained unless modelled; write only through pointer/map arguments",
	}
	b, err := os.ReadFile(filepath.Join(verifDir, "spec", "assumptions", prop+".txt"))
	if err == nil {
		for _, l := range strings.Split(string(b), "\n") {
			if strings.TrimSpace(l) != "" {
				base = append(base, strings.TrimSpace(l))
			}
		}
	}
	return base
}
