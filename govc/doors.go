package main

// Library doors: the assumed contracts of json-gold and encoding/json (A-LD, A-JSON) are stated for the library as the
// repository configures it on the unchanged tree - default JSON-LD options, a decoder with UseNumber. These obligations,
// decided from the typed AST of the working tree (solver name frame-checker), pin that configuration: a change that hands
// the library other options, or decodes the data another way, falls outside the assumed contract and fails here.
//
//   door:jsonld#default-options     every JSON-LD processor call in non-test repository code passes options that come
//                                   straight from ld.NewJsonLdOptions("") and are not written to or handed on
//   door:json-decode#exact-numbers  the data document is decoded only by an encoding/json Decoder on which UseNumber was
//                                   called in the same function; no other decoding entry of encoding/json is used

import (
	"fmt"
	"go/ast"
	"go/constant"
	"go/types"
	"sort"
	"strings"
)

const ldPkg = "github.com/piprate/json-gold/ld"

func calleeOf(info *types.Info, c *ast.CallExpr) *types.Func {
	switch f := ast.Unparen(c.Fun).(type) {
	case *ast.Ident:
		fn, _ := info.Uses[f].(*types.Func)
		return fn
	case *ast.SelectorExpr:
		fn, _ := info.Uses[f.Sel].(*types.Func)
		return fn
	}
	return nil
}

func (p *Prog) doorObligations(tags []string) []*Obligation {
	var ldBad, ldSeen, decBad, decSeen []string
	var names []string
	for n := range p.Funcs {
		names = append(names, n)
	}
	sort.Strings(names)
	for _, n := range names {
		fi := p.Funcs[n]
		if fi.Body() == nil || strings.HasSuffix(p.Fset.Position(fi.Decl.Pos()).Filename, "_test.go") {
			continue
		}
		info := fi.Pkg.TypesInfo
		// per function: how each local is defined and every other use of it
		type localUse struct {
			defs   []ast.Expr
			stores int // x.f = ..., x[...] = ..., &x, x passed to a call other than the door itself
		}
		locals := map[types.Object]*localUse{}
		get := func(o types.Object) *localUse {
			if locals[o] == nil {
				locals[o] = &localUse{}
			}
			return locals[o]
		}
		useNumber := map[types.Object]bool{}
		var doorCalls []*ast.CallExpr
		var decodeCalls []*ast.CallExpr
		ast.Inspect(fi.Body(), func(nd ast.Node) bool {
			switch s := nd.(type) {
			case *ast.AssignStmt:
				for i, l := range s.Lhs {
					switch lx := ast.Unparen(l).(type) {
					case *ast.Ident:
						o := info.Defs[lx]
						if o == nil {
							o = info.Uses[lx]
						}
						if o != nil && i < len(s.Rhs) && len(s.Lhs) == len(s.Rhs) {
							get(o).defs = append(get(o).defs, s.Rhs[i])
						} else if o != nil {
							get(o).defs = append(get(o).defs, nil)
						}
					case *ast.SelectorExpr:
						if id, ok := ast.Unparen(lx.X).(*ast.Ident); ok {
							if o := info.Uses[id]; o != nil {
								get(o).stores++
							}
						}
					case *ast.IndexExpr:
						if id, ok := ast.Unparen(lx.X).(*ast.Ident); ok {
							if o := info.Uses[id]; o != nil {
								get(o).stores++
							}
						}
					}
				}
			case *ast.ValueSpec:
				for i, id := range s.Names {
					if o := info.Defs[id]; o != nil {
						if i < len(s.Values) {
							get(o).defs = append(get(o).defs, s.Values[i])
						} else {
							get(o).defs = append(get(o).defs, nil)
						}
					}
				}
			case *ast.UnaryExpr:
				if id, ok := ast.Unparen(s.X).(*ast.Ident); ok && s.Op.String() == "&" {
					if o := info.Uses[id]; o != nil {
						get(o).stores++
					}
				}
			case *ast.CallExpr:
				fn := calleeOf(info, s)
				if fn == nil || fn.Pkg() == nil {
					return true
				}
				sig, _ := fn.Type().(*types.Signature)
				recvName := ""
				if sig != nil && sig.Recv() != nil {
					t := sig.Recv().Type()
					if pt, ok := t.(*types.Pointer); ok {
						t = pt.Elem()
					}
					if nt, ok := t.(*types.Named); ok {
						recvName = nt.Obj().Name()
					}
				}
				isDoor := fn.Pkg().Path() == ldPkg && recvName == "JsonLdProcessor"
				if isDoor {
					doorCalls = append(doorCalls, s)
				}
				if fn.Pkg().Path() == "encoding/json" {
					switch {
					case recvName == "Decoder" && fn.Name() == "UseNumber":
						if sel, ok := s.Fun.(*ast.SelectorExpr); ok {
							if id, ok := ast.Unparen(sel.X).(*ast.Ident); ok {
								if o := info.Uses[id]; o != nil {
									useNumber[o] = true
								}
							}
						}
					case recvName == "Decoder" && (fn.Name() == "Decode" || fn.Name() == "Token"), recvName == "" && (fn.Name() == "Unmarshal"):
						decodeCalls = append(decodeCalls, s)
					}
				}
				// a local handed to any other call may be changed there
				if !isDoor {
					for _, a := range s.Args {
						if id, ok := ast.Unparen(a).(*ast.Ident); ok {
							if o := info.Uses[id]; o != nil {
								if _, isVar := o.(*types.Var); isVar {
									if _, isPtrLike := o.Type().Underlying().(*types.Pointer); isPtrLike {
										get(o).stores++
									}
								}
							}
						}
					}
				}
			}
			return true
		})
		for _, c := range doorCalls {
			fn := calleeOf(info, c)
			where := fmt.Sprintf("%s: %s at %s", n, fn.Name(), p.pos(c))
			ldSeen = append(ldSeen, where)
			// the options argument is the one of type *ld.JsonLdOptions
			found := false
			for _, a := range c.Args {
				t := info.TypeOf(a)
				pt, ok := t.(*types.Pointer)
				if !ok {
					continue
				}
				nt, ok := pt.Elem().(*types.Named)
				if !ok || nt.Obj().Name() != "JsonLdOptions" {
					continue
				}
				found = true
				id, ok := ast.Unparen(a).(*ast.Ident)
				if !ok {
					if dc, ok := ast.Unparen(a).(*ast.CallExpr); ok && isDefaultLdOptions(info, dc) {
						continue
					}
					ldBad = append(ldBad, where+": the options argument is not a local initialised by ld.NewJsonLdOptions(\"\")")
					continue
				}
				u := locals[info.Uses[id]]
				if u == nil || len(u.defs) != 1 || u.defs[0] == nil {
					ldBad = append(ldBad, where+": the options variable has no single definition")
					continue
				}
				dc, ok := ast.Unparen(u.defs[0]).(*ast.CallExpr)
				if !ok || !isDefaultLdOptions(info, dc) {
					ldBad = append(ldBad, where+": the options are not ld.NewJsonLdOptions(\"\")")
					continue
				}
				if u.stores > 0 {
					ldBad = append(ldBad, where+": the options are modified or handed on before the call (a field is assigned, or the variable is passed to another function)")
				}
			}
			if !found {
				ldBad = append(ldBad, where+": no options argument found")
			}
		}
		if fi.Pkg.Types.Path() == repoMod+"/internal/validator" || fi.Pkg.Types.Path() == repoMod+"/pkg" {
			for _, c := range decodeCalls {
				fn := calleeOf(info, c)
				where := fmt.Sprintf("%s: json.%s at %s", n, fn.Name(), p.pos(c))
				decSeen = append(decSeen, where)
				if fn.Name() == "Unmarshal" {
					decBad = append(decBad, where+": json.Unmarshal decodes numbers as float64")
					continue
				}
				sel, _ := c.Fun.(*ast.SelectorExpr)
				id, ok := ast.Unparen(sel.X).(*ast.Ident)
				if ok && useNumber[info.Uses[id]] {
					continue
				}
				// the decoder may come from a helper of the repository that builds it and calls UseNumber before returning it
				fromHelper := false
				if ok {
					if u := locals[info.Uses[id]]; u != nil && len(u.defs) == 1 && u.defs[0] != nil {
						if dc, isCall := ast.Unparen(u.defs[0]).(*ast.CallExpr); isCall {
							if hf := calleeOf(info, dc); hf != nil {
								if h, isRepo := p.ByObj[hf]; isRepo && p.makesExactDecoder(h) {
									fromHelper = true
								}
							}
						}
					}
				}
				if !fromHelper {
					decBad = append(decBad, where+": UseNumber is not called on this decoder (neither in this function nor in the helper that builds it)")
				}
			}
		}
	}
	var obls []*Obligation
	obls = append(obls, analysisObl("door:jsonld#default-options", "frame", tags, len(ldBad) == 0 && len(ldSeen) > 0,
		"every JSON-LD processor call of the repository passes the default options ld.NewJsonLdOptions(\"\"), unmodified (the assumed contract A-LD is stated for that configuration); calls: "+strings.Join(ldSeen, "; "),
		"internal/validator/normalizer.go", strings.Join(ldBad, "\n"), "validator.normalize"))
	obls = append(obls, analysisObl("door:json-decode#exact-numbers", "frame", tags, len(decBad) == 0 && len(decSeen) > 0,
		"the data document is decoded only through an encoding/json Decoder with UseNumber (numbers keep their exact text; A-JSON is stated for that configuration); calls: "+strings.Join(decSeen, "; "),
		"internal/validator/process_input.go", strings.Join(decBad, "\n"), "validator.ProcessInput"))
	return obls
}

func isDefaultLdOptions(info *types.Info, c *ast.CallExpr) bool {
	fn := calleeOf(info, c)
	if fn == nil || fn.Pkg() == nil || fn.Pkg().Path() != ldPkg || fn.Name() != "NewJsonLdOptions" || len(c.Args) != 1 {
		return false
	}
	tv, ok := info.Types[c.Args[0]]
	return ok && tv.Value != nil && tv.Value.Kind() == constant.String && constant.StringVal(tv.Value) == ""
}

// makesExactDecoder: the function builds a json.Decoder, calls UseNumber on it and returns it (and decodes nothing itself)
func (p *Prog) makesExactDecoder(fi *FuncInfo) bool {
	if fi.Body() == nil {
		return false
	}
	info := fi.Pkg.TypesInfo
	made, exact, other := false, false, false
	ast.Inspect(fi.Body(), func(nd ast.Node) bool {
		c, ok := nd.(*ast.CallExpr)
		if !ok {
			return true
		}
		fn := calleeOf(info, c)
		if fn == nil || fn.Pkg() == nil || fn.Pkg().Path() != "encoding/json" {
			return true
		}
		switch fn.Name() {
		case "NewDecoder":
			made = true
		case "UseNumber":
			exact = true
		case "Unmarshal", "Decode", "Token":
			other = true
		}
		return true
	})
	return made && exact && !other
}
