package main

// Frame / determinism back end (C06, C09, C10): obligations decided by the typed effect analysis instead of SMT.
// Each is still modular and named; it is regenerated from the working tree on every run.

import (
	"fmt"
	"go/ast"
	"go/token"
	"go/types"
	"os"
	"path/filepath"
	"regexp"
	"sort"
	"strings"
)

// GlobalWrite describes one way a package-level variable (or the data it refers to) may be written.
type GlobalWrite struct {
	Var    *types.Var
	Func   string
	Pos    string
	How    string
	Atomic bool
}

// paramWrites[f][i] = the function may write through its i-th parameter (receiver = 0 if any): stores via pointer / map
func (p *Prog) computeParamWrites() map[string]map[int]string {
	res := map[string]map[int]string{}
	paramIndex := func(fi *FuncInfo, v *types.Var) int {
		sig := fi.Obj.Type().(*types.Signature)
		k := 0
		if r := sig.Recv(); r != nil {
			if r == v {
				return 0
			}
			k = 1
		}
		for i := 0; i < sig.Params().Len(); i++ {
			if sig.Params().At(i) == v {
				return k + i
			}
		}
		return -1
	}
	for _, n := range p.Order {
		res[n] = map[int]string{}
	}
	changed := true
	for changed {
		changed = false
		for _, n := range p.Order {
			fi := p.Funcs[n]
			if fi.Obj == nil {
				continue
			}
			info := fi.Pkg.TypesInfo
			mark := func(v *types.Var, why string) {
				if v == nil {
					return
				}
				if i := paramIndex(fi, v); i >= 0 {
					if _, ok := res[n][i]; !ok {
						res[n][i] = why
						changed = true
					}
				}
			}
			ast.Inspect(fi.Body(), func(nd ast.Node) bool {
				switch x := nd.(type) {
				case *ast.AssignStmt:
					if x.Tok == token.DEFINE {
						return true
					}
					for _, l := range x.Lhs {
						if v, crossed := rootVar(info, l); crossed {
							mark(v, "store at "+p.pos(l))
						}
					}
				case *ast.IncDecStmt:
					if v, crossed := rootVar(info, x.X); crossed {
						mark(v, "store at "+p.pos(x))
					}
				case *ast.CallExpr:
					callee, args := p.staticCallee(info, x)
					if callee == nil {
						// delete(m, k)
						if id, ok := unparen(x.Fun).(*ast.Ident); ok && id.Name == "delete" && len(x.Args) > 0 {
							if v, _ := rootVar(info, x.Args[0]); v != nil {
								mark(v, "delete at "+p.pos(x))
							}
						}
						return true
					}
					for i, a := range args {
						if why, ok := res[callee.Name][i]; ok {
							e := unparen(a)
							if u, ok := e.(*ast.UnaryExpr); ok && u.Op == token.AND {
								e = unparen(u.X)
							}
							if v, _ := rootVar(info, e); v != nil {
								_ = why
								mark(v, "passed to "+callee.Name+" at "+p.pos(x))
							}
						}
					}
				}
				return true
			})
		}
	}
	return res
}

// staticCallee returns the repository function called and its argument expressions (receiver first)
func (p *Prog) staticCallee(info *types.Info, call *ast.CallExpr) (*FuncInfo, []ast.Expr) {
	fun := unparen(call.Fun)
	var id *ast.Ident
	var recv ast.Expr
	switch f := fun.(type) {
	case *ast.Ident:
		id = f
	case *ast.SelectorExpr:
		id = f.Sel
		if _, ok := info.Selections[f]; ok {
			recv = f.X
		}
	default:
		return nil, nil
	}
	fn, ok := info.Uses[id].(*types.Func)
	if !ok {
		return nil, nil
	}
	fi, ok := p.ByObj[fn]
	if !ok {
		return nil, nil
	}
	var args []ast.Expr
	if recv != nil {
		args = append(args, recv)
	}
	args = append(args, call.Args...)
	return fi, args
}

// globalWrites: every place where a package-level variable, or memory reachable from it by a syntactic path, is written
func (p *Prog) globalWrites() []GlobalWrite {
	pw := p.computeParamWrites()
	var res []GlobalWrite
	for _, n := range p.Order {
		fi := p.Funcs[n]
		if strings.HasSuffix(fi.File, "/peg.go") || strings.HasSuffix(fi.File, "test_utils.go") {
			continue
		}
		info := fi.Pkg.TypesInfo
		// local aliases of globals: x := G, x := &G
		alias := map[*types.Var]*types.Var{}
		ast.Inspect(fi.Body(), func(nd ast.Node) bool {
			if as, ok := nd.(*ast.AssignStmt); ok && len(as.Lhs) == len(as.Rhs) {
				for i, r := range as.Rhs {
					e := unparen(r)
					if u, ok := e.(*ast.UnaryExpr); ok && u.Op == token.AND {
						e = unparen(u.X)
					}
					if g, _ := rootVar(info, e); isPkgLevel(g) && strings.HasPrefix(g.Pkg().Path(), repoMod) {
						if l, _ := rootVar(info, as.Lhs[i]); l != nil && !isPkgLevel(l) {
							t := l.Type().Underlying()
							switch t.(type) {
							case *types.Pointer, *types.Map, *types.Slice:
								alias[l] = g
							}
						}
					}
				}
			}
			return true
		})
		glob := func(e ast.Expr) *types.Var {
			v, _ := rootVar(info, e)
			if isPkgLevel(v) && strings.HasPrefix(v.Pkg().Path(), repoMod) {
				return v
			}
			if g, ok := alias[v]; ok {
				return g
			}
			return nil
		}
		ast.Inspect(fi.Body(), func(nd ast.Node) bool {
			switch x := nd.(type) {
			case *ast.AssignStmt:
				if x.Tok == token.DEFINE {
					return true
				}
				for _, l := range x.Lhs {
					if g := glob(l); g != nil {
						res = append(res, GlobalWrite{Var: g, Func: n, Pos: p.pos(l), How: "assignment to " + exprString(l)})
					}
				}
			case *ast.IncDecStmt:
				if g := glob(x.X); g != nil {
					res = append(res, GlobalWrite{Var: g, Func: n, Pos: p.pos(x), How: exprString(x.X) + x.Tok.String()})
				}
			case *ast.CallExpr:
				callee, args := p.staticCallee(info, x)
				if callee != nil {
					for i, a := range args {
						if _, writes := pw[callee.Name][i]; writes {
							e := unparen(a)
							if u, ok := e.(*ast.UnaryExpr); ok && u.Op == token.AND {
								e = unparen(u.X)
							}
							if g := glob(e); g != nil {
								res = append(res, GlobalWrite{Var: g, Func: n, Pos: p.pos(x), How: "passed to " + callee.Name + ", which writes through that parameter"})
							}
						}
					}
					return true
				}
				// external call with the address of a global: sync/atomic is a synchronised access, anything else a write
				if fn := externalCallee(info, x); fn != nil {
					for _, a := range x.Args {
						e := unparen(a)
						u, ok := e.(*ast.UnaryExpr)
						if !ok || u.Op != token.AND {
							continue
						}
						if g := glob(u.X); g != nil {
							// an atomic counter increment commutes with the increments of other calls; an atomic store / swap
							// overwrites what a concurrent call relies on (no data race, but interference)
							atomic := fn.Pkg() != nil && fn.Pkg().Path() == "sync/atomic" && (strings.HasPrefix(fn.Name(), "Add") || strings.HasPrefix(fn.Name(), "Load"))
							how := "address passed to " + extFullName(fn)
							if fn.Pkg() != nil && fn.Pkg().Path() == "sync/atomic" && !atomic {
								how += ": overwrites shared state that concurrent calls depend on"
							}
							res = append(res, GlobalWrite{Var: g, Func: n, Pos: p.pos(x), How: how, Atomic: atomic})
						}
					}
					// pointer-receiver method on a global value (e.g. mutex.Lock, atomic.Int64.Add)
					if se, ok := unparen(x.Fun).(*ast.SelectorExpr); ok {
						if _, isSel := info.Selections[se]; isSel {
							if g := glob(se.X); g != nil {
								sig := fn.Type().(*types.Signature)
								if r := sig.Recv(); r != nil {
									if _, isPtr := r.Type().(*types.Pointer); isPtr {
										pk := ""
										if fn.Pkg() != nil {
											pk = fn.Pkg().Path()
										}
										atomic := pk == "sync/atomic" && (strings.HasPrefix(fn.Name(), "Add") || strings.HasPrefix(fn.Name(), "Load"))
										if pk == "sync" {
											// locks and barriers synchronise; sync.Pool / sync.Map carry data between calls
											rn := ""
											if pt, ok := r.Type().(*types.Pointer); ok {
												if nt, ok := pt.Elem().(*types.Named); ok {
													rn = nt.Obj().Name()
												}
											}
											atomic = rn == "Mutex" || rn == "RWMutex" || rn == "Once" || rn == "WaitGroup"
										}
										res = append(res, GlobalWrite{Var: g, Func: n, Pos: p.pos(x), How: "method " + extFullName(fn) + " on " + exprString(se.X), Atomic: atomic})
									}
								}
							}
						}
					}
				}
			}
			return true
		})
	}
	return res
}

func externalCallee(info *types.Info, call *ast.CallExpr) *types.Func {
	var id *ast.Ident
	switch f := unparen(call.Fun).(type) {
	case *ast.Ident:
		id = f
	case *ast.SelectorExpr:
		id = f.Sel
	default:
		return nil
	}
	fn, _ := info.Uses[id].(*types.Func)
	return fn
}

var entryPoints = []string{"pkg.Validate", "pkg.ValidateWithConfiguration", "pkg.ValidateCompiled", "pkg.ValidateCompiledWithConfiguration", "pkg.CompileProfile"}

func (p *Prog) reachableFrom(entries []string) map[string]bool {
	r := map[string]bool{}
	for _, e := range entries {
		r[e] = true
		for c := range p.Reach[e] {
			r[c] = true
		}
	}
	return r
}

func analysisObl(name, kind string, tags []string, ok bool, text, pos, detail, fn string) *Obligation {
	ob := &Obligation{Name: name, Kind: kind, Tags: tags, Text: text, Pos: pos, Func: fn, Expect: "unsat", Solver: "frame-checker", Output: detail}
	if ok {
		ob.Status = "discharged"
	} else {
		ob.Status = "refuted"
		ob.Model = detail
	}
	return ob
}

// allowList: justified nondeterminism sources (committed file, one per line: <source id> <justification>)
func loadAllow(name string) map[string]string {
	m := map[string]string{}
	b, err := os.ReadFile(filepath.Join(verifDir, "spec", name))
	if err != nil {
		return m
	}
	for _, l := range strings.Split(string(b), "\n") {
		l = strings.TrimSpace(l)
		if l == "" || strings.HasPrefix(l, "#") {
			continue
		}
		f := strings.SplitN(l, " ", 2)
		j := ""
		if len(f) > 1 {
			j = f[1]
		}
		m[f[0]] = j
	}
	return m
}

// mapRangeCommutes: the body of a range over a map is order independent by a recognised pattern
func (p *Prog) mapRangeCommutes(fi *FuncInfo, rs *ast.RangeStmt) (bool, string) {
	info := fi.Pkg.TypesInfo
	// pattern 1: every statement is dst[k] = v with k the range key and dst a map (copying entries: distinct keys commute)
	keyObj := func() types.Object {
		if id, ok := rs.Key.(*ast.Ident); ok {
			return info.Defs[id]
		}
		return nil
	}()
	all := len(rs.Body.List) > 0
	for _, st := range rs.Body.List {
		as, ok := st.(*ast.AssignStmt)
		if !ok || len(as.Lhs) != 1 || as.Tok != token.ASSIGN {
			all = false
			break
		}
		ix, ok := unparen(as.Lhs[0]).(*ast.IndexExpr)
		if !ok {
			all = false
			break
		}
		if _, isMap := info.TypeOf(ix.X).Underlying().(*types.Map); !isMap {
			all = false
			break
		}
		kid, ok := unparen(ix.Index).(*ast.Ident)
		if !ok || keyObj == nil || info.Uses[kid] != keyObj {
			all = false
			break
		}
		// right-hand side must not read the destination map
		reads := false
		ast.Inspect(as.Rhs[0], func(n ast.Node) bool {
			if e, ok := n.(ast.Expr); ok && exprString(e) == exprString(ix.X) {
				reads = true
			}
			return true
		})
		if reads {
			all = false
			break
		}
	}
	if all {
		return true, "each iteration stores into a distinct key of another map (entry copy): iterations commute"
	}
	return false, ""
}

func (p *Prog) findMapRanges() map[string]*ast.RangeStmt {
	res := map[string]*ast.RangeStmt{}
	for _, n := range p.Order {
		fi := p.Funcs[n]
		info := fi.Pkg.TypesInfo
		ast.Inspect(fi.Body(), func(nd ast.Node) bool {
			if rs, ok := nd.(*ast.RangeStmt); ok {
				if t := info.TypeOf(rs.X); t != nil {
					if _, isMap := t.Underlying().(*types.Map); isMap {
						res["maprange:"+n+"@"+exprString(rs.X)] = rs
					}
				}
			}
			return true
		})
	}
	return res
}

// FrameObligations generates the analysis obligations of a property.
func (p *Prog) FrameObligations(prop string) []*Obligation {
	obls := p.frameObligations0(prop)
	switch prop {
	case "C15":
		// the operand views of and / or are built by appending to shared slices: without the ownership discipline of C01 the
		// clause generated for an operand depends on which operand is expanded next, i.e. on how the profile is written down
		obls = append(obls, p.ownObligations(map[string]bool{"generator": true, "profile": true}, "C15")...)
	case "C06", "C10":
		// one JSON-LD processor configuration per call, built from the defaults: shared options (a caching document loader)
		// carry state from one call to the next and between concurrent calls
		obls = append(obls, p.doorObligations([]string{prop})...)
	}
	switch prop {
	case "C01", "C02", "C03", "C12", "C14":
		// these properties state what a report is as a function of the profile and the data of the same call: they presuppose
		// that no call leaves package-level state behind for the next (or a concurrent) one - the history-independence frame of C09
		for _, ob := range p.frameObligations0("C09") {
			if strings.HasSuffix(ob.Name, "#no-package-state") {
				c := *ob
				c.Tags = []string{prop}
				obls = append(obls, &c)
			}
		}
	case "C09":
		// a report from a compiled profile can only equal the report of a fresh validation if processing the data is a
		// function of the data: the determinism obligations (C06) of the data path are obligations of C09 as well
		for _, ob := range p.frameObligations0("C06") {
			if strings.HasPrefix(ob.Name, "det:") && strings.HasPrefix(ob.Func, "validator.") {
				c := *ob
				c.Tags = []string{prop}
				obls = append(obls, &c)
			}
		}
		obls = append(obls, p.doorObligations([]string{prop})...)
	}
	return obls
}

func (p *Prog) frameObligations0(prop string) []*Obligation {
	var obls []*Obligation
	switch prop {
	case "C08":
		return p.c08Obligations()
	case "C13":
		// values substituted for placeholders are the data's numbers as written: the exact-number decoder is a door of C13 too
		return append(append(append(p.c13Obligations(), p.escRewriteObligations([]string{"C13"})...), p.escFormatObligations([]string{"C13"})...), p.doorObligations([]string{"C13"})...)
	case "C02":
		// distinct numbers reached by a path stay distinct values: the exact-number decoder is a door of C02 too
		return append(p.ownObligations(map[string]bool{"generator": true, "path": true}, "C02"), p.doorObligations([]string{"C02"})...)
	case "C01":
		return append(p.ownObligations(map[string]bool{"generator": true, "profile": true}, "C01"), p.doorObligations([]string{"C01"})...)
	case "C04":
		return p.doorObligations([]string{"C04"})
	case "C18":
		// the CLI's contracts take the library's results as values and assume it leaves stdout alone (ensures-assumed
		// lib-function ... stdout == old(stdout)): that frame is an obligation here. No function the commands reach in the
		// library may write to standard output (or the file system); the generated parser is excluded (A-PEG-NODEBUG)
		tags := []string{"C18"}
		for _, e := range []string{"validator.Validate", "validator.GenerateRego", "validator.ProcessInput", "validator.ProcessProfile", "validator.Encode"} {
			if p.Funcs[e] == nil {
				continue
			}
			var bad []string
			for n := range p.reachableFrom([]string{e}) {
				fi := p.Funcs[n]
				if fi == nil || strings.HasSuffix(fi.File, "/peg.go") {
					continue
				}
				if d := p.directEffects(fi, NewUniverse()); d != nil && (d.Ghost["stdout"] || d.Ghost["fs"]) {
					bad = append(bad, n+" writes to standard output or the file system ("+strings.TrimPrefix(fi.File, p.RepoDir+"/")+")")
				}
			}
			sort.Strings(bad)
			obls = append(obls, analysisObl("frame:"+e+"#library-prints-nothing", "frame", tags, len(bad) == 0, "no function reachable from "+e+" writes to standard output or to the file system: what the CLI prints is what its own commands print", p.pos(p.Funcs[e].Body()), strings.Join(bad, "\n"), e))
		}
		return obls
	case "C07":
		return append(append(p.c07Obligations(), p.hygBindObligations()...), p.hygShapeObligations()...)
	case "C10", "C09":
		tags := []string{prop}
		var entries []string
		entries = append(append([]string{}, entryPoints...), "validator.ValidateCompiledWithConfiguration")
		if prop == "C10" {
			entries = entryPoints
		}
		allowState := loadAllow("c09_allowed_state.txt")
		gw := p.globalWrites()
		for _, e := range entries {
			if p.Funcs[e] == nil {
				obls = append(obls, analysisObl("frame:"+e+"#exists", "frame", tags, false, "entry point exists", "", "entry point "+e+" not found", e))
				continue
			}
			reach := p.reachableFrom([]string{e})
			var bad []string
			for _, w := range gw {
				if !reach[w.Func] {
					continue
				}
				if prop == "C10" && w.Atomic {
					continue
				}
				if prop == "C09" {
					// history independence: even synchronised package state carries information from call to call
					if _, ok := allowState["global:"+w.Var.Pkg().Name()+"."+w.Var.Name()+"@"+w.Func]; ok {
						continue
					}
				}
				bad = append(bad, fmt.Sprintf("%s.%s written in %s at %s (%s)", w.Var.Pkg().Name(), w.Var.Name(), w.Func, w.Pos, w.How))
			}
			sort.Strings(bad)
			name, text := "frame:"+e+"#no-unsynchronised-package-state", "no function reachable from "+e+" writes a package-level variable (or memory reached from one) except through sync/atomic or a lock"
			if prop == "C09" {
				name, text = "frame:"+e+"#no-package-state", "no function reachable from "+e+" writes package-level state (synchronised or not) other than what spec/c09_allowed_state.txt justifies"
			}
			obls = append(obls, analysisObl(name, "frame", tags, len(bad) == 0, text, p.pos(p.Funcs[e].Body()), strings.Join(bad, "\n"), e))
			// goroutines
			var spawns []string
			for n := range reach {
				if ef := p.Direct[n]; ef != nil && p.Effects[n] != nil {
					fi := p.Funcs[n]
					if fi == nil || strings.HasSuffix(fi.File, "/peg.go") {
						continue
					}
					ast.Inspect(fi.Body(), func(nd ast.Node) bool {
						if g, ok := nd.(*ast.GoStmt); ok {
							spawns = append(spawns, n+" at "+p.pos(g))
						}
						return true
					})
				}
			}
			sort.Strings(spawns)
			obls = append(obls, analysisObl("frame:"+e+"#no-goroutines", "frame", tags, len(spawns) == 0, "no goroutine is started on the path of "+e+" (the sequential VCs describe the whole call)", p.pos(p.Funcs[e].Body()), strings.Join(spawns, "\n"), e))
		}
		if prop == "C09" {
			// the compiled profile is not written through by the validating call
			pw := p.computeParamWrites()
			for _, e := range []string{"validator.ValidateCompiledWithConfiguration", "validator.ValidateCompiled", "pkg.ValidateCompiled", "pkg.ValidateCompiledWithConfiguration"} {
				why, writes := pw[e][0]
				obls = append(obls, analysisObl("frame:"+e+"#compiled-profile-not-written", "frame", tags, !writes, "the validating call does not store through its compiled-profile argument", "", why, e))
			}
		}
	case "C06":
		tags := []string{"C06"}
		allow := loadAllow("c06_allowed_nondeterminism.txt")
		reach := p.reachableFrom(append(append([]string{}, entryPoints...), "validator.GenerateRego", "validator.ProcessInput"))
		ranges := p.findMapRanges()
		seen := map[string]bool{}
		var ids []string
		for n := range reach {
			if e := p.Effects[n]; e != nil {
				fi := p.Funcs[n]
				if fi == nil || strings.HasSuffix(fi.File, "/peg.go") {
					continue
				}
				de := p.directEffects(fi, NewUniverse())
				for id, d := range de.Nondet {
					if !seen[id] {
						seen[id] = true
						ids = append(ids, id)
						_ = d
					}
				}
			}
		}
		sort.Strings(ids)
		for _, id := range ids {
			fn := strings.SplitN(strings.SplitN(id, ":", 2)[1], "@", 2)[0]
			ok, why := false, ""
			if rs, isRange := ranges[id]; isRange {
				ok, why = p.mapRangeCommutes(p.Funcs[fn], rs)
			}
			if strings.HasPrefix(id, "fmtaddr:field:") {
				ok, why = p.deadPointerFormat(id)
				if !ok && why != "" {
					why = "not a dead format: " + why
				}
			}
			if !ok {
				if j, allowed := allow[id]; allowed {
					ok, why = true, "allowed: "+j
				}
			}
			detail := why
			if !ok && why != "" {
				detail = why
			} else if !ok {
				detail = "order / value sensitive source of nondeterminism reachable from an entry point, not covered by a commutation pattern or the allow-list"
			}
			obls = append(obls, analysisObl("det:"+id, "det", tags, ok, "nondeterminism source is justified (commuting map-range body, or listed with its justification in spec/c06_allowed_nondeterminism.txt)", "", detail, fn))
		}
		// mutable package state on the path: every written package-level variable needs a justification
		gvars := map[string]string{}
		for _, w := range p.globalWrites() {
			if reach[w.Func] {
				k := "global:" + w.Var.Pkg().Name() + "." + w.Var.Name() + "@" + w.Func
				gvars[k] = fmt.Sprintf("written in %s at %s (%s)", w.Func, w.Pos, w.How)
			}
		}
		for _, k := range sortedKeys(gvars) {
			j, ok := allow[k]
			detail := "allowed: " + j
			if !ok {
				detail = "mutable package-level state on the validation / generation path: " + gvars[k]
			}
			obls = append(obls, analysisObl("det:"+k, "det", tags, ok, "mutable package state reachable from an entry point is justified in spec/c06_allowed_nondeterminism.txt", "", detail, ""))
		}
	}
	return obls
}

// ---- C08: deny-list of unsafe built-ins ------------------------------------------------------------------------

// stringOfBuiltinName resolves an expression like ast.HTTPSend.Name to its string by reading the dependency's source
func (p *Prog) stringOfBuiltinName(info *types.Info, e ast.Expr) (string, bool) {
	if tv, ok := info.Types[e]; ok && tv.Value != nil {
		return strings.Trim(tv.Value.ExactString(), `"`), true
	}
	se, ok := unparen(e).(*ast.SelectorExpr)
	if !ok || se.Sel.Name != "Name" {
		return "", false
	}
	var v *types.Var
	switch x := unparen(se.X).(type) {
	case *ast.SelectorExpr:
		v, _ = info.Uses[x.Sel].(*types.Var)
	case *ast.Ident:
		v, _ = info.Uses[x].(*types.Var)
	}
	if v == nil || v.Pkg() == nil {
		return "", false
	}
	pk := p.AllPkgs[v.Pkg().Path()]
	if pk == nil {
		return "", false
	}
	for _, f := range pk.Syntax {
		for _, d := range f.Decls {
			gd, ok := d.(*ast.GenDecl)
			if !ok || gd.Tok != token.VAR {
				continue
			}
			for _, sp := range gd.Specs {
				vs := sp.(*ast.ValueSpec)
				for i, n := range vs.Names {
					if pk.TypesInfo.Defs[n] != v || i >= len(vs.Values) {
						continue
					}
					val := unparen(vs.Values[i])
					if u, ok := val.(*ast.UnaryExpr); ok && u.Op == token.AND {
						val = unparen(u.X)
					}
					cl, ok := val.(*ast.CompositeLit)
					if !ok {
						return "", false
					}
					for _, el := range cl.Elts {
						kv, ok := el.(*ast.KeyValueExpr)
						if !ok {
							continue
						}
						if k, ok := kv.Key.(*ast.Ident); ok && k.Name == "Name" {
							if tv, ok := pk.TypesInfo.Types[kv.Value]; ok && tv.Value != nil {
								return strings.Trim(tv.Value.ExactString(), `"`), true
							}
						}
					}
				}
			}
		}
	}
	return "", false
}

func (p *Prog) c08Obligations() []*Obligation {
	tags := []string{"C08"}
	var obls []*Obligation
	var required []string
	if b, err := os.ReadFile(filepath.Join(verifDir, "spec", "c08_required.txt")); err == nil {
		for _, l := range strings.Split(string(b), "\n") {
			l = strings.TrimSpace(l)
			if l != "" && !strings.HasPrefix(l, "#") {
				required = append(required, l)
			}
		}
	}
	// 1. the deny map
	var vpk = p.AllPkgs[repoMod+"/internal/validator"]
	denied := map[string]bool{}
	var denyVar *types.Var
	unresolved := []string{}
	if vpk != nil {
		for _, f := range vpk.Syntax {
			for _, d := range f.Decls {
				gd, ok := d.(*ast.GenDecl)
				if !ok || gd.Tok != token.VAR {
					continue
				}
				for _, sp := range gd.Specs {
					vs := sp.(*ast.ValueSpec)
					for i, n := range vs.Names {
						if n.Name != "unsafeBuiltinsMap" || i >= len(vs.Values) {
							continue
						}
						denyVar, _ = vpk.TypesInfo.Defs[n].(*types.Var)
						if cl, ok := unparen(vs.Values[i]).(*ast.CompositeLit); ok {
							for _, el := range cl.Elts {
								if kv, ok := el.(*ast.KeyValueExpr); ok {
									if s, ok := p.stringOfBuiltinName(vpk.TypesInfo, kv.Key); ok {
										denied[s] = true
									} else {
										unresolved = append(unresolved, exprString(kv.Key))
									}
								}
							}
						}
					}
				}
			}
		}
	}
	for _, r := range required {
		d := ""
		if !denied[r] {
			var have []string
			for k := range denied {
				have = append(have, k)
			}
			sort.Strings(have)
			d = fmt.Sprintf("%q is not a key of validator.unsafeBuiltinsMap (keys, read from the linked OPA source: %v; unresolved: %v)", r, have, unresolved)
		}
		obls = append(obls, analysisObl("inv:validator.unsafeBuiltinsMap#denies:"+r, "inv", tags, denied[r], "the deny map contains "+r, "internal/validator/process_profile.go", d, "validator.CompileRego"))
	}
	// 2. nobody writes the map
	var writes []string
	for _, w := range p.globalWrites() {
		if w.Var == denyVar && denyVar != nil {
			writes = append(writes, w.Func+" at "+w.Pos+" ("+w.How+")")
		}
	}
	// deletes
	for _, n := range p.Order {
		fi := p.Funcs[n]
		info := fi.Pkg.TypesInfo
		ast.Inspect(fi.Body(), func(nd ast.Node) bool {
			if c, ok := nd.(*ast.CallExpr); ok {
				if id, ok := unparen(c.Fun).(*ast.Ident); ok && id.Name == "delete" && len(c.Args) > 0 {
					if v, _ := rootVar(info, c.Args[0]); v != nil && v == denyVar {
						writes = append(writes, n+" at "+p.pos(c)+" (delete)")
					}
				}
			}
			return true
		})
	}
	obls = append(obls, analysisObl("frame:validator.unsafeBuiltinsMap#never-written", "frame", tags, len(writes) == 0 && denyVar != nil, "no repository function writes the deny map", "", strings.Join(writes, "\n"), "validator.CompileRego"))
	// 3. single door + option discipline
	okOptions := map[string]bool{"Query": true, "Module": true, "UnsafeBuiltins": true}
	var doors, badOpts []string
	denyPassed := false
	opaPkgs := map[string]bool{}
	for _, n := range p.Order {
		fi := p.Funcs[n]
		if strings.HasSuffix(fi.File, "test_utils.go") {
			continue
		}
		info := fi.Pkg.TypesInfo
		// local variables assigned from rego.UnsafeBuiltins(unsafeBuiltinsMap)
		denyLocals := map[*types.Var]bool{}
		isDenyCall := func(e ast.Expr) bool {
			c, ok := unparen(e).(*ast.CallExpr)
			if !ok {
				return false
			}
			fn := externalCallee(info, c)
			if fn == nil || fn.Pkg() == nil || !strings.HasSuffix(fn.Pkg().Path(), "opa/rego") || fn.Name() != "UnsafeBuiltins" || len(c.Args) != 1 {
				return false
			}
			v, crossed := rootVar(info, c.Args[0])
			return v == denyVar && denyVar != nil && !crossed && exprString(unparen(c.Args[0])) == "unsafeBuiltinsMap"
		}
		assignCount := map[*types.Var]int{}
		ast.Inspect(fi.Body(), func(nd ast.Node) bool {
			if as, ok := nd.(*ast.AssignStmt); ok {
				for i, l := range as.Lhs {
					if v, _ := rootVar(info, l); v != nil {
						assignCount[v]++
						if len(as.Lhs) == len(as.Rhs) && isDenyCall(as.Rhs[i]) {
							denyLocals[v] = true
						}
					}
				}
			}
			return true
		})
		ast.Inspect(fi.Body(), func(nd ast.Node) bool {
			c, ok := nd.(*ast.CallExpr)
			if !ok {
				return true
			}
			fn := externalCallee(info, c)
			if fn == nil || fn.Pkg() == nil || !strings.Contains(fn.Pkg().Path(), "open-policy-agent/opa") {
				return true
			}
			opaPkgs[fn.Pkg().Path()] = true
			full := extFullName(fn)
			short := full[strings.LastIndex(full, "/")+1:]
			compiling := short == "rego.New" || strings.HasPrefix(short, "ast.ParseModule") || strings.HasPrefix(short, "ast.CompileModules") || short == "ast.NewCompiler" ||
				strings.HasPrefix(short, "ast.MustCompileModules") || strings.HasPrefix(short, "ast.MustParseModule") || strings.HasPrefix(short, "rego.Load") || short == "rego.Compiler" || strings.HasPrefix(short, "ast.ParseBody") || strings.HasPrefix(short, "ast.ParseStatement")
			if compiling {
				doors = append(doors, n+": "+short+" at "+p.pos(c))
			}
			if short == "rego.New" {
				for _, a := range c.Args {
					switch {
					case isDenyCall(a):
						denyPassed = denyPassed || n == "validator.CompileRego"
					default:
						if id, ok := unparen(a).(*ast.Ident); ok {
							if v, ok := info.Uses[id].(*types.Var); ok && denyLocals[v] && assignCount[v] == 1 {
								denyPassed = denyPassed || n == "validator.CompileRego"
								continue
							}
							// a local holding another option: find its constructor
							if v, ok := info.Uses[id].(*types.Var); ok {
								ctor := ""
								ast.Inspect(fi.Body(), func(m ast.Node) bool {
									if as, ok := m.(*ast.AssignStmt); ok && len(as.Lhs) == len(as.Rhs) {
										for i, l := range as.Lhs {
											if lv, _ := rootVar(info, l); lv == v {
												if cc, ok := unparen(as.Rhs[i]).(*ast.CallExpr); ok {
													if f2 := externalCallee(info, cc); f2 != nil {
														ctor = f2.Name()
													}
												}
											}
										}
									}
									return true
								})
								if !okOptions[ctor] || assignCount[v] != 1 {
									badOpts = append(badOpts, fmt.Sprintf("%s: option %s built by %q (assigned %d times) at %s", n, id.Name, ctor, assignCount[v], p.pos(a)))
								}
								continue
							}
						}
						if cc, ok := unparen(a).(*ast.CallExpr); ok {
							if f2 := externalCallee(info, cc); f2 != nil && okOptions[f2.Name()] && f2.Name() != "UnsafeBuiltins" {
								continue
							}
						}
						badOpts = append(badOpts, n+": option "+exprString(a)+" at "+p.pos(a))
					}
				}
			}
			return true
		})
	}
	sort.Strings(doors)
	single := len(doors) == 1 && strings.HasPrefix(doors[0], "validator.CompileRego: rego.New")
	obls = append(obls, analysisObl("frame:compile-api#single-door", "frame", tags, single, "the only call that parses or compiles policy text in non-test repository code is rego.New in validator.CompileRego", "", strings.Join(doors, "\n"), "validator.CompileRego"))
	obls = append(obls, analysisObl("post:validator.CompileRego#deny-option-passed", "post", tags, denyPassed, "rego.UnsafeBuiltins(unsafeBuiltinsMap) is among the options of that rego.New call", "", "the option is not passed (or not from the deny map)", "validator.CompileRego"))
	obls = append(obls, analysisObl("post:validator.CompileRego#no-other-options", "post", tags, len(badOpts) == 0, "no other option (custom compiler, capabilities, a second deny list, ...) is passed to rego.New", "", strings.Join(badOpts, "\n"), "validator.CompileRego"))
	var extra []string
	for k := range opaPkgs {
		if !strings.HasSuffix(k, "opa/rego") && !strings.HasSuffix(k, "opa/ast") {
			extra = append(extra, k)
		}
	}
	sort.Strings(extra)
	obls = append(obls, analysisObl("frame:compile-api#opa-packages", "frame", tags, len(extra) == 0, "only the rego and ast packages of the engine are called", "", strings.Join(extra, "\n"), "validator.CompileRego"))
	return obls
}

// ---- C13: user text reaches generated code only through a quoting function ------------------------------------------

type textSource struct{ typ, field string }

var c13Sources = []textSource{{"profile.Profile", "Name"}, {"profile.Message", "Expression"}, {"profile.ScalarSetRule", "Argument"}, {"profile.PatternRule", "Argument"}}
var c13ParamSources = map[string]string{"generator.wrapBranch": "name"}
var c13Sanitizers = map[string]bool{"generator.regoString": true, "generator.regoStringList": true, "generator.sanitizedMessage": true, "profile.ScalarSetRule.JSONValues": true,
	"encoding/json.Marshal": true, "regexp.Regexp.ReplaceAllString": true, "generator.regexLiteral": true}

func (p *Prog) c13Obligations() []*Obligation {
	tags := []string{"C13"}
	var obls []*Obligation
	for _, n := range p.Order {
		fi := p.Funcs[n]
		if fi.Pkg.Types.Name() != "generator" || fi.Obj == nil {
			continue
		}
		info := fi.Pkg.TypesInfo
		type occ struct {
			src string
			ok  bool
			pos string
			txt string
		}
		var occs []occ
		var stack []ast.Node
		ast.Inspect(fi.Body(), func(nd ast.Node) bool {
			if nd == nil {
				stack = stack[:len(stack)-1]
				return true
			}
			stack = append(stack, nd)
			src := ""
			switch x := nd.(type) {
			case *ast.SelectorExpr:
				if sel, ok := info.Selections[x]; ok && sel.Kind() == types.FieldVal {
					rt := sel.Recv()
					if pt, ok := rt.(*types.Pointer); ok {
						rt = pt.Elem()
					}
					tn := shortTypeName(rt)
					for _, s := range c13Sources {
						if s.typ == tn && s.field == x.Sel.Name {
							src = tn[strings.Index(tn, ".")+1:] + "." + s.field
						}
					}
				}
			case *ast.Ident:
				if pn, ok := c13ParamSources[n]; ok && x.Name == pn {
					if v, ok := info.Uses[x].(*types.Var); ok && !isPkgLevel(v) {
						src = pn
					}
				}
			}
			if src == "" {
				return true
			}
			ok := false
			// enclosing calls, innermost first
			for i := len(stack) - 2; i >= 0 && !ok; i-- {
				c, isCall := stack[i].(*ast.CallExpr)
				if !isCall {
					if _, isStmt := stack[i].(ast.Stmt); isStmt {
						// comparisons / conditions are not emissions
						if ifs, isIf := stack[i].(*ast.IfStmt); isIf && i+1 < len(stack) && stack[i+1] == ast.Node(ifs.Cond) {
							ok = true
						}
						break
					}
					continue
				}
				if callee, _ := p.staticCallee(info, c); callee != nil {
					if c13Sanitizers[callee.Name] {
						ok = true
					} else {
						ok = true // handed to another repository function: that function has its own obligation
						if callee.Pkg.Types.Name() != "generator" && callee.Pkg.Types.Name() != "profile" {
							ok = true
						}
					}
					break
				}
				if fn := externalCallee(info, c); fn != nil {
					full := extFullName(fn)
					if c13Sanitizers[full] {
						ok = true
						break
					}
					if strings.HasPrefix(full, "fmt.") || full == "strings.Join" {
						break // emission
					}
					if id, isB := unparen(c.Fun).(*ast.Ident); isB && (id.Name == "len") {
						ok = true
						break
					}
					continue // e.g. strings.ToLower(x): keep looking outwards
				}
			}
			occs = append(occs, occ{src, ok, p.pos(nd), exprString(nd.(ast.Expr))})
			return true
		})
		bySrc := map[string][]occ{}
		for _, o := range occs {
			bySrc[o.src] = append(bySrc[o.src], o)
		}
		for _, s := range sortedKeys(bySrc) {
			var bad []string
			for _, o := range bySrc[s] {
				if !o.ok {
					bad = append(bad, fmt.Sprintf("%s is interpolated at %s without passing through a quoting function", o.txt, o.pos))
				}
			}
			obls = append(obls, analysisObl("esc:"+n+"#"+s, "esc", tags, len(bad) == 0, "user text "+s+" reaches the generated code of "+n+" only as the argument of a quoting function under a C13 contract", p.pos(fi.Body()), strings.Join(bad, "\n"), n))
		}
	}
	return obls
}

// ---- C07: hygiene of the names the translator invents ----------------------------------------------------------------

func (p *Prog) stringLits(fi *FuncInfo) []string {
	var out []string
	info := fi.Pkg.TypesInfo
	ast.Inspect(fi.Body(), func(nd ast.Node) bool {
		if bl, ok := nd.(*ast.BasicLit); ok && bl.Kind == token.STRING {
			if tv, ok := info.Types[bl]; ok && tv.Value != nil {
				out = append(out, strings.Trim(tv.Value.ExactString(), `"`))
				if s, err := strconvUnquote(bl.Value); err == nil {
					out[len(out)-1] = s
				}
			}
		}
		return true
	})
	return out
}

func strconvUnquote(s string) (string, error) {
	if len(s) >= 2 && s[0] == '`' {
		return s[1 : len(s)-1], nil
	}
	var out []byte
	// minimal Go string unquote for "..." literals
	if len(s) < 2 || s[0] != '"' {
		return "", fmt.Errorf("not a string literal")
	}
	body := s[1 : len(s)-1]
	for i := 0; i < len(body); i++ {
		if body[i] == '\\' && i+1 < len(body) {
			i++
			switch body[i] {
			case 'n':
				out = append(out, '\n')
			case 't':
				out = append(out, '\t')
			case '"':
				out = append(out, '"')
			case '\\':
				out = append(out, '\\')
			default:
				out = append(out, '\\', body[i])
			}
			continue
		}
		out = append(out, body[i])
	}
	return string(out), nil
}

var reBind = []string{
	`(?:^|[\s;|{\[(])([A-Za-z_][A-Za-z0-9_]*)\s*:?=[^=]`, // x = ... / x := ...
	`[\[{]\s*([A-Za-z_][A-Za-z0-9_]*)\s*\|`,              // [ x | ...   { x | ...
}

func (p *Prog) c07Obligations() []*Obligation {
	tags := []string{"C07"}
	var obls []*Obligation
	// keywords of the linked engine + future keywords imported by the preamble
	kw := map[string]bool{}
	if pk := p.AllPkgs["github.com/open-policy-agent/opa/ast/internal/tokens"]; pk != nil {
		for _, f := range pk.Syntax {
			for _, d := range f.Decls {
				gd, ok := d.(*ast.GenDecl)
				if !ok || gd.Tok != token.VAR {
					continue
				}
				for _, sp := range gd.Specs {
					vs := sp.(*ast.ValueSpec)
					for i, n := range vs.Names {
						if n.Name == "keywords" && i < len(vs.Values) {
							if cl, ok := vs.Values[i].(*ast.CompositeLit); ok {
								for _, el := range cl.Elts {
									if kv, ok := el.(*ast.KeyValueExpr); ok {
										if tv, ok := pk.TypesInfo.Types[kv.Key]; ok && tv.Value != nil {
											kw[strings.Trim(tv.Value.ExactString(), `"`)] = true
										}
									}
								}
							}
						}
					}
				}
			}
		}
	}
	nBase := len(kw)
	gpk := p.AllPkgs[repoMod+"/internal/generator"]
	if gpk != nil {
		if c, ok := gpk.Types.Scope().Lookup("preambleRaw").(*types.Const); ok {
			txt := c.Val().ExactString()
			for _, l := range strings.Split(strings.ReplaceAll(txt, `\n`, "\n"), "\n") {
				l = strings.TrimSpace(l)
				if strings.HasPrefix(l, "import future.keywords.") {
					kw[strings.TrimPrefix(l, "import future.keywords.")] = true
				}
			}
		}
	}
	obls = append(obls, analysisObl("hyg:keywords#read-from-engine", "hyg", tags, nBase >= 5, "the keyword table of the linked engine could be read from its source", "", fmt.Sprintf("%d keywords found", nBase), "profile.NewVarGenerator"))
	// names
	var names []string
	if fi := p.Funcs["profile.NewVarGenerator"]; fi != nil {
		info := fi.Pkg.TypesInfo
		ast.Inspect(fi.Body(), func(nd ast.Node) bool {
			if cl, ok := nd.(*ast.CompositeLit); ok && len(names) == 0 {
				if _, isSlice := info.TypeOf(cl).Underlying().(*types.Slice); isSlice {
					for _, el := range cl.Elts {
						if tv, ok := info.Types[el]; ok && tv.Value != nil {
							names = append(names, strings.Trim(tv.Value.ExactString(), `"`))
						}
					}
				}
			}
			return true
		})
	}
	fallback := ""
	if fi := p.Funcs["profile.VarGenerator.GenExpressionVar"]; fi != nil {
		for _, l := range p.stringLits(fi) {
			if strings.Contains(l, "%d") {
				fallback = l
			}
		}
	}
	// template locals: identifiers the generator's own format strings bind inside rule bodies
	locals := map[string]string{}
	for _, n := range p.Order {
		fi := p.Funcs[n]
		if fi.Pkg.Types.Name() != "generator" {
			continue
		}
		for _, lit := range p.stringLits(fi) {
			for _, re := range reBind {
				for _, m := range regexpFindAll(re, lit) {
					if strings.Contains(m, "%") {
						continue
					}
					if _, ok := locals[m]; !ok {
						locals[m] = n
					}
				}
			}
		}
	}
	check := func(id, text string, cands []string, forbidden func(string) (bool, string)) {
		var bad []string
		for _, c := range cands {
			if hit, why := forbidden(c); hit {
				bad = append(bad, fmt.Sprintf("%q %s", c, why))
			}
		}
		obls = append(obls, analysisObl("hyg:profile.NewVarGenerator#"+id, "hyg", tags, len(bad) == 0 && len(names) > 0, text, "internal/parser/profile/vargenerator.go", strings.Join(bad, "\n"), "profile.NewVarGenerator"))
	}
	var plurals []string
	for _, n := range names {
		plurals = append(plurals, n+"s")
	}
	isKw := func(s string) (bool, string) { return kw[s], "is a keyword of the policy language" }
	isLocal := func(s string) (bool, string) {
		f, ok := locals[s]
		return ok, "is bound by a template of " + f
	}
	check("names-not-keywords", "no quantified-variable name is a keyword", names, isKw)
	check("plurals-not-keywords", "no plural (<name>s, the node-set variable of a nested constraint) is a keyword", plurals, isKw)
	check("names-not-template-locals", "no quantified-variable name is bound by the generator's own templates", names, isLocal)
	check("plurals-not-template-locals", "no plural is bound by the generator's own templates", plurals, isLocal)
	seen := map[string]int{}
	for _, n := range append(append([]string{}, names...), plurals...) {
		seen[n]++
	}
	var dups []string
	for n, c := range seen {
		if c > 1 {
			dups = append(dups, n)
		}
	}
	sort.Strings(dups)
	obls = append(obls, analysisObl("hyg:profile.NewVarGenerator#names-and-plurals-distinct", "hyg", tags, len(dups) == 0 && len(names) > 0, "names and plurals are pairwise distinct", "", strings.Join(dups, ","), "profile.NewVarGenerator"))
	// fallback names X<k>: nothing else has that shape
	okFb := strings.HasSuffix(fallback, "%d") && len(fallback) > 2
	prefix := strings.TrimSuffix(fallback, "%d")
	var clash []string
	shape := func(s string) bool {
		if !strings.HasPrefix(s, prefix) || prefix == "" {
			return false
		}
		rest := strings.TrimSuffix(strings.TrimPrefix(s, prefix), "s")
		if rest == "" {
			return false
		}
		for _, r := range rest {
			if r < '0' || r > '9' {
				return false
			}
		}
		return true
	}
	for k := range kw {
		if shape(k) {
			clash = append(clash, k)
		}
	}
	for l := range locals {
		if shape(l) {
			clash = append(clash, l)
		}
	}
	for _, n := range append(append([]string{}, names...), plurals...) {
		if shape(n) {
			clash = append(clash, n)
		}
	}
	obls = append(obls, analysisObl("hyg:profile.VarGenerator.GenExpressionVar#fallback-names", "hyg", tags, okFb && len(clash) == 0, "beyond the literal list names are <prefix><k>: injective in k, and no keyword, template local or listed name (or plural) has that shape", "", fmt.Sprintf("format %q clashes %v", fallback, clash), "profile.VarGenerator.GenExpressionVar"))
	// derived names <v>_..., <v>s_..., gen_..., _result_<i>, msg_var_<i>
	var derivedClash []string
	for l, f := range locals {
		for _, n := range append(append([]string{}, names...), plurals...) {
			if strings.HasPrefix(l, n+"_") {
				derivedClash = append(derivedClash, fmt.Sprintf("template local %s (in %s) could equal a name derived from variable %s", l, f, n))
			}
		}
		if strings.HasPrefix(l, "gen_") {
			derivedClash = append(derivedClash, "template local "+l+" has the gen_ prefix of Genvar names")
		}
	}
	for _, n := range append(append([]string{}, names...), plurals...) {
		if strings.HasPrefix(n, "gen_") || strings.HasPrefix(n, "_result_") || strings.HasPrefix(n, "msg_var_") {
			derivedClash = append(derivedClash, "variable name "+n+" has a reserved generated prefix")
		}
	}
	sort.Strings(derivedClash)
	obls = append(obls, analysisObl("hyg:generator#derived-names", "hyg", tags, len(derivedClash) == 0, "names derived from variables (<v>_errorAcc, <v>s_br_<i>, ...) and the gen_/_result_/msg_var_ families cannot collide with template locals or variable names", "", strings.Join(derivedClash, "\n"), "generator.wrapNestedRegoResult"))
	return obls
}

func regexpFindAll(re, s string) []string {
	var out []string
	for _, m := range regexp.MustCompile(re).FindAllStringSubmatch(s, -1) {
		out = append(out, m[1])
	}
	return out
}

// exposedToEntryPoints: functions whose panics would escape a public entry point: reachable from pkg.* without passing
// through a function that installs the deferred-recover idiom (its own body and everything below it is protected).
func (p *Prog) exposedToEntryPoints() map[string]bool {
	protected := map[string]bool{}
	for _, n := range p.Order {
		if recovers(p.Funcs[n].Body()) {
			protected[n] = true
		}
	}
	exp := map[string]bool{}
	var stack []string
	stack = append(stack, entryPoints...)
	for len(stack) > 0 {
		n := stack[len(stack)-1]
		stack = stack[:len(stack)-1]
		if exp[n] || protected[n] {
			continue
		}
		exp[n] = true
		if d := p.Direct[n]; d != nil {
			for c := range d.Calls {
				stack = append(stack, c)
			}
		}
	}
	return exp
}
