package main

// Contract expression language: lexer, parser, AST.

import (
	"fmt"
	"strconv"
	"strings"
	"unicode"
)

type SExpr interface{}

type (
	SIdent struct{ Name string }
	SLit   struct {
		Kind string // int string bool nil
		Val  string
	}
	SBin struct {
		Op   string
		L, R SExpr
	}
	SUn struct {
		Op string
		X  SExpr
	}
	SCall struct {
		Fun  string
		Args []SExpr
	}
	SIndex struct{ X, I SExpr }
	SSlice struct{ X, Lo, Hi SExpr }
	SField struct {
		X    SExpr
		Name string
	}
	STypeAssert struct {
		X    SExpr
		Type string
	}
	SQVar  struct{ Name, Type string }
	SQuant struct {
		Forall bool
		Vars   []SQVar
		Body   SExpr
	}
	SLet struct {
		Name string
		Val  SExpr
		Body SExpr
	}
	SHash struct{ Loop int }    // #i (innermost = 0) or #i@k (loop ordinal k)
	SType struct{ Name string } // a type used as an argument: is(x, T)
)

type tok struct {
	k string // id num str op eof
	v string
}

func lexSpec(s string) ([]tok, error) {
	var ts []tok
	i := 0
	for i < len(s) {
		c := s[i]
		switch {
		case c == ' ' || c == '\t' || c == '\n':
			i++
		case c == '/' && i+1 < len(s) && s[i+1] == '*':
			j := strings.Index(s[i+2:], "*/")
			if j < 0 {
				return nil, fmt.Errorf("unterminated comment")
			}
			i += j + 4
		case c == '/' && i+1 < len(s) && s[i+1] == '/':
			i = len(s)
		case unicode.IsLetter(rune(c)) || c == '_' || c == '$':
			j := i
			for j < len(s) && (unicode.IsLetter(rune(s[j])) || unicode.IsDigit(rune(s[j])) || s[j] == '_' || s[j] == '$' || s[j] == '!') {
				j++
			}
			ts = append(ts, tok{"id", s[i:j]})
			i = j
		case unicode.IsDigit(rune(c)):
			j := i
			for j < len(s) && unicode.IsDigit(rune(s[j])) {
				j++
			}
			ts = append(ts, tok{"num", s[i:j]})
			i = j
		case c == '"':
			j := i + 1
			for j < len(s) && s[j] != '"' {
				if s[j] == '\\' {
					j++
				}
				j++
			}
			if j >= len(s) {
				return nil, fmt.Errorf("unterminated string")
			}
			v, err := strconv.Unquote(s[i : j+1])
			if err != nil {
				return nil, err
			}
			ts = append(ts, tok{"str", v})
			i = j + 1
		case c == '`':
			j := strings.IndexByte(s[i+1:], '`')
			if j < 0 {
				return nil, fmt.Errorf("unterminated raw string")
			}
			ts = append(ts, tok{"str", s[i+1 : i+1+j]})
			i += j + 2
		default:
			for _, op := range []string{"<==>", "==>", "::", "==", "!=", "<=", ">=", "&&", "||", "[]"} {
				if strings.HasPrefix(s[i:], op) {
					ts = append(ts, tok{"op", op})
					i += len(op)
					goto next
				}
			}
			if strings.ContainsRune("<>!+-*/%()[],.:#@{}=", rune(c)) {
				ts = append(ts, tok{"op", string(c)})
				i++
			} else {
				return nil, fmt.Errorf("bad character %q", c)
			}
		next:
		}
	}
	ts = append(ts, tok{"eof", ""})
	return ts, nil
}

type specParser struct {
	ts []tok
	p  int
}

func ParseSpec(s string) (e SExpr, err error) {
	ts, err := lexSpec(s)
	if err != nil {
		return nil, err
	}
	p := &specParser{ts: ts}
	defer func() {
		if r := recover(); r != nil {
			err = fmt.Errorf("spec parse error in %q: %v", s, r)
		}
	}()
	e = p.expr(0)
	if p.peek().k != "eof" {
		panic(fmt.Sprintf("trailing token %q", p.peek().v))
	}
	return e, nil
}

func (p *specParser) peek() tok { return p.ts[p.p] }
func (p *specParser) next() tok { t := p.ts[p.p]; p.p++; return t }
func (p *specParser) isOp(v string) bool {
	t := p.peek()
	return t.k == "op" && t.v == v
}
func (p *specParser) expect(v string) {
	t := p.next()
	if t.v != v {
		panic(fmt.Sprintf("expected %q got %q", v, t.v))
	}
}

var binPrec = map[string]int{"<==>": 1, "==>": 2, "||": 3, "&&": 4, "==": 5, "!=": 5, "<": 5, "<=": 5, ">": 5, ">=": 5, "+": 6, "-": 6, "*": 7, "/": 7, "%": 7}

func (p *specParser) expr(min int) SExpr {
	l := p.unary()
	for {
		t := p.peek()
		pr, ok := binPrec[t.v]
		if t.k != "op" || !ok || pr < min {
			return l
		}
		p.next()
		var r SExpr
		if t.v == "==>" || t.v == "<==>" { // right assoc
			r = p.expr(pr)
		} else {
			r = p.expr(pr + 1)
		}
		l = SBin{t.v, l, r}
	}
}

func (p *specParser) unary() SExpr {
	if p.isOp("!") {
		p.next()
		return SUn{"!", p.unary()}
	}
	if p.isOp("-") {
		p.next()
		return SUn{"-", p.unary()}
	}
	return p.postfix(p.primary())
}

func (p *specParser) typeName() string {
	// []T | *T | a.B | a | map[K]V
	if p.isOp("[]") {
		p.next()
		return "[]" + p.typeName()
	}
	if p.isOp("*") {
		p.next()
		return "*" + p.typeName()
	}
	t := p.next()
	if t.k != "id" {
		panic("type name expected, got " + t.v)
	}
	n := t.v
	if n == "map" && p.isOp("[") {
		p.next()
		k := p.typeName()
		p.expect("]")
		return "map[" + k + "]" + p.typeName()
	}
	if p.isOp(".") {
		p.next()
		n += "." + p.next().v
	}
	return n
}

func (p *specParser) primary() SExpr {
	t := p.next()
	switch t.k {
	case "num":
		return SLit{"int", t.v}
	case "str":
		return SLit{"string", t.v}
	case "id":
		switch t.v {
		case "true", "false":
			return SLit{"bool", t.v}
		case "nil":
			return SLit{"nil", ""}
		case "let":
			n := p.next()
			p.expect("=")
			val := p.expr(0)
			p.expect("::")
			body := p.expr(0)
			return SLet{n.v, val, body}
		case "forall", "exists":
			var vars []SQVar
			for {
				n := p.next()
				if n.k != "id" {
					panic("quantifier variable expected")
				}
				var names = []string{n.v}
				for p.isOp(",") {
					p.next()
					names = append(names, p.next().v)
				}
				ty := p.typeName()
				for _, nm := range names {
					vars = append(vars, SQVar{nm, ty})
				}
				if p.isOp("::") {
					break
				}
				p.expect(",")
			}
			p.expect("::")
			body := p.expr(0)
			return SQuant{t.v == "forall", vars, body}
		case "is", "box", "unbox", "zero", "asref", "heap":
			// is(x, T) / box(T, x) / unbox(T, x) / zero(T)
			p.expect("(")
			var args []SExpr
			if t.v == "is" {
				args = append(args, p.expr(0))
				p.expect(",")
				args = append(args, SType{p.typeName()})
			} else if t.v == "zero" || t.v == "heap" {
				args = append(args, SType{p.typeName()})
			} else {
				args = append(args, SType{p.typeName()})
				p.expect(",")
				args = append(args, p.expr(0))
			}
			p.expect(")")
			return SCall{t.v, args}
		}
		return SIdent{t.v}
	case "op":
		switch t.v {
		case "(":
			e := p.expr(0)
			p.expect(")")
			return e
		case "#":
			n := p.next()
			if n.v != "i" {
				panic("#i expected")
			}
			if p.isOp("@") {
				p.next()
				k, _ := strconv.Atoi(p.next().v)
				return SHash{k}
			}
			return SHash{0}
		}
	}
	panic(fmt.Sprintf("unexpected token %q", t.v))
}

func (p *specParser) postfix(e SExpr) SExpr {
	for {
		switch {
		case p.isOp("("):
			id, ok := e.(SIdent)
			if !ok {
				if f, ok2 := e.(SField); ok2 { // pkg.Func(...) qualified spec function: flatten
					if x, ok3 := f.X.(SIdent); ok3 {
						id = SIdent{x.Name + "." + f.Name}
						ok = true
					}
				}
				if !ok {
					panic("call of non-identifier")
				}
			}
			p.next()
			var args []SExpr
			for !p.isOp(")") {
				args = append(args, p.expr(0))
				if p.isOp(",") {
					p.next()
				}
			}
			p.expect(")")
			e = SCall{id.Name, args}
		case p.isOp("["):
			p.next()
			if p.isOp(":") {
				p.next()
				hi := p.expr(0)
				p.expect("]")
				e = SSlice{e, nil, hi}
				continue
			}
			i := p.expr(0)
			if p.isOp(":") {
				p.next()
				var hi SExpr
				if !p.isOp("]") {
					hi = p.expr(0)
				}
				p.expect("]")
				e = SSlice{e, i, hi}
				continue
			}
			p.expect("]")
			e = SIndex{e, i}
		case p.isOp("."):
			p.next()
			if p.isOp("(") {
				p.next()
				ty := p.typeName()
				p.expect(")")
				e = STypeAssert{e, ty}
				continue
			}
			n := p.next()
			if n.k != "id" {
				panic("field name expected")
			}
			e = SField{e, n.v}
		default:
			return e
		}
	}
}

// ---------------------------------------------------------------------------------------
// Contract files

type Clause struct {
	Kind string // requires ensures invariant decreases modifies assumed pure owned reads
	Tags []string
	ID   string // optional clause id: [C01:name]
	Text string
	Expr SExpr
	Line int
	File string
}

type LoopContract struct {
	Ordinal int
	Header  string
	Inv     []*Clause
	seen    bool
}

type Contract struct {
	Func     string // qualified: pkgname.Func or pkgname.Recv.Method
	Sig      string
	Clauses  []*Clause
	Loops    map[int]*LoopContract
	Assumed  bool // contract is trusted, body not verified against it
	Pure     bool
	Modifies []string
	Verify   []string // property tags for which the body is verified
	Preludes []string
	File     string
	Line     int
	bound    bool
}

func (c *Contract) Of(kind string) []*Clause {
	var r []*Clause
	for _, cl := range c.Clauses {
		if cl.Kind == kind {
			r = append(r, cl)
		}
	}
	return r
}

func (c *Contract) AllTags() []string {
	m := map[string]bool{}
	for _, cl := range c.Clauses {
		for _, t := range cl.Tags {
			m[t] = true
		}
	}
	for _, l := range c.Loops {
		for _, cl := range l.Inv {
			for _, t := range cl.Tags {
				m[t] = true
			}
		}
	}
	for _, t := range c.Verify {
		m[t] = true
	}
	var r []string
	for t := range m {
		r = append(r, t)
	}
	return r
}

// parseTags: "[C01:name,C12] rest" -> tags, id, rest
func parseTags(s string) ([]string, string, string) {
	s = strings.TrimSpace(s)
	if !strings.HasPrefix(s, "[") {
		return nil, "", s
	}
	j := strings.Index(s, "]")
	if j < 0 {
		return nil, "", s
	}
	inner := s[1:j]
	rest := strings.TrimSpace(s[j+1:])
	var tags []string
	id := ""
	for _, t := range strings.Split(inner, ",") {
		t = strings.TrimSpace(t)
		if k := strings.Index(t, ":"); k >= 0 {
			id = t[k+1:]
			t = t[:k]
		}
		if t != "" {
			tags = append(tags, t)
		}
	}
	return tags, id, rest
}

// ParseContracts reads the //@ lines of one contract file.
func ParseContracts(file string, src string, pkgName string) ([]*Contract, error) {
	var res []*Contract
	var cur *Contract
	var curLoop *LoopContract
	var filePreludes []string
	lines := strings.Split(src, "\n")
	for ln := 0; ln < len(lines); ln++ {
		l := strings.TrimSpace(lines[ln])
		if !strings.HasPrefix(l, "//@") {
			continue
		}
		l = strings.TrimSpace(l[3:])
		// continuation lines: trailing backslash
		for strings.HasSuffix(l, "\\") && ln+1 < len(lines) {
			ln++
			n := strings.TrimSpace(lines[ln])
			n = strings.TrimSpace(strings.TrimPrefix(n, "//@"))
			l = strings.TrimSuffix(l, "\\") + " " + n
		}
		if l == "" {
			continue
		}
		word := l
		rest := ""
		if i := strings.IndexAny(l, " \t"); i >= 0 {
			word, rest = l[:i], strings.TrimSpace(l[i+1:])
		}
		switch word {
		case "func":
			// func Name(...)  or  func (Recv) Name(...)
			name := rest
			sig := rest
			if strings.HasPrefix(rest, "(") {
				j := strings.Index(rest, ")")
				recv := strings.TrimSpace(rest[1:j])
				recv = strings.TrimPrefix(recv[strings.LastIndexAny(recv, " *")+1:], "*")
				after := strings.TrimSpace(rest[j+1:])
				k := strings.IndexAny(after, "( ")
				if k < 0 {
					k = len(after)
				}
				name = recv + "." + after[:k]
			} else {
				k := strings.IndexAny(rest, "( ")
				if k < 0 {
					k = len(rest)
				}
				name = rest[:k]
			}
			cur = &Contract{Func: pkgName + "." + name, Sig: sig, Loops: map[int]*LoopContract{}, File: file, Line: ln + 1, Preludes: append([]string(nil), filePreludes...)}
			curLoop = nil
			res = append(res, cur)
		case "loop":
			if cur == nil {
				return nil, fmt.Errorf("%s:%d: loop outside func", file, ln+1)
			}
			f := strings.Fields(rest)
			k, err := strconv.Atoi(f[0])
			if err != nil {
				return nil, fmt.Errorf("%s:%d: loop ordinal", file, ln+1)
			}
			hdr := ""
			if i := strings.Index(rest, "/*"); i >= 0 {
				hdr = strings.TrimSpace(strings.TrimSuffix(strings.TrimSpace(rest[i+2:]), "*/"))
			}
			curLoop = &LoopContract{Ordinal: k, Header: hdr}
			cur.Loops[k] = curLoop
		case "requires", "ensures", "invariant", "decreases", "ensures-assumed", "requires-assumed":
			if cur == nil {
				return nil, fmt.Errorf("%s:%d: clause outside func", file, ln+1)
			}
			tags, id, text := parseTags(rest)
			e, err := ParseSpec(text)
			if err != nil {
				return nil, fmt.Errorf("%s:%d: %v", file, ln+1, err)
			}
			cl := &Clause{Kind: word, Tags: tags, ID: id, Text: text, Expr: e, Line: ln + 1, File: file}
			if word == "invariant" {
				if curLoop == nil {
					return nil, fmt.Errorf("%s:%d: invariant outside loop", file, ln+1)
				}
				curLoop.Inv = append(curLoop.Inv, cl)
			} else {
				cur.Clauses = append(cur.Clauses, cl)
			}
		case "prelude":
			for _, n := range strings.Fields(rest) {
				if cur == nil {
					filePreludes = append(filePreludes, n)
				} else {
					cur.Preludes = append(cur.Preludes, n)
				}
			}
		case "assumed":
			cur.Assumed = true
		case "pure":
			cur.Pure = true
		case "modifies":
			for _, m := range strings.Split(rest, ",") {
				cur.Modifies = append(cur.Modifies, strings.TrimSpace(m))
			}
		case "verify":
			tags, _, _ := parseTags(rest)
			cur.Verify = append(cur.Verify, tags...)
		default:
			return nil, fmt.Errorf("%s:%d: unknown contract keyword %q", file, ln+1, word)
		}
	}
	return res, nil
}

// contractParamNames: the parameter names written in a contract's func line, receiver first - the names its clauses use.
// Parameters are identified by position, so a renamed parameter or receiver of the code still binds.
func contractParamNames(sig string) []string {
	var names []string
	rest := strings.TrimSpace(sig)
	group := func(s string) (string, string) { // first parenthesised group of s and what follows it
		if !strings.HasPrefix(s, "(") {
			return "", s
		}
		depth := 0
		for i, r := range s {
			switch r {
			case '(':
				depth++
			case ')':
				depth--
				if depth == 0 {
					return s[1:i], strings.TrimSpace(s[i+1:])
				}
			}
		}
		return "", s
	}
	if strings.HasPrefix(rest, "(") {
		recv, after := group(rest)
		f := strings.Fields(recv)
		if len(f) >= 2 {
			names = append(names, f[0])
		} else {
			names = append(names, "self")
		}
		rest = after
	}
	if i := strings.Index(rest, "("); i >= 0 {
		params, _ := group(rest[i:])
		var pieces []string
		depth, start := 0, 0
		for i, r := range params {
			switch r {
			case '(', '[', '{':
				depth++
			case ')', ']', '}':
				depth--
			case ',':
				if depth == 0 {
					pieces = append(pieces, strings.TrimSpace(params[start:i]))
					start = i + 1
				}
			}
		}
		if strings.TrimSpace(params[start:]) != "" {
			pieces = append(pieces, strings.TrimSpace(params[start:]))
		}
		named := false
		for _, pc := range pieces {
			if strings.ContainsAny(pc, " \t") && !strings.HasPrefix(pc, "func") && !strings.HasPrefix(pc, "map[") && !strings.HasPrefix(pc, "chan ") {
				named = true
			}
		}
		for k, pc := range pieces {
			if !named {
				names = append(names, fmt.Sprintf("arg%d", k))
				continue
			}
			f := strings.Fields(pc)
			names = append(names, f[0])
		}
	}
	return names
}

// contractHasTag: some ensures clause of the contract (not a mere verify directive) carries the tag
func contractHasTag(c *Contract, tag string) bool {
	for _, cl := range c.Clauses {
		if cl.Kind == "ensures" && hasTag(cl.Tags, tag) {
			return true
		}
	}
	return false
}
