package main

import (
	"fmt"
	"go/ast"
	"go/constant"
	"go/types"
	"regexp"
	"strings"
)

// argVal evaluates a call argument, or takes it from the values saved by a defer statement
func (ex *Exec) argVal(e ast.Expr) Term {
	if ex.preArgs != nil {
		if len(ex.preArgs) == 0 {
			return ex.opaqueVal(e, "deferred argument")
		}
		v := ex.preArgs[0]
		ex.preArgs = ex.preArgs[1:]
		if len(ex.preArgs) == 0 {
			ex.preArgs = []Term{}
		}
		return v
	}
	return ex.expr(e)
}

func (ex *Exec) call(c *ast.CallExpr) []Term {
	// conversion
	if tv, ok := ex.info.Types[c.Fun]; ok && tv.IsType() {
		if len(c.Args) != 1 {
			return []Term{ex.opaqueVal(c, "conversion")}
		}
		v := ex.expr(c.Args[0])
		return []Term{ex.convert(v, ex.info.TypeOf(c.Args[0]), tv.Type, c)}
	}
	fun := c.Fun
	for {
		if pe, ok := fun.(*ast.ParenExpr); ok {
			fun = pe.X
		} else {
			break
		}
	}
	var obj types.Object
	var recvExpr ast.Expr
	switch f := fun.(type) {
	case *ast.Ident:
		obj = ex.info.Uses[f]
	case *ast.SelectorExpr:
		obj = ex.info.Uses[f.Sel]
		if _, isSel := ex.info.Selections[f]; isSel {
			recvExpr = f.X
		}
	}
	switch o := obj.(type) {
	case *types.Builtin:
		return ex.builtin(o.Name(), c)
	case *types.Func:
		sig := o.Type().(*types.Signature)
		var args []Term
		var argTypes []types.Type
		if recvExpr != nil && sig.Recv() != nil {
			var rv Term
			if ex.preArgs != nil {
				rv = ex.argVal(recvExpr)
			} else {
				rv = ex.recvValue(fun.(*ast.SelectorExpr), sig)
			}
			args = append(args, rv)
			argTypes = append(argTypes, sig.Recv().Type())
		}
		if c.Ellipsis.IsValid() || sig.Variadic() {
			// variadic: pack (only external functions and GetPath use it)
			if _, isRepo := ex.P.ByObj[o]; isRepo {
				ex.note("havoc: variadic repository call " + o.Name())
			}
		}
		for i, a := range c.Args {
			v := ex.argVal(a)
			var pt types.Type
			if i < sig.Params().Len() && !(sig.Variadic() && i >= sig.Params().Len()-1) {
				pt = sig.Params().At(i).Type()
				v = ex.coerce(v, ex.info.TypeOf(a), pt)
			}
			args = append(args, v)
			argTypes = append(argTypes, ex.info.TypeOf(a))
		}
		if recv := sig.Recv(); recv != nil {
			if _, isIface := recv.Type().Underlying().(*types.Interface); isIface {
				return ex.callIface(c, o, args)
			}
		}
		if fi, ok := ex.P.ByObj[o]; ok {
			if ex.shouldInline(fi, c) {
				return ex.inlineCall(c, fi, args)
			}
			return ex.callRepo(c, fi, args)
		}
		return ex.callExternal(c, o, args, argTypes)
	}
	// func value: a bound function argument of an inlined call is executed in place
	if id, ok := fun.(*ast.Ident); ok {
		if v, ok := ex.info.Uses[id].(*types.Var); ok {
			if cl, ok := ex.closures[v]; ok {
				var args []Term
				for _, a := range c.Args {
					args = append(args, ex.expr(a))
				}
				return ex.callClosure(c, cl, args)
			}
		}
	}
	for _, a := range c.Args {
		ex.expr(a)
	}
	ex.note("call of func value " + exprString(c.Fun) + ": results and reachable state havoc")
	e := newEffects()
	e.FuncValues = true
	if t := ex.info.TypeOf(c.Fun); t != nil {
		e.Calls["$fv:"+canonType(t, nil)] = true
	}
	ex.P.closeEffects(e, ex.F.Name)
	ex.havocEffects(e)
	return ex.freshResults(ex.info.TypeOf(c), "fv")
}

func (ex *Exec) freshResults(t types.Type, prefix string) []Term {
	var rs []Term
	switch tt := t.(type) {
	case *types.Tuple:
		for i := 0; i < tt.Len(); i++ {
			rs = append(rs, ex.freshOfType(tt.At(i).Type(), prefix))
		}
	case nil:
	default:
		rs = append(rs, ex.freshOfType(t, prefix))
	}
	return rs
}

func (ex *Exec) freshOfType(t types.Type, prefix string) Term {
	s := ex.U.SortOf(t)
	v := ex.U.Fresh(prefix, s)
	if s.Kind == KRef {
		ex.facts = append(ex.facts, "(and (>= "+v.S+" 0) (<= "+v.S+" "+ex.st.ghost["alloc"].S+"))")
	}
	return v
}

// recvValue computes the receiver argument of a method call, adjusting & and *
func (ex *Exec) recvValue(se *ast.SelectorExpr, sig *types.Signature) Term {
	sel := ex.info.Selections[se]
	base := ex.expr(se.X)
	bt := ex.info.TypeOf(se.X)
	// walk embedded path except the last (method) index
	idx := sel.Index()
	if len(idx) > 1 {
		base, bt = ex.fieldPath(base, bt, idx[:len(idx)-1], se)
		if bt == nil {
			return base
		}
	}
	rt := sig.Recv().Type()
	_, wantPtr := rt.Underlying().(*types.Pointer)
	_, havePtr := bt.Underlying().(*types.Pointer)
	if _, isIface := rt.Underlying().(*types.Interface); isIface {
		return base
	}
	switch {
	case wantPtr && !havePtr:
		// implicit address-of
		if id, ok := se.X.(*ast.Ident); ok {
			if v, ok := ex.info.Uses[id].(*types.Var); ok && ex.boxed[v] {
				if r, ok := ex.st.vars[v]; ok {
					return r
				}
			}
		}
		ex.note("havoc: implicit address-of receiver " + exprString(se.X))
		return ex.freshOfType(rt, "recv")
	case !wantPtr && havePtr:
		if base.Sort.Kind == KRef {
			ex.safe("nil-deref", Not(Eq(base, Term{"0", base.Sort})), se, exprString(se))
			return ex.loadPtr(base.Sort, base)
		}
	}
	return base
}

func (ex *Exec) convert(v Term, from, to types.Type, n ast.Node) Term {
	ts := ex.U.SortOf(to)
	if ts.Kind == KAny {
		return ex.coerce(v, from, to)
	}
	if ts == v.Sort || ts.Name == v.Sort.Name && ts.Kind == v.Sort.Kind {
		return Term{v.S, ts}
	}
	if ts.Kind == KStruct && v.Sort.Kind == KStruct {
		return ex.coerce(v, from, to)
	}
	if ts.Kind == KString && v.Sort.Kind == KSeq {
		f := ex.U.DeclareFun("bytesToString", []*Sort{v.Sort}, SString)
		return Term{app(f.Name, v), SString}
	}
	if ts.Kind == KSeq && v.Sort.Kind == KString {
		f := ex.U.DeclareFun("stringToBytes", []*Sort{SString}, ts)
		return Term{app(f.Name, v), ts}
	}
	ex.note("havoc: conversion " + shortTypeName(from) + " -> " + shortTypeName(to))
	return ex.U.Fresh("conv", ts)
}

func (ex *Exec) builtin(name string, c *ast.CallExpr) []Term {
	switch name {
	case "len", "cap":
		v := ex.expr(c.Args[0])
		switch v.Sort.Kind {
		case KSeq:
			if name == "cap" {
				r := ex.U.Fresh("cap", SInt)
				ex.fact(Term{"(>= " + r.S + " " + ex.U.SeqLen(v).S + ")", SBool})
				return []Term{r}
			}
			return []Term{ex.U.SeqLen(v)}
		case KString:
			return []Term{{"(str.len " + v.S + ")", SInt}}
		case KRef:
			if v.Sort.IsMap {
				d := ex.heap(ex.st, v.Sort.Dom)
				f := ex.U.DeclareFun("maplen_"+sanitize(v.Sort.Dom), []*Sort{{Name: ex.innerArraySort(v.Sort.Dom), Kind: KOpaque}}, SInt)
				r := Term{"(" + f.Name + " (select " + d.S + " " + v.S + "))", SInt}
				ex.fact(Term{"(>= " + r.S + " 0)", SBool})
				return []Term{r}
			}
		}
		r := ex.U.Fresh("len", SInt)
		ex.fact(Term{"(>= " + r.S + " 0)", SBool})
		return []Term{r}
	case "append":
		base := ex.expr(c.Args[0])
		st := ex.info.TypeOf(c)
		ss := ex.U.SortOf(st)
		if ss.Kind != KSeq {
			return []Term{ex.opaqueVal(c, "append on opaque")}
		}
		if base.Sort.Kind != KSeq {
			base = ex.U.SeqEmpty(ss)
		}
		base = Term{base.S, ss}
		elemT := st.Underlying().(*types.Slice).Elem()
		if c.Ellipsis.IsValid() {
			other := ex.expr(c.Args[1])
			if other.Sort.Kind == KString {
				return []Term{ex.opaqueVal(c, "append string bytes")}
			}
			return []Term{ex.def("app", ex.U.SeqConcat(base, Term{other.S, ss}))}
		}
		cur := base
		for _, a := range c.Args[1:] {
			v := ex.coerce(ex.expr(a), ex.info.TypeOf(a), elemT)
			cur = ex.U.SeqSnoc(cur, v)
		}
		return []Term{ex.def("app", cur)}
	case "make":
		t := ex.info.TypeOf(c)
		s := ex.U.SortOf(t)
		switch t.Underlying().(type) {
		case *types.Slice:
			n := IntLit(0)
			if len(c.Args) > 1 {
				n = ex.expr(c.Args[1])
				ex.safe("makelen", Term{"(>= " + n.S + " 0)", SBool}, c, exprString(c))
			}
			return []Term{ex.def("mk", ex.U.SeqMake(s, n))}
		case *types.Map:
			return []Term{ex.newMap(s)}
		case *types.Chan:
			return []Term{ex.U.Fresh("chan", s)}
		}
	case "new":
		t := ex.info.TypeOf(c)
		ps := ex.U.SortOf(t)
		r := ex.allocRef()
		ref := Term{r.S, ps}
		ex.storePtr(ps, ref, ex.U.Zero(ps.Elem))
		return []Term{ref}
	case "panic":
		for _, a := range c.Args {
			ex.expr(a)
		}
		if ex.isCmdPkg() {
			// in the CLI a panic is the failure exit: status 2, nothing more is printed on stdout - unless a deferred call of a
			// frame it unwinds through ends the process first (deferred calls run while panicking, not after os.Exit)
			ex.st.ghost["panicking"] = TTrue
			ex.exitReturn(IntLit(2))
			return nil
		}
		ex.safe("explicit-panic", TFalse, c, exprString(c))
		ex.kill()
		return nil
	case "delete":
		m := ex.expr(c.Args[0])
		k := ex.expr(c.Args[1])
		if m.Sort.Kind == KRef && m.Sort.IsMap {
			d := ex.heap(ex.st, m.Sort.Dom)
			nd := Term{"(store " + d.S + " " + m.S + " (store (select " + d.S + " " + m.S + ") " + k.S + " false))", d.Sort}
			ex.st.heaps[m.Sort.Dom] = ex.def(m.Sort.Dom, nd)
		}
		return nil
	case "close":
		ex.closeChan(c)
		return nil
	case "copy":
		ex.note("havoc: copy()")
		ex.expr(c.Args[1])
		if v, _ := rootVar(ex.info, c.Args[0]); v != nil {
			ex.writeVar(v, ex.U.Fresh(v.Name(), ex.U.SortOf(v.Type())))
		}
		return []Term{ex.U.Fresh("n", SInt)}
	case "print", "println":
		return nil
	}
	return []Term{ex.opaqueVal(c, "builtin "+name)}
}

func (ex *Exec) innerArraySort(heap string) string {
	s := ex.U.heaps[heap]
	return s[len("(Array Int ") : len(s)-1]
}

// --- modular calls ------------------------------------------------------------------------------------------

// bindings of a callee's receiver/parameters to argument terms
func calleeNames(sig *types.Signature) (params []string, results []string) {
	if r := sig.Recv(); r != nil {
		n := r.Name()
		if n == "" || n == "_" {
			n = "self"
		}
		params = append(params, n)
	}
	for i := 0; i < sig.Params().Len(); i++ {
		n := sig.Params().At(i).Name()
		if n == "" || n == "_" {
			n = fmt.Sprintf("arg%d", i)
		}
		params = append(params, n)
	}
	for i := 0; i < sig.Results().Len(); i++ {
		n := sig.Results().At(i).Name()
		if n == "" || n == "_" {
			if sig.Results().Len() == 1 {
				n = "result"
			} else {
				n = fmt.Sprintf("result%d", i)
			}
		}
		results = append(results, n)
	}
	return
}

func (ex *Exec) callRepo(c *ast.CallExpr, fi *FuncInfo, args []Term) []Term {
	sig := fi.Obj.Type().(*types.Signature)
	eff := ex.P.Effects[fi.Name]
	return ex.callWith(c, fi.Name, fi.Contract, sig, args, eff, fi)
}

func (ex *Exec) callWith(c *ast.CallExpr, calleeName string, con *Contract, sig *types.Signature, args []Term, eff *Effects, fi *FuncInfo) []Term {
	pnames, rnames := calleeNames(sig)
	names := map[string]Term{}
	// a variadic call without "...": the trailing arguments become the slice parameter
	if sig.Variadic() && c != nil && !c.Ellipsis.IsValid() {
		first := sig.Params().Len() - 1
		if sig.Recv() != nil {
			first++
		}
		if first <= len(args) {
			st := ex.U.SortOf(sig.Params().At(sig.Params().Len() - 1).Type())
			if st.Kind == KSeq {
				packed := ex.U.SeqEmpty(st)
				ok := true
				for _, a := range args[first:] {
					if a.Sort != st.Elem {
						ok = false
						break
					}
					packed = ex.U.SeqSnoc(packed, a)
				}
				if ok {
					args = append(append([]Term{}, args[:first]...), packed)
				}
			}
		}
	}
	for i, n := range pnames {
		if i < len(args) {
			names[n] = args[i]
		}
	}
	if con != nil {
		// the contract's own parameter names, by position
		if cn := contractParamNames(con.Sig); len(cn) == len(pnames) {
			for i, n := range cn {
				if _, taken := names[n]; !taken && i < len(args) {
					names[n] = args[i]
				}
			}
		}
	}
	pre := ex.st.clone()
	ex.callOrd[calleeName]++
	ord := ex.callOrd[calleeName]
	// an interface contract (dynamic call): its preconditions are asserted but not assumed, and each of its ensures is
	// assumed under the preconditions that share a tag with it (or carry none) - the same antecedent under which every
	// implementation proves that ensures
	dynamic := con != nil && fi == nil && ex.P.IfaceContracts[calleeName] == con
	type reqT struct {
		tags []string
		t    Term
	}
	var dynReqs []reqT
	if con != nil {
		for k, cl := range con.Of("requires") {
			env := &SpecEnv{st: ex.st, old: pre, names: names, pkg: pkgOfContract(ex.P, con, fi)}
			t, err := ex.specTerm(cl.Expr, env)
			if err != nil {
				ex.contractError(cl, err)
				continue
			}
			id := cl.ID
			if id == "" {
				id = fmt.Sprintf("r%d", k+1)
			}
			oname := fmt.Sprintf("pre:%s->%s#%d#%s", ex.F.Name, calleeName, ord, id)
			if dynamic {
				if !ex.st.dead() {
					ex.obls = append(ex.obls, &Obligation{Name: oname, Kind: "pre", Tags: ex.clauseTagsOf(cl, con), Goal: t, PC: ex.st.pc, NFacts: len(ex.facts), Text: cl.Text, Pos: ex.P.pos(c), Func: ex.F.Name, Expect: "unsat", Detached: true})
				}
				dynReqs = append(dynReqs, reqT{cl.Tags, t})
				continue
			}
			ex.assert(oname, "pre", ex.clauseTagsOf(cl, con), t, cl.Text, ex.P.pos(c))
		}
	} else if fi != nil {
		ex.note("call to " + calleeName + " without contract: results havoc, frame from effect summary")
	}
	if ex.st.dead() {
		return ex.freshResults(sig.Results(), "r")
	}
	// frame
	if eff != nil {
		e2 := eff
		if eff.FuncValues {
			e2 = newEffects()
			e2.merge(eff, calleeName)
			e2.FuncValues = true
			ex.P.closeEffects(e2, ex.F.Name)
			// closures created by the caller and handed to the callee may assign the caller's captured variables (boxed: in heaps)
		}
		ex.havocEffects(e2)
	}
	// results
	var rs []Term
	for i := 0; i < sig.Results().Len(); i++ {
		r := ex.freshOfType(sig.Results().At(i).Type(), calleeName+"_"+rnames[i])
		rs = append(rs, r)
		names[rnames[i]] = r
	}
	if sig.Results().Len() == 1 {
		names["result"] = rs[0]
	}
	for i := range rs {
		if _, taken := names[fmt.Sprintf("result%d", i)]; !taken {
			names[fmt.Sprintf("result%d", i)] = rs[i]
		}
	}
	if con != nil {
		for _, cl := range append(con.Of("ensures"), con.Of("ensures-assumed")...) {
			env := &SpecEnv{st: ex.st, old: pre, names: names, pkg: pkgOfContract(ex.P, con, fi)}
			t, err := ex.specTerm(cl.Expr, env)
			if err != nil {
				ex.contractError(cl, err)
				continue
			}
			if dynamic {
				var ante []Term
				for _, r := range dynReqs {
					if scopedTo(r.tags, cl.Tags) {
						ante = append(ante, r.t)
					}
				}
				t = Implies(And(ante...), t)
			}
			ex.fact(t)
			if cl.Kind == "ensures-assumed" {
				ex.note("assumed contract clause of " + calleeName + ": " + cl.Text)
			}
		}
		// termination of recursion
		if fi != nil && ex.sameSCC(fi) {
			ex.checkDecreases(c, con, names, pre, calleeName, ord)
		}
	}
	if eff != nil && eff.Ghost["exit"] {
		ex.afterOsCall()
	}
	return rs
}

func pkgOfContract(p *Prog, con *Contract, fi *FuncInfo) *types.Package {
	if fi != nil {
		return fi.Pkg.Types
	}
	pkgName := strings.SplitN(con.Func, ".", 2)[0]
	for _, pk := range p.Pkgs {
		if pk.Types.Name() == pkgName {
			return pk.Types
		}
	}
	return nil
}

func (ex *Exec) callIface(c *ast.CallExpr, m *types.Func, args []Term) []Term {
	sig := m.Type().(*types.Signature)
	recvT := sig.Recv().Type()
	name := ""
	if n, ok := types.Unalias(recvT).(*types.Named); ok && n.Obj().Pkg() != nil {
		name = n.Obj().Pkg().Name() + "." + n.Obj().Name() + "." + m.Name()
	} else {
		name = "?." + m.Name()
	}
	// nil interface receiver panics
	if len(args) > 0 && args[0].Sort.Kind == KAny {
		ex.safe("nil-deref", Not(Eq(args[0], Term{"nilAny", SAny})), c, exprString(c.Fun)+" (method call on interface)")
	}
	eff := newEffects()
	for _, impl := range ex.P.Implementations(recvT) {
		ms := types.NewMethodSet(impl)
		if s := ms.Lookup(m.Pkg(), m.Name()); s != nil {
			if fn, ok := s.Obj().(*types.Func); ok {
				if callee, ok := ex.P.ByObj[fn]; ok {
					if ce := ex.P.Effects[callee.Name]; ce != nil {
						eff.merge(ce, callee.Name)
						if ce.FuncValues {
							eff.FuncValues = true
						}
					}
				}
			}
		}
	}
	con := ex.P.IfaceContracts[name]
	if con == nil {
		ex.note("interface call " + name + " without contract: results havoc")
	}
	return ex.callWith(c, name, con, sig, args, eff, nil)
}

func (ex *Exec) sameSCC(fi *FuncInfo) bool {
	if fi.Name == ex.F.Name {
		return true
	}
	// mutual recursion: callee (transitively) calls us
	if ce := ex.P.Reach[fi.Name]; ce != nil && ce[ex.F.Name] {
		return true
	}
	return false
}

func (ex *Exec) checkDecreases(c *ast.CallExpr, con *Contract, names map[string]Term, pre *State, callee string, ord int) {
	mine := ex.F.Contract
	if mine == nil {
		return
	}
	md := mine.Of("decreases")
	cd := con.Of("decreases")
	if len(md) == 0 || len(cd) == 0 {
		return
	}
	envC := &SpecEnv{st: pre, old: pre, names: names, pkg: ex.F.Pkg.Types}
	tc, err := ex.specTerm(cd[0].Expr, envC)
	if err != nil {
		ex.contractError(cd[0], err)
		return
	}
	envM := &SpecEnv{st: ex.entry, old: ex.entry, names: ex.params, pkg: ex.F.Pkg.Types}
	tm, err := ex.specTerm(md[0].Expr, envM)
	if err != nil {
		ex.contractError(md[0], err)
		return
	}
	goal := And(Term{"(>= " + tc.S + " 0)", SBool}, Term{"(< " + tc.S + " " + tm.S + ")", SBool})
	ex.assert(fmt.Sprintf("decr:%s->%s#%d", ex.F.Name, callee, ord), "decr", ex.clauseTagsOf(md[0], mine), goal, cd[0].Text+" < "+md[0].Text, ex.P.pos(c))
}

// --- external functions ----------------------------------------------------------------------------------------

func constString(info *types.Info, e ast.Expr) (string, bool) {
	if tv, ok := info.Types[e]; ok && tv.Value != nil && tv.Value.Kind() == constant.String {
		return constant.StringVal(tv.Value), true
	}
	return "", false
}

func (ex *Exec) itoa(n Term) Term {
	return Term{"(ite (>= " + n.S + " 0) (str.from_int " + n.S + ") (str.++ \"-\" (str.from_int (- " + n.S + "))))", SString}
}

func (ex *Exec) fmtValue(verb byte, v Term, t types.Type, n ast.Node) Term {
	switch v.Sort.Kind {
	case KString:
		if verb == 's' || verb == 'v' {
			return v
		}
	case KInt:
		if verb == 'd' || verb == 'v' {
			if t != nil {
				if _, isStringer := t.(*types.Named); isStringer && verb == 'v' {
					break
				}
			}
			return ex.itoa(v)
		}
	case KBool:
		if verb == 't' || verb == 'v' {
			return Ite(v, StrLit("true"), StrLit("false"))
		}
	case KRef:
		// formatting an address
		ex.note("nondeterminism: pointer formatted with %" + string(verb) + " at " + ex.P.pos(n))
		return ex.U.Fresh("ptrfmt", SString)
	}
	f := ex.U.DeclareFun("fmt_"+string(verb)+"_"+sanitize(v.Sort.Name)+kindSuffix(v.Sort), []*Sort{v.Sort}, SString)
	return Term{app(f.Name, v), SString}
}

func kindSuffix(s *Sort) string {
	if s.Kind == KRef {
		return "_ref"
	}
	return ""
}

func (ex *Exec) sprintf(c *ast.CallExpr, args []Term, argTypes []types.Type) Term {
	format, ok := constString(ex.info, c.Args[0])
	if !ok {
		return ex.opaqueVal(c, "Sprintf with non-constant format")
	}
	var parts []Term
	ai := 1
	lit := ""
	flush := func() {
		if lit != "" {
			parts = append(parts, StrLit(lit))
			lit = ""
		}
	}
	for i := 0; i < len(format); i++ {
		if format[i] != '%' {
			lit += string(format[i])
			continue
		}
		i++
		if i >= len(format) {
			return ex.opaqueVal(c, "Sprintf bad format")
		}
		verb := format[i]
		if verb == '%' {
			lit += "%"
			continue
		}
		if ai >= len(args) {
			return ex.opaqueVal(c, "Sprintf arity")
		}
		flush()
		var at types.Type
		if ai < len(argTypes) {
			at = argTypes[ai]
		}
		parts = append(parts, ex.fmtValue(verb, args[ai], at, c))
		ai++
	}
	flush()
	if len(parts) == 0 {
		return StrLit("")
	}
	if len(parts) == 1 {
		return parts[0]
	}
	return Term{app("str.++", parts...), SString}
}

func (ex *Exec) callExternal(c *ast.CallExpr, o *types.Func, args []Term, argTypes []types.Type) []Term {
	full := extFullName(o)
	sig := o.Type().(*types.Signature)
	ufun := func(name string, res *Sort, as ...Term) Term {
		var ss []*Sort
		for _, a := range as {
			ss = append(ss, a.Sort)
		}
		f := ex.U.DeclareFun(name, ss, res)
		return Term{app(f.Name, as...), res}
	}
	switch full {
	case "fmt.Sprintf":
		return []Term{ex.sprintf(c, args, argTypes)}
	case "errors.New":
		e := ufun("errNew", SAny, args[0])
		ex.fact(Not(Eq(e, Term{"nilAny", SAny})))
		return []Term{e}
	case "fmt.Errorf":
		e := ex.U.Fresh("err", SAny)
		ex.fact(Not(Eq(e, Term{"nilAny", SAny})))
		return []Term{e}
	case "strconv.Itoa":
		return []Term{ex.itoa(args[0])}
	case "strings.ReplaceAll":
		return []Term{{app("str.replace_all", args[0], args[1], args[2]), SString}}
	case "strings.Contains":
		return []Term{{app("str.contains", args[0], args[1]), SBool}}
	case "strings.HasPrefix":
		return []Term{{app("str.prefixof", args[1], args[0]), SBool}}
	case "strings.HasSuffix":
		return []Term{{app("str.suffixof", args[1], args[0]), SBool}}
	case "strings.Index":
		return []Term{{"(str.indexof " + args[0].S + " " + args[1].S + " 0)", SInt}}
	case "strings.ToLower":
		return []Term{ufun("strToLower", SString, args[0])}
	case "strings.Title":
		return []Term{ufun("strTitle", SString, args[0])}
	case "strings.TrimSpace":
		return []Term{ufun("strTrimSpace", SString, args[0])}
	case "strings.Compare":
		return []Term{ufun("strCompare", SInt, args[0], args[1])}
	case "strings.Join":
		if args[0].Sort.Kind == KSeq {
			return []Term{ufun("strJoin", SString, args[0], args[1])}
		}
	case "strings.Fields":
		return []Term{ufun("strFields", ex.U.SortOf(sig.Results().At(0).Type()), args[0])}
	case "strings.Split":
		ss := ex.U.SortOf(sig.Results().At(0).Type())
		r := ufun("strSplit", ss, args[0], args[1])
		ex.fact(Term{"(>= " + ex.U.SeqLen(r).S + " 1)", SBool})
		return []Term{r}
	case "strings.SplitN":
		ss := ex.U.SortOf(sig.Results().At(0).Type())
		r := ufun("strSplitN", ss, args[0], args[1], args[2])
		l := ex.U.SeqLen(r)
		ex.fact(Implies(Eq(args[2], IntLit(2)), And(Term{"(>= " + l.S + " 1)", SBool}, Term{"(<= " + l.S + " 2)", SBool},
			Eq(Eq(l, IntLit(2)), Term{app("str.contains", args[0], args[1]), SBool}))))
		// with n == 2 and a non-empty separator that occurs: the text before its first occurrence and the rest; otherwise the text itself
		if ss.Kind == KSeq {
			at := func(i int) string { return "(at_" + ss.Elem.Name + " " + r.S + " " + fmt.Sprint(i) + ")" }
			idx := "(str.indexof " + args[0].S + " " + args[1].S + " 0)"
			two := "(and (= " + at(0) + " (str.substr " + args[0].S + " 0 " + idx + ")) (= " + at(1) + " (str.substr " + args[0].S + " (+ " + idx + " (str.len " + args[1].S + ")) (str.len " + args[0].S + "))))"
			ex.fact(Implies(And(Eq(args[2], IntLit(2)), Term{"(> (str.len " + args[1].S + ") 0)", SBool}),
				Term{"(ite (str.contains " + args[0].S + " " + args[1].S + ") " + two + " (= " + at(0) + " " + args[0].S + "))", SBool}))
		}
		return []Term{r}
	case "sort.Sort", "sort.Strings":
		if args[0].Sort.Kind == KSeq {
			p := ex.U.Fresh("sorted", args[0].Sort)
			f := ex.U.DeclareFun("perm_"+args[0].Sort.Name[4:], []*Sort{args[0].Sort, args[0].Sort}, SBool)
			ex.fact(Term{app(f.Name, p, args[0]), SBool})
			ex.fact(Eq(ex.U.SeqLen(p), ex.U.SeqLen(args[0])))
			ex.assignTo(c.Args[0], p, ex.info.TypeOf(c.Args[0]))
			ex.note("sort modelled as an arbitrary permutation of its argument (A-SORT)")
			return nil
		}
	case "time.Time.Format":
		return []Term{ufun("timeFormat", SString, args[0], args[1])}
	case "time.Now":
		ex.note("nondeterminism: time.Now at " + ex.P.pos(c))
		rs := ex.freshResults(sig.Results(), "now")
		// A-TIME: the clock is monotone; its readings are numbered by the ghost counter evClock
		tk := ex.U.DeclareFun("timeTick", []*Sort{rs[0].Sort}, SInt)
		g := ex.st.ghost
		ex.fact(Eq(Term{app(tk.Name, rs[0]), SInt}, g["evClock"]))
		ex.st.ghost["evClock"] = ex.def("evClock", Term{"(+ " + g["evClock"].S + " 1)", SInt})
		return rs
	case "regexp.Regexp.MatchString":
		return []Term{ufun("reMatch", SBool, args[0], args[1])}
	case "regexp.Regexp.ReplaceAllString":
		return []Term{ufun("reReplaceAll", SString, Term{args[0].S, SInt}, args[1], args[2])}
	case "bytes.NewBufferString":
		// the same buffer as bytes.NewBuffer([]byte(s))
		bs := ex.U.SeqOf(SInt)
		f := ex.U.DeclareFun("stringToBytes", []*Sort{SString}, bs)
		r := ufun("bytesBuffer", ex.U.SortOf(sig.Results().At(0).Type()), Term{app(f.Name, args[0]), bs})
		ex.fact(Term{"(> " + r.S + " 0)", SBool})
		return []Term{Term{r.S, ex.U.SortOf(sig.Results().At(0).Type())}}
	case "bytes.NewBuffer":
		r := ufun("bytesBuffer", ex.U.SortOf(sig.Results().At(0).Type()), args[0])
		ex.fact(Term{"(> " + r.S + " 0)", SBool})
		return []Term{Term{r.S, ex.U.SortOf(sig.Results().At(0).Type())}}
	case "encoding/json.NewDecoder":
		a := args[0]
		if a.Sort.Kind == KAny {
			// io.Reader holding a *bytes.Buffer: unwrap the pointer we boxed
			if strings.HasPrefix(a.S, "(box_") {
				inner := a.S[strings.Index(a.S, " ")+1 : len(a.S)-1]
				a = Term{inner, SInt}
			}
		}
		if a.Sort.Name == "Int" {
			r := ufun("jsonDecoder", SInt, Term{a.S, SInt})
			ex.fact(Term{"(> " + r.S + " 0)", SBool})
			return []Term{Term{r.S, ex.U.SortOf(sig.Results().At(0).Type())}}
		}
	case "encoding/json.Decoder.Decode":
		err := ex.U.Fresh("decodeErr", SAny)
		ok := ufun("jsonValid", SBool, Term{args[0].S, SInt})
		ex.fact(Eq(Eq(err, Term{"nilAny", SAny}), ok))
		if len(args) > 1 && args[1].Sort.Kind == KRef {
			ex.havocHeap(args[1].Sort.Heap)
		}
		ex.note("encoding/json Decode: error iff no complete JSON value can be read (assumed contract A-JSON); decoded value havoc")
		return []Term{err}
	case "encoding/json.Decoder.Token":
		// after a value has been decoded: io.EOF exactly when nothing but blanks follows (assumed contract A-JSON)
		tok := ex.U.Fresh("jsonToken", SAny)
		err := ex.U.Fresh("tokenErr", SAny)
		for _, imp := range ex.F.Pkg.Types.Imports() {
			if imp.Path() == "io" {
				if v, ok := imp.Scope().Lookup("EOF").(*types.Var); ok {
					eof := ex.global(ex.st, v)
					ex.fact(Not(Eq(eof, Term{"nilAny", SAny})))
					ex.fact(Eq(Eq(err, eof), ufun("jsonAtEnd", SBool, Term{args[0].S, SInt})))
				}
			}
		}
		ex.note("encoding/json Token after Decode: io.EOF iff only blanks follow the decoded value (assumed contract A-JSON)")
		return []Term{tok, err}
	case "regexp.MustCompile":
		ex.note("regexp.MustCompile assumed not to panic (constant patterns)")
		r := ufun("reCompile", SInt, args[0])
		if lit, isConst := constString(ex.info, c.Args[0]); isConst {
			if re, err := regexp.Compile(lit); err == nil {
				// the number of capture groups of a constant pattern, computed with the regexp package itself
				ex.fact(Eq(ufun("reNumSubexp", SInt, r), IntLit(int64(re.NumSubexp()))))
			}
		}
		return []Term{{r.S, ex.U.SortOf(sig.Results().At(0).Type())}}
	case "regexp.Regexp.FindAllStringSubmatch":
		rs := ex.freshResults(sig.Results(), "submatch")
		ss := rs[0].Sort
		if ss.Kind == KSeq && ss.Elem != nil && ss.Elem.Kind == KSeq {
			i := ex.U.Fresh("i", SInt)
			at := app("at_"+ss.Elem.Name, rs[0], i)
			body := fmt.Sprintf("(forall ((%s Int)) (! (=> (and (<= 0 %s) (< %s (len_%s %s))) (= (len_%s %s) (+ 1 %s))) :pattern (%s)))",
				i.S, i.S, i.S, ss.Elem.Name, rs[0].S, ss.Elem.Elem.Name, at, ufun("reNumSubexp", SInt, Term{args[0].S, SInt}).S, at)
			ex.fact(Term{body, SBool})
			ex.note("regexp FindAllStringSubmatch: every match holds 1 + NumSubexp strings (assumed contract A-REGEXP)")
		}
		return rs
	case "regexp.Compile":
		r := ufun("reCompile", SInt, args[0])
		errv := ex.U.Fresh("reErr", SAny)
		if _, isConst := constString(ex.info, c.Args[0]); isConst {
			ex.fact(Eq(errv, Term{"nilAny", SAny}))
			ex.note("regexp.Compile of a constant pattern assumed to succeed")
		}
		return []Term{{r.S, ex.U.SortOf(sig.Results().At(0).Type())}, errv}
	}
	if r, ok := ex.osModel(full, c, args); ok {
		return r
	}
	switch {
	case strings.HasSuffix(full, "opa/rego.Rego.PrepareForEval"):
		rs := ex.freshResults(sig.Results(), "prepare")
		g := ex.st.ghost
		ex.st.ghost["opaRejected"] = ex.def("opaRejected", Or(g["opaRejected"], Not(Eq(rs[1], Term{"nilAny", SAny}))))
		ex.note("OPA PrepareForEval: a module calling a denied built-in is rejected with an error (A-OPA6); the error result is otherwise unconstrained")
		return rs
	case strings.HasSuffix(full, "json-gold/ld.JsonLdProcessor.Flatten"):
		rs := ex.freshResults(sig.Results(), "flatten")
		g := ex.st.ghost
		ex.st.ghost["ldRejected"] = ex.def("ldRejected", Or(g["ldRejected"], Not(Eq(rs[1], Term{"nilAny", SAny}))))
		ex.note("json-gold Flatten: returns an error iff JSON-LD processing rejects the document (assumed contract A-LD)")
		return rs
	case strings.HasSuffix(full, "opa/rego.PreparedEvalQuery.Eval"):
		rs := ex.freshResults(sig.Results(), "eval")
		ex.st.ghost["opaEvaluated"] = TTrue
		return rs
	}
	// an unmodelled operating-system primitive may change the file system / stdout ghost state
	if o.Pkg() != nil {
		switch o.Pkg().Path() {
		case "os", "io/ioutil", "io", "bufio", "syscall", "os/exec", "io/fs":
			if !extPure[full] {
				for _, gv := range ghostVars {
					if gv.Cat == "fs" || gv.Cat == "stdout" {
						ex.st.ghost[gv.Name] = ex.U.Fresh(gv.Name, gv.Sort)
					}
				}
				ex.note("unmodelled OS primitive " + full + ": file-system and stdout ghost state havoc")
			}
		}
	}
	// default: fresh results; may write through pointer / map arguments
	if !extPure[full] {
		for i, a := range args {
			_ = i
			if a.Sort.Kind == KRef {
				if a.Sort.IsMap {
					ex.havocHeap(a.Sort.Heap)
					ex.havocHeap(a.Sort.Dom)
				} else if !opaqueHeap(a.Sort.Heap) {
					ex.havocHeap(a.Sort.Heap)
				}
			}
		}
		ex.note("external " + full + ": may write through pointer/map arguments; results havoc")
	} else {
		ex.note("external " + full + ": results havoc (assumed not to panic)")
	}
	return ex.freshResults(sig.Results(), sanitize(o.Name()))
}

// scopedTo: a precondition is an antecedent of an ensures of an interface contract when it carries no tag or shares one
func scopedTo(reqTags, ensTags []string) bool {
	if len(reqTags) == 0 {
		return true
	}
	for _, a := range reqTags {
		for _, b := range ensTags {
			if a == b {
				return true
			}
		}
	}
	return false
}
