package main

// Ownership back end: slices have value semantics in the VCs, which is only sound if no backing array is extended or
// written through two owners. This file decides, per function and modularly (through per-parameter summaries), a linear
// ownership discipline for slice-carrying values:
//
//   - a slice may be extended in place (x = append(x, ...)), appended from, or stored into only if it is a fresh local
//     (built in this function) or rooted at a parameter; the latter makes the parameter "mutated" in the function's summary;
//   - handing a value to a mutated parameter, or appending from it into another place, moves it: the same access path
//     may be moved at most once on any path through the function, and never inside a loop when it was bound outside it;
//   - a value returned by a call is fresh unless the callee's summary says the result aliases one of its arguments.
//
// sort.Sort / sort.Strings permute in place and are excluded (assumption A-SORT).

import (
	"fmt"
	"go/ast"
	"go/token"
	"go/types"
	"sort"
	"strings"
)

func sliceCarrying(t types.Type, depth int) bool {
	if t == nil || depth > 3 {
		return false
	}
	switch tt := types.Unalias(t).Underlying().(type) {
	case *types.Slice:
		return true
	case *types.Struct:
		for i := 0; i < tt.NumFields(); i++ {
			if sliceCarrying(tt.Field(i).Type(), depth+1) {
				return true
			}
		}
	}
	return false
}

type ownSummary struct {
	mutates map[int]string // parameter index -> witness
	aliases map[int]bool   // result may alias this parameter
}

type ownEvent struct {
	path  string // access path, e.g. "t" or "t.rego"
	root  *types.Var
	move  bool // ownership leaves this access path (true) or in-place extension (false)
	pos   token.Pos
	what  string
	loops []ast.Node // enclosing loops at the event
}

type ownAnalysis struct {
	p         *Prog
	sums      map[string]*ownSummary
	elemColl  map[*types.Var]*types.Var // range value variable -> the collection variable it iterates over
	elemRange map[*types.Var]ast.Node   // ... and its range statement
}

func (p *Prog) paramVars(fi *FuncInfo) []*types.Var {
	if fi.Obj == nil {
		return nil
	}
	sig := fi.Obj.Type().(*types.Signature)
	var vs []*types.Var
	if r := sig.Recv(); r != nil {
		vs = append(vs, r)
	}
	for i := 0; i < sig.Params().Len(); i++ {
		vs = append(vs, sig.Params().At(i))
	}
	return vs
}

// accessPath renders a selector chain rooted at an identifier; ok=false if the expression is not such a chain
func accessPath(info *types.Info, e ast.Expr) (string, *types.Var, bool) {
	switch x := unparen(e).(type) {
	case *ast.Ident:
		if v, ok := info.Uses[x].(*types.Var); ok {
			return x.Name, v, true
		}
		if v, ok := info.Defs[x].(*types.Var); ok {
			return x.Name, v, true
		}
	case *ast.SelectorExpr:
		if _, isSel := info.Selections[x]; isSel {
			if p, v, ok := accessPath(info, x.X); ok {
				return p + "." + x.Sel.Name, v, true
			}
		}
	case *ast.SliceExpr:
		return accessPath(info, x.X)
	case *ast.StarExpr:
		return accessPath(info, x.X)
	}
	return "", nil, false
}

func (a *ownAnalysis) analyse(fi *FuncInfo) (events []ownEvent, retAlias map[*types.Var]bool, fresh map[*types.Var]bool, aliasOf map[*types.Var]*types.Var, declLoop map[*types.Var]ast.Node) {
	info := fi.Pkg.TypesInfo
	p := a.p
	params := map[*types.Var]int{}
	for i, v := range p.paramVars(fi) {
		params[v] = i
	}
	// which expressions are fresh (own their backing arrays)?
	var isFreshExpr func(e ast.Expr, self *types.Var) (bool, []*types.Var)
	locals := map[*types.Var][]ast.Expr{} // assigned expressions
	rangeOf := map[*types.Var]ast.Expr{}
	declLoop = map[*types.Var]ast.Node{}
	var loopStack []ast.Node
	var walkDecl func(n ast.Node)
	walkDecl = func(n ast.Node) {
		ast.Inspect(n, func(nd ast.Node) bool {
			switch x := nd.(type) {
			case *ast.FuncLit:
				return false
			case *ast.ForStmt:
				if x.Init != nil {
					walkDecl(x.Init)
				}
				loopStack = append(loopStack, x)
				walkDecl(x.Body)
				loopStack = loopStack[:len(loopStack)-1]
				return false
			case *ast.RangeStmt:
				loopStack = append(loopStack, x)
				for _, kv := range []ast.Expr{x.Key, x.Value} {
					if id, ok := kv.(*ast.Ident); ok {
						if v, ok := info.Defs[id].(*types.Var); ok {
							declLoop[v] = x
							if kv == x.Value {
								rangeOf[v] = x.X
							}
						}
					}
				}
				walkDecl(x.Body)
				loopStack = loopStack[:len(loopStack)-1]
				return false
			case *ast.AssignStmt:
				if len(x.Lhs) == len(x.Rhs) {
					for i, l := range x.Lhs {
						if id, ok := l.(*ast.Ident); ok {
							var v *types.Var
							if d, ok := info.Defs[id].(*types.Var); ok {
								v = d
								if len(loopStack) > 0 {
									declLoop[v] = loopStack[len(loopStack)-1]
								}
							} else if u, ok := info.Uses[id].(*types.Var); ok {
								v = u
							}
							if v != nil && !isPkgLevel(v) {
								locals[v] = append(locals[v], x.Rhs[i])
							}
						}
					}
				} else {
					for _, l := range x.Lhs {
						if id, ok := l.(*ast.Ident); ok {
							if d, ok := info.Defs[id].(*types.Var); ok {
								if len(loopStack) > 0 {
									declLoop[d] = loopStack[len(loopStack)-1]
								}
								locals[d] = append(locals[d], x.Rhs[0])
							} else if u, ok := info.Uses[id].(*types.Var); ok && !isPkgLevel(u) {
								locals[u] = append(locals[u], x.Rhs[0])
							}
						}
					}
				}
			case *ast.ValueSpec:
				for i, id := range x.Names {
					if d, ok := info.Defs[id].(*types.Var); ok {
						if len(loopStack) > 0 {
							declLoop[d] = loopStack[len(loopStack)-1]
						}
						if i < len(x.Values) {
							locals[d] = append(locals[d], x.Values[i])
						} else {
							locals[d] = append(locals[d], nil) // zero value: fresh
						}
					}
				}
			}
			return true
		})
	}
	walkDecl(fi.Body())

	isFreshExpr = func(e ast.Expr, self *types.Var) (bool, []*types.Var) {
		if e == nil {
			return true, nil
		}
		switch x := unparen(e).(type) {
		case *ast.Ident:
			if x.Name == "nil" {
				return true, nil
			}
			if v, ok := info.Uses[x].(*types.Var); ok {
				if v == self {
					return true, nil
				}
				return false, []*types.Var{v}
			}
			return true, nil
		case *ast.CompositeLit:
			// fresh container; slice-typed elements that are bare access paths alias their roots
			var roots []*types.Var
			for _, el := range x.Elts {
				val := el
				if kv, ok := el.(*ast.KeyValueExpr); ok {
					val = kv.Value
				}
				if sliceCarrying(info.TypeOf(val), 0) {
					if ok, rs := isFreshExpr(val, self); !ok {
						roots = append(roots, rs...)
					}
				}
			}
			return len(roots) == 0, roots
		case *ast.CallExpr:
			if tv, ok := info.Types[x.Fun]; ok && tv.IsType() {
				if len(x.Args) == 1 {
					return isFreshExpr(x.Args[0], self)
				}
				return true, nil
			}
			if id, ok := unparen(x.Fun).(*ast.Ident); ok {
				if _, isB := info.Uses[id].(*types.Builtin); isB {
					switch id.Name {
					case "make", "new":
						return true, nil
					case "append":
						return isFreshExpr(x.Args[0], self)
					}
				}
			}
			if callee, args := p.staticCallee(info, x); callee != nil {
				var roots []*types.Var
				if s := a.sums[callee.Name]; s != nil {
					for i := range s.aliases {
						if _, consumed := s.mutates[i]; consumed {
							continue // the callee takes the argument over and its result is the new owner
						}
						if i < len(args) {
							if ok, rs := isFreshExpr(args[i], self); !ok {
								roots = append(roots, rs...)
							}
						}
					}
				}
				return len(roots) == 0, roots
			}
			return true, nil // external functions return values they own (assumption)
		case *ast.SelectorExpr, *ast.SliceExpr, *ast.IndexExpr, *ast.StarExpr:
			if _, v, ok := accessPath(info, x); ok {
				return false, []*types.Var{v}
			}
			if ix, ok := x.(*ast.IndexExpr); ok {
				return isFreshExpr(ix.X, self)
			}
			return true, nil
		case *ast.BasicLit, *ast.FuncLit, *ast.BinaryExpr, *ast.UnaryExpr, *ast.TypeAssertExpr:
			return true, nil
		}
		return true, nil
	}

	// fresh locals: greatest fixpoint
	fresh = map[*types.Var]bool{}
	aliasOf = map[*types.Var]*types.Var{}
	for v := range locals {
		if _, isParam := params[v]; !isParam && sliceCarrying(v.Type(), 0) {
			fresh[v] = true
		}
	}
	for v, rx := range rangeOf {
		if sliceCarrying(v.Type(), 0) {
			if ok, rs := isFreshExpr(rx, nil); ok {
				fresh[v] = true // elements of a temporary collection: one owner per iteration
			} else {
				fresh[v] = false
				if len(rs) > 0 {
					aliasOf[v] = rs[0]
					a.elemColl[v] = rs[0]
					a.elemRange[v] = declLoop[v]
				}
			}
		}
	}
	for changed := true; changed; {
		changed = false
		for v, exprs := range locals {
			if !fresh[v] {
				continue
			}
			for _, e := range exprs {
				ok, rs := isFreshExpr(e, v)
				if !ok {
					// aliasing a fresh local that is not used as an owner elsewhere is a move of that local: treat as alias
					allFresh := true
					for _, r := range rs {
						if !fresh[r] {
							allFresh = false
						}
					}
					if !allFresh {
						fresh[v] = false
						aliasOf[v] = rs[0]
						changed = true
						break
					}
					// v takes over r: v stays fresh, r becomes an alias of v (moved)
				}
			}
		}
	}
	for v, c := range a.elemColl {
		if _, mine := rangeOf[v]; !mine {
			continue
		}
		if fresh[c] {
			// the collection is built here: each element is a distinct owner (the producer's obligation), visited once per
			// execution of the range statement
			fresh[v] = true
			delete(aliasOf, v)
		}
	}
	resolve := func(v *types.Var) *types.Var {
		for i := 0; i < 10; i++ {
			if fresh[v] {
				return v
			}
			if _, isParam := params[v]; isParam {
				return v
			}
			n, ok := aliasOf[v]
			if !ok || n == v {
				return v
			}
			v = n
		}
		return v
	}

	// events
	retAlias = map[*types.Var]bool{}
	var loops []ast.Node
	rebound := map[token.Pos]bool{} // arguments that the same assignment binds again from the call's result
	var visit func(n ast.Node)
	addEvent := func(e ast.Expr, move bool, what string, pos token.Pos) {
		path, v, ok := accessPath(info, e)
		if !ok || v == nil || isPkgLevel(v) || !sliceCarrying(info.TypeOf(e), 0) {
			return
		}
		r := resolve(v)
		if r != v {
			// rename the root of the path
			if i := strings.Index(path, "."); i >= 0 {
				path = r.Name() + "<-" + v.Name() + path[i:]
			} else {
				path = r.Name() + "<-" + v.Name()
			}
		}
		if fresh[r] {
			if _, isParam := params[r]; !isParam {
				if !move {
					return // in-place extension of a fresh local
				}
			}
		}
		events = append(events, ownEvent{path: path, root: r, move: move, pos: pos, what: what, loops: append([]ast.Node{}, loops...)})
	}
	visit = func(n ast.Node) {
		ast.Inspect(n, func(nd ast.Node) bool {
			switch x := nd.(type) {
			case *ast.FuncLit:
				return false
			case *ast.ForStmt:
				if x.Init != nil {
					visit(x.Init)
				}
				loops = append(loops, x)
				if x.Cond != nil {
					visit(x.Cond)
				}
				visit(x.Body)
				if x.Post != nil {
					visit(x.Post)
				}
				loops = loops[:len(loops)-1]
				return false
			case *ast.RangeStmt:
				visit(x.X)
				loops = append(loops, x)
				visit(x.Body)
				loops = loops[:len(loops)-1]
				return false
			case *ast.AssignStmt:
				// x = append(x, ...) : in-place extension; y = append(x, ...) : move of x
				for i, r := range x.Rhs {
					if c, ok := unparen(r).(*ast.CallExpr); ok {
						if id, ok := unparen(c.Fun).(*ast.Ident); ok && id.Name == "append" {
							if _, isB := info.Uses[id].(*types.Builtin); isB && len(c.Args) > 0 && i < len(x.Lhs) {
								same := exprString(unparen(x.Lhs[i])) == exprString(unparen(c.Args[0]))
								addEvent(c.Args[0], !same, "append("+exprString(c.Args[0])+", …) assigned to "+exprString(x.Lhs[i]), c.Pos())
								for _, a2 := range c.Args[1:] {
									visit(a2)
								}
								continue
							}
						}
					}
					// x, err = f(x, …): the value is handed over and received back in the same statement, like x = append(x, …)
					if c, ok := unparen(r).(*ast.CallExpr); ok && len(x.Rhs) == 1 {
						for _, arg := range c.Args {
							for _, l := range x.Lhs {
								if exprString(unparen(l)) == exprString(unparen(arg)) {
									rebound[arg.Pos()] = true
								}
							}
						}
					}
					visit(r)
				}
				for _, l := range x.Lhs {
					if ix, ok := unparen(l).(*ast.IndexExpr); ok {
						if _, isSlice := info.TypeOf(ix.X).Underlying().(*types.Slice); isSlice {
							addEvent(ix.X, false, "element store "+exprString(l)+" = …", l.Pos())
						}
					}
				}
				return false
			case *ast.CallExpr:
				if id, ok := unparen(x.Fun).(*ast.Ident); ok && id.Name == "append" {
					if _, isB := info.Uses[id].(*types.Builtin); isB && len(x.Args) > 0 {
						addEvent(x.Args[0], true, "append("+exprString(x.Args[0])+", …) used as a value", x.Pos())
						for _, a2 := range x.Args[1:] {
							visit(a2)
						}
						return false
					}
				}
				if fn := externalCallee(info, x); fn != nil && fn.Pkg() != nil && fn.Pkg().Path() == "sort" {
					return true // A-SORT
				}
				if callee, args := p.staticCallee(info, x); callee != nil {
					s := a.sums[callee.Name]
					for i, arg := range args {
						if s != nil {
							if w, mut := s.mutates[i]; mut {
								// the argument (or what it aliases) is handed over
								if c2, isCall := unparen(arg).(*ast.CallExpr); isCall {
									if callee2, args2 := p.staticCallee(info, c2); callee2 != nil {
										if s2 := a.sums[callee2.Name]; s2 != nil {
											for j := range s2.aliases {
												if j < len(args2) {
													addEvent(args2[j], true, "handed (through "+callee2.Name+") to "+callee.Name+", which "+w, arg.Pos())
												}
											}
										}
									}
								} else {
									addEvent(arg, !rebound[arg.Pos()], "handed to "+callee.Name+", which "+w, arg.Pos())
								}
							}
						}
					}
				}
				return true
			case *ast.ReturnStmt:
				for _, r := range x.Results {
					if sliceCarrying(info.TypeOf(r), 0) {
						if ok, rs := isFreshExpr(r, nil); !ok {
							for _, v := range rs {
								rv := resolve(v)
								if _, isParam := params[rv]; isParam {
									retAlias[rv] = true
								}
							}
						}
					}
				}
				return true
			}
			return true
		})
	}
	visit(fi.Body())
	return
}

func (p *Prog) ownObligations(pkgs map[string]bool, tag string) []*Obligation {
	a := &ownAnalysis{p: p, sums: map[string]*ownSummary{}, elemColl: map[*types.Var]*types.Var{}, elemRange: map[*types.Var]ast.Node{}}
	var funcs []*FuncInfo
	for _, n := range p.Order {
		fi := p.Funcs[n]
		if fi.Obj == nil || strings.HasSuffix(fi.File, "/peg.go") {
			continue
		}
		funcs = append(funcs, fi)
		a.sums[n] = &ownSummary{mutates: map[int]string{}, aliases: map[int]bool{}}
	}
	// summaries: fixpoint
	for changed := true; changed; {
		changed = false
		for _, fi := range funcs {
			events, retAlias, _, _, _ := a.analyse(fi)
			s := a.sums[fi.Name]
			params := p.paramVars(fi)
			for i, v := range params {
				for _, e := range events {
					if e.root == v {
						if _, ok := s.mutates[i]; !ok {
							s.mutates[i] = "extends or hands on its parameter " + v.Name() + " (" + e.what + ")"
							changed = true
						}
					}
				}
				if retAlias[v] && !s.aliases[i] {
					s.aliases[i] = true
					changed = true
				}
			}
		}
	}
	// obligations
	var obls []*Obligation
	for _, fi := range funcs {
		if !pkgs[fi.Pkg.Types.Name()] {
			continue
		}
		events, _, fresh, _, declLoop := a.analyse(fi)
		params := map[*types.Var]bool{}
		for _, v := range p.paramVars(fi) {
			params[v] = true
		}
		byRoot := map[*types.Var][]ownEvent{}
		for _, e := range events {
			byRoot[e.root] = append(byRoot[e.root], e)
		}
		var roots []*types.Var
		for r := range byRoot {
			roots = append(roots, r)
		}
		sort.Slice(roots, func(i, j int) bool { return roots[i].Pos() < roots[j].Pos() })
		for _, r := range roots {
			var bad []string
			evs := byRoot[r]
			// 1. a value that is neither fresh nor rooted at a parameter must not be extended, stored into or handed on
			if !params[r] && !fresh[r] {
				for _, e := range evs {
					bad = append(bad, fmt.Sprintf("%s at %s: %s is neither built here nor a parameter (it aliases another live value)", e.what, p.posOf(e.pos), e.path))
				}
			}
			// 2. a move inside a loop of a value bound outside that loop happens once per iteration
			for _, e := range evs {
				if !e.move {
					continue
				}
				if rs, isElem := a.elemRange[r]; isElem && rs != nil && fresh[r] {
					// element of a collection built in this function: the range statement must not run more than once over it
					c := a.elemColl[r]
					for _, l := range e.loops {
						if l != rs && l.Pos() <= rs.Pos() && rs.End() <= l.End() && !declaredInside(c, l) {
							bad = append(bad, fmt.Sprintf("%s at %s: the elements of %s are handed over once per run of the loop at %s, which is repeated by the loop at %s", e.what, p.posOf(e.pos), c.Name(), p.pos(rs), p.pos(l)))
							break
						}
					}
					continue
				}
				for _, l := range e.loops {
					if declLoop[r] != l && !declaredInside(r, l) {
						bad = append(bad, fmt.Sprintf("%s at %s: %s is handed over on every iteration of the loop at %s but bound outside it", e.what, p.posOf(e.pos), e.path, p.pos(l)))
						break
					}
				}
			}
			// 3. two moves of overlapping access paths on one path through the function
			var moves []ownEvent
			for _, e := range evs {
				if e.move {
					moves = append(moves, e)
				}
			}
			for i := 0; i < len(moves); i++ {
				for j := i + 1; j < len(moves); j++ {
					x, y := moves[i], moves[j]
					if !(strings.HasPrefix(x.path+".", y.path+".") || strings.HasPrefix(y.path+".", x.path+".")) {
						continue
					}
					if p.exclusiveBranches(fi, x.pos, y.pos) {
						continue
					}
					bad = append(bad, fmt.Sprintf("%s moved twice: %s (%s) and %s (%s)", x.path, p.posOf(x.pos), x.what, p.posOf(y.pos), y.what))
				}
			}
			sort.Strings(bad)
			obls = append(obls, analysisObl("own:"+fi.Name+"#"+r.Name(), "own", []string{tag}, len(bad) == 0,
				"slice-carrying value "+r.Name()+" has a single owner: extended or stored into only if fresh or a parameter, handed over at most once on any path", p.pos(fi.Body()), strings.Join(bad, "\n"), fi.Name))
		}
	}
	return obls
}

func declaredInside(v *types.Var, loop ast.Node) bool {
	return v.Pos() >= loop.Pos() && v.Pos() <= loop.End()
}

func (p *Prog) posOf(pos token.Pos) string {
	ps := p.Fset.Position(pos)
	return fmt.Sprintf("%s:%d", strings.TrimPrefix(ps.Filename, p.RepoDir+"/"), ps.Line)
}

// exclusiveBranches: the two positions lie in different arms of one if/else, switch or type switch
func (p *Prog) exclusiveBranches(fi *FuncInfo, a, b token.Pos) bool {
	excl := false
	in := func(n ast.Node, pos token.Pos) bool { return n != nil && pos >= n.Pos() && pos <= n.End() }
	ast.Inspect(fi.Body(), func(nd ast.Node) bool {
		switch x := nd.(type) {
		case *ast.IfStmt:
			if x.Else != nil && ((in(x.Body, a) && in(x.Else, b)) || (in(x.Body, b) && in(x.Else, a))) {
				excl = true
			}
			// early return in the then-branch makes the rest exclusive too
			if in(x.Body, a) != in(x.Body, b) && endsInReturn(x.Body) && x.Else == nil {
				if (in(x.Body, a) && b > x.End()) || (in(x.Body, b) && a > x.End()) {
					excl = true
				}
			}
		case *ast.SwitchStmt:
			excl = excl || differentClauses(x.Body, a, b)
		case *ast.TypeSwitchStmt:
			excl = excl || differentClauses(x.Body, a, b)
		}
		return true
	})
	return excl
}

func endsInReturn(b *ast.BlockStmt) bool {
	if len(b.List) == 0 {
		return false
	}
	switch s := b.List[len(b.List)-1].(type) {
	case *ast.ReturnStmt:
		return true
	case *ast.ExprStmt:
		if c, ok := s.X.(*ast.CallExpr); ok {
			if id, ok := c.Fun.(*ast.Ident); ok && id.Name == "panic" {
				return true
			}
		}
	}
	return false
}

func differentClauses(body *ast.BlockStmt, a, b token.Pos) bool {
	ia, ib := -1, -1
	for i, c := range body.List {
		if a >= c.Pos() && a <= c.End() {
			ia = i
		}
		if b >= c.Pos() && b <= c.End() {
			ib = i
		}
	}
	return ia >= 0 && ib >= 0 && ia != ib
}
