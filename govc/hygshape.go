package main

// C07, third tier: two shapes of emitted text that make the engine reject a module although the profile is well-formed.
//
//	hyg:<func>#comment-lines-hold-one-line-text
//	    a Rego line comment ("#..." + text) ends at the first line break, so whatever follows a line break inside the text is
//	    read as code. Every non-constant part of such a line must be the recorded source of a path (PropertyPath.Source(),
//	    which path.ParsePath's contract C07:source-on-one-line keeps free of line breaks).
//	hyg:<func>#value-sets-via-regoStringSet
//	    "{" list "}" is a set only when the list is non-empty ("{}" is an empty object). A list of values is rendered by
//	    regoStringList, and the only function that may wrap it is regoStringSet (contract C07:empty-list-is-set()); no
//	    format of the generator may put braces around a single verb.

import (
	"go/ast"
	"go/token"
	"go/types"
	"regexp"
	"sort"
	"strings"
)

var reBraceVerb = regexp.MustCompile(`\{\s*%[sv]\s*\}`)

func (p *Prog) hygShapeObligations() []*Obligation {
	tags := []string{"C07"}
	var obls []*Obligation
	gpk := p.AllPkgs[repoMod+"/internal/generator"]
	if gpk == nil {
		return nil
	}
	var names []string
	for n, fi := range p.Funcs {
		if fi.Pkg == gpk && fi.Body() != nil && !strings.HasSuffix(p.Fset.Position(fi.Decl.Pos()).Filename, "_test.go") {
			names = append(names, n)
		}
	}
	sort.Strings(names)
	for _, n := range names {
		fi := p.Funcs[n]
		info := fi.Pkg.TypesInfo
		h := &hygEval{info: info, sym: map[types.Object]string{}, consts: map[types.Object]string{}}
		isSource := func(e ast.Expr) bool {
			c, ok := ast.Unparen(e).(*ast.CallExpr)
			if !ok || len(c.Args) != 0 {
				return false
			}
			sel, ok := c.Fun.(*ast.SelectorExpr)
			if !ok || sel.Sel.Name != "Source" {
				return false
			}
			fn, ok := info.Uses[sel.Sel].(*types.Func)
			return ok && fn.Pkg() != nil && fn.Pkg().Path() == repoMod+"/internal/parser/path"
		}
		// the operands of a chain of +, left to right
		var flat func(e ast.Expr) []ast.Expr
		flat = func(e ast.Expr) []ast.Expr {
			e = ast.Unparen(e)
			if b, ok := e.(*ast.BinaryExpr); ok && b.Op == token.ADD {
				return append(flat(b.X), flat(b.Y)...)
			}
			return []ast.Expr{e}
		}
		hasComment, hasSet := false, false
		var badComment, badSet []string
		ast.Inspect(fi.Body(), func(nd ast.Node) bool {
			switch x := nd.(type) {
			case *ast.BinaryExpr:
				if x.Op != token.ADD {
					return true
				}
				parts := flat(x)
				if s, ok := h.constOf(parts[0]); ok && strings.HasPrefix(strings.TrimLeft(s, " \t"), "#") {
					hasComment = true
					for _, q := range parts[1:] {
						if s2, ok := h.constOf(q); ok {
							if strings.ContainsAny(s2, "\n\r") {
								badComment = append(badComment, "the constant "+exprString(q)+" at "+p.pos(q)+" has a line break inside a comment line")
							}
							continue
						}
						if !isSource(q) {
							badComment = append(badComment, exprString(q)+" at "+p.pos(q)+" is put into a comment line but is not the one-line source of a path")
						}
					}
					return false
				}
			case *ast.CallExpr:
				if isPkgFunc(info, x, "fmt", "Sprintf") && len(x.Args) > 0 {
					if f, ok := h.constOf(x.Args[0]); ok {
						if strings.HasPrefix(strings.TrimLeft(f, " \t"), "#") {
							hasComment = true
							for _, a := range x.Args[1:] {
								if _, ok := h.constOf(a); !ok && !isSource(a) {
									badComment = append(badComment, exprString(a)+" at "+p.pos(a)+" is formatted into a comment line but is not the one-line source of a path")
								}
							}
						}
						if m := reBraceVerb.FindString(f); m != "" {
							hasSet = true
							badSet = append(badSet, "the format at "+p.pos(x.Args[0])+" puts braces around a single verb ("+m+"): with an empty list that is an object, not a set")
						}
					}
				}
				if callee, _ := p.staticCallee(info, x); callee != nil {
					switch callee.Name {
					case "generator.regoStringList":
						hasSet = true
						if n != "generator.regoStringSet" {
							badSet = append(badSet, "regoStringList is called at "+p.pos(x)+" outside regoStringSet")
						}
					case "generator.regoStringSet":
						hasSet = true
					}
				}
			}
			return true
		})
		pos := p.pos(fi.Body())
		if hasComment {
			obls = append(obls, analysisObl("hyg:"+n+"#comment-lines-hold-one-line-text", "hyg", tags, len(badComment) == 0,
				"every non-constant part of a comment line emitted by "+n+" is the recorded source of a path (one line by the contract of path.ParsePath)", pos, strings.Join(badComment, "\n"), n))
		}
		if hasSet {
			obls = append(obls, analysisObl("hyg:"+n+"#value-sets-via-regoStringSet", "hyg", tags, len(badSet) == 0,
				"lists of values reach the generated code of "+n+" as sets only through regoStringSet (set() when the list is empty)", pos, strings.Join(badSet, "\n"), n))
		}
	}
	return obls
}
