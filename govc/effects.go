package main

// Effect summaries (frame back end): which heaps, package-level variables and ghost resources a
// function may write, transitively, computed from the typed AST. Used (a) to havoc precisely at calls
// to functions without a contract and at loop heads, (b) for frame:/det: obligations.

import (
	"fmt"
	"go/ast"
	"go/token"
	"go/types"
	"sort"
	"strings"
)

type Effects struct {
	Heaps      map[string]bool
	Globals    map[*types.Var]string // written package-level vars -> a witness position
	GlobalsR   map[*types.Var]bool   // read package-level vars
	Ghost      map[string]bool       // chan, os
	Nondet     map[string]string     // source id -> description
	Calls      map[string]bool       // repository callees (qualified names)
	ExtCalls   map[string]bool       // external callees (full names)
	Spawn      bool
	FuncValues bool // calls a func value
	Panics     bool
	SliceStore bool
	Why        map[string]string // effect -> via which callee / position (first witness)
	IfaceCalls map[string]bool
}

func newEffects() *Effects {
	return &Effects{Heaps: map[string]bool{}, Globals: map[*types.Var]string{}, GlobalsR: map[*types.Var]bool{}, Ghost: map[string]bool{},
		Nondet: map[string]string{}, Calls: map[string]bool{}, ExtCalls: map[string]bool{}, Why: map[string]string{}, IfaceCalls: map[string]bool{}}
}

func (e *Effects) merge(o *Effects, via string) bool {
	ch := false
	for k := range o.Heaps {
		if !e.Heaps[k] {
			e.Heaps[k] = true
			e.Why["heap:"+k] = via
			ch = true
		}
	}
	for k, w := range o.Globals {
		if _, ok := e.Globals[k]; !ok {
			e.Globals[k] = w
			e.Why["global:"+k.Pkg().Name()+"."+k.Name()] = via
			ch = true
		}
	}
	for k := range o.GlobalsR {
		if !e.GlobalsR[k] {
			e.GlobalsR[k] = true
			ch = true
		}
	}
	for k := range o.Ghost {
		if !e.Ghost[k] {
			e.Ghost[k] = true
			e.Why["ghost:"+k] = via
			ch = true
		}
	}
	for k, d := range o.Nondet {
		if _, ok := e.Nondet[k]; !ok {
			e.Nondet[k] = d
			ch = true
		}
	}
	if o.Spawn && !e.Spawn {
		e.Spawn, ch = true, true
	}
	if o.Panics && !e.Panics {
		e.Panics, ch = true, true
	}
	if o.SliceStore && !e.SliceStore {
		e.SliceStore, ch = true, true
	}
	return ch
}

func isPkgLevel(v *types.Var) bool {
	return v != nil && v.Pkg() != nil && v.Parent() == v.Pkg().Scope()
}

// rootVar returns the variable at the root of an lvalue-ish expression, and whether a pointer/map was crossed.
func rootVar(info *types.Info, e ast.Expr) (*types.Var, bool) {
	crossed := false
	for {
		switch x := e.(type) {
		case *ast.ParenExpr:
			e = x.X
		case *ast.SelectorExpr:
			if sel, ok := info.Selections[x]; ok {
				if sel.Indirect() {
					crossed = true
				}
				e = x.X
			} else { // qualified identifier
				if v, ok := info.Uses[x.Sel].(*types.Var); ok {
					return v, crossed
				}
				return nil, crossed
			}
		case *ast.IndexExpr:
			if t := info.TypeOf(x.X); t != nil {
				switch t.Underlying().(type) {
				case *types.Map, *types.Slice, *types.Pointer:
					crossed = true
				}
			}
			e = x.X
		case *ast.StarExpr:
			crossed = true
			e = x.X
		case *ast.Ident:
			if v, ok := info.Uses[x].(*types.Var); ok {
				return v, crossed
			}
			if v, ok := info.Defs[x].(*types.Var); ok {
				return v, crossed
			}
			return nil, crossed
		default:
			return nil, crossed
		}
	}
}

func extFullName(fn *types.Func) string {
	if fn.Pkg() == nil {
		return fn.Name()
	}
	sig := fn.Type().(*types.Signature)
	if r := sig.Recv(); r != nil {
		t := r.Type()
		if p, ok := t.(*types.Pointer); ok {
			t = p.Elem()
		}
		if n, ok := types.Unalias(t).(*types.Named); ok {
			return fn.Pkg().Path() + "." + n.Obj().Name() + "." + fn.Name()
		}
	}
	return fn.Pkg().Path() + "." + fn.Name()
}

// ghost resources touched by process / stdout / file-system primitives
var osGhostFuncs = map[string]string{"os.Exit": "exit", "fmt.Println": "stdout", "fmt.Printf": "stdout", "fmt.Print": "stdout", "fmt.Fprintf": "stdout", "fmt.Fprintln": "stdout", "fmt.Fprint": "stdout",
	"os.Create": "fs", "os.OpenFile": "fs", "os.File.WriteString": "fs", "os.File.Sync": "fs", "os.File.Close": "fs", "os.File.Write": "fs", "os.File.Truncate": "fs", "os.File.Seek": "fs", "os.File.WriteAt": "fs",
	"io/ioutil.WriteFile": "fs", "os.WriteFile": "fs", "os.Remove": "fs", "os.Truncate": "fs", "os.Rename": "fs"}

func (p *Prog) heapNamesOf(u *Universe, t types.Type) []string {
	if t == nil {
		return nil
	}
	switch tt := types.Unalias(t).Underlying().(type) {
	case *types.Pointer:
		s := u.SortOf(types.Unalias(t))
		_ = tt
		return []string{s.Heap}
	case *types.Map:
		s := u.SortOf(types.Unalias(t))
		return []string{s.Heap, s.Dom}
	}
	return nil
}

func (p *Prog) directEffects(fi *FuncInfo, u *Universe) *Effects {
	return p.effectsOfNode(fi, fi.Body(), u)
}

// closeEffects adds the (already computed) transitive effects of the callees recorded in e
func (p *Prog) closeEffects(e *Effects, self string) {
	for _, c := range sortedKeys(e.Calls) {
		if ce, ok := p.Effects[c]; ok {
			e.merge(ce, c)
			if ce.FuncValues {
				e.FuncValues = true
			}
		}
	}
}

func (p *Prog) effectsOfNode(fi *FuncInfo, body ast.Node, u *Universe) *Effects {
	e := newEffects()
	info := fi.Pkg.TypesInfo
	where := func(n ast.Node) string { return p.pos(n) }
	writeLhs := func(lhs ast.Expr) {
		switch x := lhs.(type) {
		case *ast.Ident:
			if v, ok := info.Uses[x].(*types.Var); ok && isPkgLevel(v) {
				e.Globals[v] = where(lhs)
			}
			return
		}
		// composite lvalue
		v, crossed := rootVar(info, lhs)
		if !crossed && isPkgLevel(v) {
			e.Globals[v] = where(lhs)
		}
		// which heap does the outermost store hit?
		switch x := lhs.(type) {
		case *ast.StarExpr:
			for _, h := range p.heapNamesOf(u, info.TypeOf(x.X)) {
				e.Heaps[h] = true
			}
		case *ast.IndexExpr:
			t := info.TypeOf(x.X)
			if _, ok := t.Underlying().(*types.Map); ok {
				for _, h := range p.heapNamesOf(u, t) {
					e.Heaps[h] = true
				}
			} else {
				e.SliceStore = true
				// store into a slice reached through a pointer: the pointee heap changes too
				w := x.X
				for {
					if pe, ok := w.(*ast.ParenExpr); ok {
						w = pe.X
						continue
					}
					break
				}
				if st, ok := w.(*ast.StarExpr); ok {
					for _, h := range p.heapNamesOf(u, info.TypeOf(st.X)) {
						e.Heaps[h] = true
					}
				}
			}
		case *ast.SelectorExpr:
			// find innermost pointer crossing
			cur := ast.Expr(x)
			for {
				se, ok := cur.(*ast.SelectorExpr)
				if !ok {
					break
				}
				if sel, ok := info.Selections[se]; ok && sel.Indirect() {
					bt := info.TypeOf(se.X)
					if _, isPtr := bt.Underlying().(*types.Pointer); isPtr {
						for _, h := range p.heapNamesOf(u, bt) {
							e.Heaps[h] = true
						}
					}
					break
				}
				cur = se.X
			}
			if st, ok := cur.(*ast.StarExpr); ok {
				for _, h := range p.heapNamesOf(u, info.TypeOf(st.X)) {
					e.Heaps[h] = true
				}
			}
		}
	}
	ast.Inspect(body, func(n ast.Node) bool {
		switch x := n.(type) {
		case *ast.FuncLit:
			if ast.Node(x) != body {
				return false // closures are summarised in the $unknown pool
			}
		case *ast.AssignStmt:
			if x.Tok != token.DEFINE {
				for _, l := range x.Lhs {
					writeLhs(l)
				}
			}
		case *ast.IncDecStmt:
			writeLhs(x.X)
		case *ast.SendStmt:
			e.Ghost["chan"] = true
		case *ast.GoStmt:
			e.Spawn = true
		case *ast.UnaryExpr:
			if x.Op == token.AND {
				if v, crossed := rootVar(info, x.X); !crossed && isPkgLevel(v) {
					e.Globals[v] = where(x) + " (address taken)"
				}
			}
		case *ast.Ident:
			if v, ok := info.Uses[x].(*types.Var); ok && isPkgLevel(v) {
				e.GlobalsR[v] = true
			}
		case *ast.RangeStmt:
			if t := info.TypeOf(x.X); t != nil {
				if _, ok := t.Underlying().(*types.Map); ok {
					e.Nondet["maprange:"+fi.Name+"@"+exprString(x.X)] = "range over map " + exprString(x.X) + " at " + where(x)
				}
			}
		case *ast.CallExpr:
			p.callEffects(fi, info, x, e, u)
		}
		return true
	})
	return e
}

func exprString(e ast.Expr) string { return types.ExprString(e) }

func (p *Prog) callEffects(fi *FuncInfo, info *types.Info, call *ast.CallExpr, e *Effects, u *Universe) {
	// conversions
	if tv, ok := info.Types[call.Fun]; ok && tv.IsType() {
		return
	}
	fun := call.Fun
	for {
		if pe, ok := fun.(*ast.ParenExpr); ok {
			fun = pe.X
		} else {
			break
		}
	}
	var obj types.Object
	switch f := fun.(type) {
	case *ast.Ident:
		obj = info.Uses[f]
	case *ast.SelectorExpr:
		obj = info.Uses[f.Sel]
	}
	switch o := obj.(type) {
	case *types.Builtin:
		switch o.Name() {
		case "close":
			e.Ghost["chan"] = true
			e.Ghost["chanclose"] = true
		case "delete":
			for _, h := range p.heapNamesOf(u, info.TypeOf(call.Args[0])) {
				e.Heaps[h] = true
			}
		case "panic":
			e.Panics = true
			if strings.Contains(fi.Pkg.PkgPath, "/cmd") {
				e.Ghost["exit"] = true // a panic in the CLI ends the process with status 2
			}
		case "copy":
			e.SliceStore = true
		}
		return
	case *types.Func:
		sig := o.Type().(*types.Signature)
		if recv := sig.Recv(); recv != nil {
			if _, isIface := recv.Type().Underlying().(*types.Interface); isIface {
				// dynamic dispatch: all repository implementations
				if n, ok := types.Unalias(recv.Type()).(*types.Named); ok && n.Obj().Pkg() != nil {
					e.IfaceCalls[n.Obj().Pkg().Name()+"."+n.Obj().Name()+"."+o.Name()] = true
				}
				for _, impl := range p.Implementations(recv.Type()) {
					ms := types.NewMethodSet(impl)
					if sel := ms.Lookup(o.Pkg(), o.Name()); sel != nil {
						if fn, ok := sel.Obj().(*types.Func); ok {
							if callee, ok := p.ByObj[fn]; ok {
								e.Calls[callee.Name] = true
							}
						}
					}
				}
				if o.Pkg() != nil && !strings.HasPrefix(o.Pkg().Path(), repoMod) {
					e.ExtCalls[extFullName(o)] = true
				}
				return
			}
		}
		if callee, ok := p.ByObj[o]; ok {
			e.Calls[callee.Name] = true
			return
		}
		// external function
		full := extFullName(o)
		e.ExtCalls[full] = true
		short := full
		if i := strings.LastIndex(full, "/"); i >= 0 && !strings.HasPrefix(full, "io/ioutil") {
			short = full[i+1:]
		}
		cat := osGhostFuncs[full]
		if cat == "" {
			cat = osGhostFuncs[short]
		}
		if cat != "" && !strings.HasSuffix(fi.File, "/peg.go") {
			// A-PEG-NODEBUG: the generated parser prints only when its Debug option is set, which the repository never does
			if strings.HasPrefix(short, "fmt.F") && len(call.Args) > 0 && exprString(call.Args[0]) == "os.Stderr" {
				cat = ""
			}
			if cat != "" {
				e.Ghost[cat] = true
			}
		}
		if strings.HasSuffix(full, "opa/rego.Rego.PrepareForEval") {
			e.Ghost["opa"] = true // compiling may set the rejected flag, never the evaluated one
		}
		if strings.HasSuffix(full, "opa/rego.PreparedEvalQuery.Eval") {
			e.Ghost["opaeval"] = true // an evaluation sets the evaluated flag, never the rejected one
		}
		if strings.HasSuffix(full, "json-gold/ld.JsonLdProcessor.Flatten") {
			e.Ghost["ld"] = true
		}
		switch full {
		case "time.Now":
			e.Nondet["time.Now:"+fi.Name] = "time.Now at " + p.pos(call)
			e.Ghost["clock"] = true
		case "sort.Sort", "sort.Strings", "sort.Slice", "sort.Stable":
			e.SliceStore = true
		}
		if strings.HasPrefix(full, "fmt.") {
			// formatting a value that holds a pointer (not its own String / Error / Format method) prints a heap address
			for _, a := range call.Args {
				if p.feedsOnlyAnError(fi, call) {
					break // the text of an error (or panic) value: a failed call yields no report and no code
				}
				if t := fi.Pkg.TypesInfo.TypeOf(a); t != nil && printsAddress(t, 0, map[types.Type]bool{}) {
					id := "fmtaddr:" + fi.Name + "@" + exprString(a)
					if fld := fieldOfSelector(fi.Pkg.TypesInfo, a); fld != "" {
						// a struct field: the source is named after the field, so that moving the statement into a helper does not rename it
						id = "fmtaddr:field:" + fld
					}
					e.Nondet[id] = full + " prints the address held in " + exprString(a) + " (" + t.String() + ") at " + p.pos(call)
				}
			}
		}
		switch full {
		case "context.WithTimeout", "context.WithDeadline", "time.After", "time.NewTimer", "time.AfterFunc", "time.Since", "time.Until", "time.Tick", "time.NewTicker", "time.Sleep":
			// a result that depends on how long something took (a deadline on the evaluation, a measured duration)
			e.Nondet["deadline:"+fi.Name] = full + " at " + p.pos(call)
		}
		if strings.HasPrefix(full, "math/rand.") {
			e.Nondet["rand:"+fi.Name] = full + " at " + p.pos(call)
		}
		if cat == "" && o.Pkg() != nil && !extPure[full] {
			switch o.Pkg().Path() {
			case "os", "io/ioutil", "io", "bufio", "syscall", "os/exec", "io/fs":
				e.Ghost["fs"] = true
				e.Ghost["stdout"] = true
			}
		}
		// an external function may write through pointer / map arguments (and receiver)
		pure := extPure[full]
		if !pure {
			args := call.Args
			if se, ok := fun.(*ast.SelectorExpr); ok {
				if _, isSel := info.Selections[se]; isSel {
					args = append([]ast.Expr{se.X}, args...)
				}
			}
			for _, a := range args {
				for _, h := range p.heapNamesOf(u, info.TypeOf(a)) {
					if strings.HasPrefix(h, "H_") && opaqueHeap(h) {
						continue
					}
					e.Heaps[h] = true
				}
			}
		}
		// sort.Sort calls back into the repository (Len/Less/Swap of the argument's type)
		if full == "sort.Sort" && len(call.Args) == 1 {
			t := info.TypeOf(call.Args[0])
			ms := types.NewMethodSet(t)
			for i := 0; i < ms.Len(); i++ {
				if fn, ok := ms.At(i).Obj().(*types.Func); ok {
					if callee, ok := p.ByObj[fn]; ok {
						e.Calls[callee.Name] = true
					}
				}
			}
		}
		return
	}
	// func value call (parameter, field, closure variable)
	e.FuncValues = true
	if t := info.TypeOf(fun); t != nil {
		e.Calls["$fv:"+canonType(t, nil)] = true
	} else {
		e.Calls["$fv:?"] = true
	}
}

// heaps of opaque dependency types: never inspected by the verifier, writes through them do not matter
func opaqueHeap(h string) bool {
	for _, s := range []string{"H_rego_", "H_ast_", "H_ld_", "H_json_", "H_bytes_", "H_regexp_", "H_os_", "H_time_", "H_context_"} {
		if strings.HasPrefix(h, s) {
			return true
		}
	}
	return false
}

// external functions known not to write through their arguments
var extPure = map[string]bool{
	"fmt.Sprintf": true, "fmt.Sprint": true, "fmt.Println": true, "fmt.Printf": true, "errors.New": true, "strings.Join": true, "strings.Split": true, "strings.SplitN": true, "strings.Fields": true,
	"strings.Contains": true, "strings.ReplaceAll": true, "strings.HasPrefix": true, "strings.HasSuffix": true, "strings.Index": true, "strings.ToLower": true,
	"strings.Title": true, "strings.Compare": true, "strings.TrimSpace": true, "strconv.Itoa": true, "strconv.Atoi": true, "strconv.ParseBool": true, "strconv.ParseFloat": true,
	"strconv.FormatFloat": true, "regexp.MustCompile": true, "regexp.Regexp.MatchString": true, "regexp.Regexp.FindAllStringSubmatch": true, "regexp.Regexp.ReplaceAllString": true,
	"encoding/json.Marshal": true, "time.Now": true, "time.Time.Format": true, "time.Time.Sub": true, "time.Date": true,
	"github.com/open-policy-agent/opa/rego.Query": true, "github.com/open-policy-agent/opa/rego.Module": true, "github.com/open-policy-agent/opa/rego.UnsafeBuiltins": true,
	"github.com/open-policy-agent/opa/rego.New": true, "github.com/open-policy-agent/opa/rego.EvalInput": true, "github.com/open-policy-agent/opa/rego.Rego.PrepareForEval": true,
	"github.com/open-policy-agent/opa/rego.PreparedEvalQuery.Eval": true, "context.Background": true,
	"github.com/piprate/json-gold/ld.NewJsonLdProcessor": true, "github.com/piprate/json-gold/ld.NewJsonLdOptions": true, "github.com/piprate/json-gold/ld.JsonLdProcessor.Flatten": true,
	"bytes.NewBuffer": true, "bytes.NewBufferString": true, "encoding/json.NewDecoder": true, "encoding/json.Decoder.UseNumber": true, "encoding/json.NewEncoder": true,
	"encoding/json.Encoder.SetIndent": true, "encoding/json.Encoder.SetEscapeHTML": true, "encoding/json.Encoder.Encode": true, "bytes.Buffer.String": true,
	"os.Stat": true, "os.IsNotExist": true, "io/ioutil.ReadFile": true, "os.ReadFile": true, "sort.Sort": true, "sort.Strings": true,
}

func (p *Prog) ComputeEffects() {
	u := NewUniverse()
	p.Effects = map[string]*Effects{}
	p.Direct = map[string]*Effects{}
	for _, n := range p.Order {
		p.Effects[n] = p.directEffects(p.Funcs[n], u)
		d := newEffects()
		for c := range p.Effects[n].Calls {
			d.Calls[c] = true
		}
		for c := range p.Effects[n].IfaceCalls {
			d.IfaceCalls[c] = true
		}
		p.Direct[n] = d
	}
	// $fv:<signature>: what a call of a func value of that type may do = any named function of that type used as a
	// value, any closure of that type (closed world: the repository packages)
	pool := func(sig string) *Effects {
		k := "$fv:" + sig
		if e, ok := p.Effects[k]; ok {
			return e
		}
		e := newEffects()
		p.Effects[k] = e
		p.Direct[k] = newEffects()
		return e
	}
	for _, n := range p.Order {
		fi := p.Funcs[n]
		info := fi.Pkg.TypesInfo
		callFuns := map[*ast.Ident]bool{}
		ast.Inspect(fi.Body(), func(nd ast.Node) bool {
			switch x := nd.(type) {
			case *ast.CallExpr:
				switch f := unparen(x.Fun).(type) {
				case *ast.Ident:
					callFuns[f] = true
				case *ast.SelectorExpr:
					callFuns[f.Sel] = true
				}
			case *ast.Ident:
				if callFuns[x] {
					return true
				}
				if fn, ok := info.Uses[x].(*types.Func); ok {
					if callee, ok := p.ByObj[fn]; ok {
						sig := canonType(fn.Type(), nil)
						if fn.Type().(*types.Signature).Recv() != nil {
							// method value: its func type drops the receiver
							s2 := fn.Type().(*types.Signature)
							sig = canonType(types.NewSignatureType(nil, nil, nil, s2.Params(), s2.Results(), s2.Variadic()), nil)
						}
						pool(sig).Calls[callee.Name] = true
						p.Direct["$fv:"+sig].Calls[callee.Name] = true
					}
				}
			case *ast.FuncLit:
				sig := canonType(info.TypeOf(x), nil)
				le := p.effectsOfNode(fi, x, u)
				pe := pool(sig)
				pe.merge(le, n+" (closure)")
				if le.FuncValues {
					pe.FuncValues = true
				}
				for c := range le.Calls {
					pe.Calls[c] = true
					p.Direct["$fv:"+sig].Calls[c] = true
				}
			}
			return true
		})
	}
	names := append([]string{}, p.Order...)
	for k := range p.Effects {
		if strings.HasPrefix(k, "$fv:") {
			names = append(names, k)
		}
	}
	sort.Strings(names)
	changed := true
	for changed {
		changed = false
		for _, n := range names {
			e := p.Effects[n]
			for c := range e.Calls {
				if ce, ok := p.Effects[c]; ok && ce != e {
					if e.merge(ce, c) {
						changed = true
					}
					if ce.FuncValues && !e.FuncValues {
						e.FuncValues = true
						changed = true
					}
				}
			}
		}
	}
}

// ComputeReach: transitive callee sets
func (p *Prog) ComputeReach() {
	p.Reach = map[string]map[string]bool{}
	var all []string
	for n := range p.Direct {
		all = append(all, n)
	}
	for _, n := range all {
		r := map[string]bool{}
		var stack []string
		for c := range p.Direct[n].Calls {
			stack = append(stack, c)
		}
		for len(stack) > 0 {
			c := stack[len(stack)-1]
			stack = stack[:len(stack)-1]
			if r[c] {
				continue
			}
			r[c] = true
			if d := p.Direct[c]; d != nil {
				for c2 := range d.Calls {
					stack = append(stack, c2)
				}
			}
		}
		p.Reach[n] = r
	}
}

func (e *Effects) Describe() string {
	var parts []string
	var hs []string
	for h := range e.Heaps {
		hs = append(hs, h)
	}
	sort.Strings(hs)
	if len(hs) > 0 {
		parts = append(parts, "heaps="+strings.Join(hs, ","))
	}
	var gs []string
	for g := range e.Globals {
		gs = append(gs, g.Pkg().Name()+"."+g.Name())
	}
	sort.Strings(gs)
	if len(gs) > 0 {
		parts = append(parts, "globals="+strings.Join(gs, ","))
	}
	var gh []string
	for g := range e.Ghost {
		gh = append(gh, g)
	}
	sort.Strings(gh)
	if len(gh) > 0 {
		parts = append(parts, "ghost="+strings.Join(gh, ","))
	}
	if e.Spawn {
		parts = append(parts, "spawn")
	}
	if e.FuncValues {
		parts = append(parts, "funcvalues")
	}
	return fmt.Sprintf("{%s}", strings.Join(parts, " "))
}

// printsAddress: fmt's default formatting of a value of type t shows a heap address (a pointer below the top level, a pointer
// to a non-struct, a channel, a function, an unsafe.Pointer) - unless the value formats itself (String / Error / Format)
func printsAddress(t types.Type, depth int, seen map[types.Type]bool) bool {
	if seen[t] {
		return false
	}
	seen[t] = true
	for _, m := range []string{"String", "Error", "Format", "GoString"} {
		for _, tt := range []types.Type{t, types.NewPointer(t)} {
			if obj, _, _ := types.LookupFieldOrMethod(tt, true, nil, m); obj != nil {
				if fn, ok := obj.(*types.Func); ok {
					sig := fn.Type().(*types.Signature)
					if m == "Format" || (sig.Params().Len() == 0 && sig.Results().Len() == 1) {
						if _, isPtr := t.Underlying().(*types.Pointer); isPtr || tt == t || depth > 0 {
							return false
						}
					}
				}
			}
		}
	}
	switch u := t.Underlying().(type) {
	case *types.Interface:
		return false // dynamic type unknown
	case *types.Pointer:
		if depth > 0 {
			return true
		}
		if st, ok := u.Elem().Underlying().(*types.Struct); ok {
			for i := 0; i < st.NumFields(); i++ {
				if printsAddress(st.Field(i).Type(), depth+1, seen) {
					return true
				}
			}
			return false
		}
		if _, ok := u.Elem().Underlying().(*types.Basic); ok {
			return true
		}
		switch u.Elem().Underlying().(type) {
		case *types.Slice, *types.Array, *types.Map:
			return printsAddress(u.Elem(), depth+1, seen) // &[...] / &map[...]
		}
		return true
	case *types.Chan, *types.Signature:
		return true
	case *types.Basic:
		return u.Kind() == types.UnsafePointer || u.Kind() == types.Uintptr && false
	case *types.Struct:
		for i := 0; i < u.NumFields(); i++ {
			if printsAddress(u.Field(i).Type(), depth+1, seen) {
				return true
			}
		}
	case *types.Slice:
		return printsAddress(u.Elem(), depth+1, seen)
	case *types.Array:
		return printsAddress(u.Elem(), depth+1, seen)
	case *types.Map:
		return printsAddress(u.Key(), depth+1, seen) || printsAddress(u.Elem(), depth+1, seen)
	}
	return false
}

// feedsOnlyAnError: the formatting call is fmt.Errorf, or its value is directly the argument of errors.New / panic
func (p *Prog) feedsOnlyAnError(fi *FuncInfo, call *ast.CallExpr) bool {
	info := fi.Pkg.TypesInfo
	if isPkgFunc(info, call, "fmt", "Errorf") {
		return true
	}
	found := false
	ast.Inspect(fi.Body(), func(n ast.Node) bool {
		c, ok := n.(*ast.CallExpr)
		if !ok || found {
			return !found
		}
		isSink := isPkgFunc(info, c, "errors", "New")
		if id, ok := unparen(c.Fun).(*ast.Ident); ok && id.Name == "panic" {
			if _, isB := info.Uses[id].(*types.Builtin); isB {
				isSink = true
			}
		}
		if isSink {
			for _, a := range c.Args {
				a = unparen(a)
				if a == ast.Expr(call) {
					found = true
				}
				// panic(errors.New(fmt.Sprintf(...)))
				if inner, ok := a.(*ast.CallExpr); ok && isPkgFunc(info, inner, "errors", "New") && len(inner.Args) == 1 && unparen(inner.Args[0]) == ast.Expr(call) {
					found = true
				}
			}
		}
		return true
	})
	return found
}

// fieldOfSelector: pkg.Struct.field when e selects a field of a named struct type
func fieldOfSelector(info *types.Info, e ast.Expr) string {
	se, ok := unparen(e).(*ast.SelectorExpr)
	if !ok {
		return ""
	}
	sel, ok := info.Selections[se]
	if !ok || sel.Kind() != types.FieldVal {
		return ""
	}
	rt := sel.Recv()
	if pt, ok := rt.Underlying().(*types.Pointer); ok {
		rt = pt.Elem()
	}
	if n, ok := types.Unalias(rt).(*types.Named); ok && n.Obj().Pkg() != nil {
		return n.Obj().Pkg().Name() + "." + n.Obj().Name() + "." + se.Sel.Name
	}
	return ""
}

// deadPointerFormat decides a "fmtaddr:field:pkg.Struct.f" source: the address in field f (a pointer to a basic type) is
// never printed when (a) no function of the repository stores through a pointer of that type, (b) every value the field is
// given is the address of a local initialised to the constant 0 in the same function, or a copy of the same field of
// another value, and (c) every formatting of the field sits inside an if whose condition is `*<the same expression> > 0`:
// the cell holds 0 for ever, the guard is false, the format is not reached.
func (p *Prog) deadPointerFormat(id string) (bool, string) {
	parts := strings.Split(strings.TrimPrefix(id, "fmtaddr:field:"), ".")
	if len(parts) != 3 {
		return false, ""
	}
	pkgName, structName, field := parts[0], parts[1], parts[2]
	var ptrType types.Type
	var why []string
	u := NewUniverse()
	for _, n := range p.Order {
		fi := p.Funcs[n]
		if fi == nil || fi.Body() == nil || strings.HasSuffix(fi.File, "_test.go") {
			continue
		}
		info := fi.Pkg.TypesInfo
		var stack []ast.Node
		ast.Inspect(fi.Body(), func(nd ast.Node) bool {
			if nd == nil {
				stack = stack[:len(stack)-1]
				return true
			}
			stack = append(stack, nd)
			switch x := nd.(type) {
			case *ast.KeyValueExpr:
				k, ok := x.Key.(*ast.Ident)
				if !ok || k.Name != field || len(stack) < 2 {
					return true
				}
				cl, ok := stack[len(stack)-2].(*ast.CompositeLit)
				if !ok {
					return true
				}
				if nt, ok := types.Unalias(info.TypeOf(cl)).(*types.Named); !ok || nt.Obj().Name() != structName || nt.Obj().Pkg() == nil || nt.Obj().Pkg().Name() != pkgName {
					return true
				}
				ptrType = info.TypeOf(x.Value)
				v := unparen(x.Value)
				if se, ok := v.(*ast.SelectorExpr); ok && se.Sel.Name == field {
					return true // a copy of the same field
				}
				if ue, ok := v.(*ast.UnaryExpr); ok && ue.Op == token.AND {
					if id, ok := unparen(ue.X).(*ast.Ident); ok {
						if obj := info.Uses[id]; obj != nil && p.localInitialisedToZeroOnly(fi, obj) {
							return true
						}
					}
				}
				why = append(why, "field "+field+" is given "+exprString(x.Value)+" at "+p.pos(x))
			case *ast.AssignStmt:
				for _, l := range x.Lhs {
					if fieldOfSelector(info, l) == pkgName+"."+structName+"."+field {
						why = append(why, "field "+field+" is assigned at "+p.pos(x))
					}
				}
			case *ast.CallExpr:
				if fn := externalCallee(info, x); fn != nil && strings.HasPrefix(extFullName(fn), "fmt.") {
					for _, a := range x.Args {
						if fieldOfSelector(info, a) != pkgName+"."+structName+"."+field {
							continue
						}
						guarded := false
						for i := len(stack) - 2; i >= 0 && !guarded; i-- {
							ifs, ok := stack[i].(*ast.IfStmt)
							if !ok || i+1 >= len(stack) || stack[i+1] != ast.Node(ifs.Body) {
								continue
							}
							if be, ok := unparen(ifs.Cond).(*ast.BinaryExpr); ok && be.Op == token.GTR && exprString(be.X) == "*"+exprString(a) && exprString(be.Y) == "0" {
								guarded = true
							}
						}
						if !guarded {
							why = append(why, exprString(a)+" is formatted at "+p.pos(x)+" outside a guard `*"+exprString(a)+" > 0`")
						}
					}
				}
			}
			return true
		})
	}
	if ptrType == nil {
		return false, "no composite literal sets the field " + field
	}
	if _, ok := ptrType.Underlying().(*types.Pointer); !ok {
		return false, ""
	}
	for _, h := range p.heapNamesOf(u, ptrType) {
		for _, n := range p.Order {
			fi := p.Funcs[n]
			if fi == nil || fi.Body() == nil || strings.HasSuffix(fi.File, "_test.go") || strings.HasSuffix(fi.File, "/peg.go") {
				continue
			}
			if d := p.directEffects(fi, u); d != nil && d.Heaps[h] {
				why = append(why, n+" stores through a "+ptrType.String())
			}
		}
	}
	if len(why) > 0 {
		sort.Strings(why)
		return false, strings.Join(why, "; ")
	}
	return true, "dead format: every " + structName + "." + field + " points to a cell initialised to 0, no function stores through a " + ptrType.String() + ", and each formatting of it is guarded by `*" + field + " > 0`"
}

// localInitialisedToZeroOnly: obj is a local of fi defined by `v := 0` and never assigned again
func (p *Prog) localInitialisedToZeroOnly(fi *FuncInfo, obj types.Object) bool {
	info := fi.Pkg.TypesInfo
	defs, writes := 0, 0
	ast.Inspect(fi.Body(), func(nd ast.Node) bool {
		switch x := nd.(type) {
		case *ast.AssignStmt:
			for i, l := range x.Lhs {
				id, ok := unparen(l).(*ast.Ident)
				if !ok {
					continue
				}
				if x.Tok == token.DEFINE && info.Defs[id] == obj {
					if i < len(x.Rhs) && exprString(x.Rhs[i]) == "0" && len(x.Lhs) == len(x.Rhs) {
						defs++
					} else {
						writes++
					}
				} else if info.Uses[id] == obj {
					writes++
				}
			}
		case *ast.IncDecStmt:
			if id, ok := unparen(x.X).(*ast.Ident); ok && info.Uses[id] == obj {
				writes++
			}
		}
		return true
	})
	return defs == 1 && writes == 0
}
