package main

// Translation of contract expressions into SMT terms over a program state.

import (
	"fmt"
	"go/ast"
	"go/constant"
	"go/types"
	"os"
	"regexp"
	"strconv"
	"strings"
)

type SpecEnv struct {
	st, old *State
	names   map[string]Term
	useVars bool // resolve program variables by name (loop invariants)
	loopIdx Term
	hasIdx  bool
	pkg     *types.Package
	inOld   bool
	cur     *State // the current state while evaluating inside old(): locals declared after entry keep their current value
}

func (ex *Exec) envHere() *SpecEnv {
	return &SpecEnv{st: ex.st, old: ex.entry, names: map[string]Term{}, useVars: true, pkg: ex.F.Pkg.Types}
}

type specErr struct{ msg string }

func (ex *Exec) specTerm(e SExpr, env *SpecEnv) (t Term, err error) {
	saved := ex.st
	savedSafe := ex.safetyOn
	ex.safetyOn = false
	defer func() {
		ex.st = saved
		ex.safetyOn = savedSafe
		if r := recover(); r != nil {
			if se, ok := r.(specErr); ok {
				err = fmt.Errorf("%s", se.msg)
				return
			}
			panic(r)
		}
	}()
	ex.st = env.st
	t = ex.sp(e, env)
	return t, nil
}

func sfail(format string, a ...any) { panic(specErr{fmt.Sprintf(format, a...)}) }

func (ex *Exec) contractError(cl *Clause, err error) {
	ex.P.bindProblem(ex.F.Name, fmt.Sprintf("%s:%d: in %q: %v", cl.File, cl.Line, cl.Text, err))
}

// bindProblem records that the contract of fn does not fit the code any more (a renamed local, a restructured loop)
func (p *Prog) bindProblem(fn, msg string) {
	if p.BindByFunc == nil {
		p.BindByFunc = map[string][]string{}
	}
	for _, m := range p.BindByFunc[fn] {
		if m == msg {
			return
		}
	}
	p.BindByFunc[fn] = append(p.BindByFunc[fn], msg)
}

func (ex *Exec) clauseTags(cl *Clause) []string { return ex.clauseTagsOf(cl, ex.F.Contract) }

func (ex *Exec) clauseTagsOf(cl *Clause, con *Contract) []string {
	if len(cl.Tags) > 0 {
		return cl.Tags
	}
	if cl.Kind == "requires" {
		return []string{"C17"} // an untagged precondition is a safety condition (non-nil arguments and the like)
	}
	if con != nil {
		if t := con.AllTags(); len(t) > 0 {
			return t
		}
	}
	return []string{"C17"}
}

func (ex *Exec) sortByName(name string) *Sort {
	if s, ok := ex.U.byName[name]; ok {
		return s
	}
	t, err := ex.P.ResolveType(name)
	if err != nil {
		sfail("%v", err)
	}
	return ex.U.SortOf(t)
}

func (ex *Exec) lookupPkg(name string) *types.Package {
	if ex.F.Pkg.Types.Name() == name {
		return ex.F.Pkg.Types
	}
	for _, imp := range ex.F.Pkg.Types.Imports() {
		if imp.Name() == name {
			return imp
		}
	}
	for _, pk := range ex.P.Pkgs {
		if pk.Types.Name() == name {
			return pk.Types
		}
	}
	for _, pk := range ex.P.AllPkgs {
		if pk.Types != nil && pk.Types.Name() == name && (name == "os" || name == "time") {
			return pk.Types
		}
	}
	return nil
}

func (ex *Exec) scopeObj(pkg *types.Package, name string) (Term, bool) {
	if pkg == nil {
		return Term{}, false
	}
	switch o := pkg.Scope().Lookup(name).(type) {
	case *types.Const:
		if t, ok := ex.constTerm(types.TypeAndValue{Type: o.Type(), Value: o.Val()}); ok {
			return t, true
		}
		if o.Val().Kind() == constant.String {
			return StrLit(constant.StringVal(o.Val())), true
		}
	case *types.Var:
		return ex.global(ex.st, o), true
	}
	return Term{}, false
}

func (ex *Exec) sp(e SExpr, env *SpecEnv) Term {
	U := ex.U
	switch x := e.(type) {
	case SLit:
		switch x.Kind {
		case "int":
			n, _ := strconv.ParseInt(x.Val, 10, 64)
			return IntLit(n)
		case "string":
			return StrLit(x.Val)
		case "bool":
			if x.Val == "true" {
				return TTrue
			}
			return TFalse
		case "nil":
			return Term{"nilAny", SAny}
		}
	case SIdent:
		if t, ok := env.names[x.Name]; ok {
			return t
		}
		if nn, ok := ex.paramAlias[x.Name]; ok && len(ex.inlineStack) == 0 {
			if _, known := ex.names[x.Name]; !known {
				if _, isP := ex.params[x.Name]; !isP {
					x.Name = nn
					if t, ok := env.names[x.Name]; ok {
						return t
					}
				}
			}
		}
		if env.useVars {
			if _, known := ex.names[x.Name]; !known {
				if nn, ok := ex.loopRename[x.Name]; ok {
					if _, known := ex.names[nn]; known {
						x.Name = nn
					}
				}
				if t, ok := ex.loopAlias[x.Name]; ok {
					return t
				}
			}
		}
		if env.useVars && env.inOld {
			// inside old(): a parameter denotes its entry value
			if t, ok := ex.params[x.Name]; ok {
				if v, isVar := ex.names[x.Name]; !isVar || ex.isParamVar(v) {
					return t
				}
			}
		}
		if env.useVars {
			if v, ok := ex.names[x.Name]; ok {
				if _, ok := ex.st.vars[v]; ok || ex.boxed[v] {
					return ex.readVar(v)
				}
				if env.cur != nil {
					if t, ok := env.cur.vars[v]; ok && !ex.boxed[v] {
						return t
					}
				}
			}
		}
		if t, ok := ex.st.ghost[x.Name]; ok {
			return t
		}
		if t, ok := ex.scopeObj(env.pkg, x.Name); ok {
			return t
		}
		if f, ok := U.funs[x.Name]; ok && len(f.Args) == 0 {
			return Term{f.Name, f.Res}
		}
		if U.declSet[x.Name] {
			// prelude constant
			if s, ok := ex.preludeConsts[x.Name]; ok {
				return Term{x.Name, s}
			}
		}
		if env.useVars && ex.guessLoop != nil {
			if nn := ex.guessRenamed(x.Name); nn != "" {
				if v, ok := ex.names[nn]; ok {
					if _, ok := ex.st.vars[v]; ok || ex.boxed[v] {
						return ex.readVar(v)
					}
				}
			}
		}
		if os.Getenv("GOVC_DEBUG") != "" {
			fmt.Fprintf(os.Stderr, "DEBUG unknown %q useVars=%v guessLoop=%v rename=%v\n", x.Name, env.useVars, ex.guessLoop != nil, ex.loopRename)
		}
		sfail("unknown identifier %q", x.Name)
	case SHash:
		if x.Loop == 0 {
			if !env.hasIdx {
				sfail("#i outside a range loop")
			}
			return env.loopIdx
		}
		t, ok := ex.loopIdxByOrd[x.Loop]
		if !ok {
			sfail("#i@%d: no such enclosing range loop", x.Loop)
		}
		return t
	case SUn:
		v := ex.sp(x.X, env)
		if x.Op == "!" {
			return Not(v)
		}
		return Term{"(- " + v.S + ")", SInt}
	case SBin:
		a := ex.sp(x.L, env)
		b := ex.sp(x.R, env)
		switch x.Op {
		case "&&":
			return And(a, b)
		case "||":
			return Or(a, b)
		case "==>":
			return Implies(a, b)
		case "<==>":
			return Eq(a, b)
		case "==", "!=":
			if a.Sort.Name != b.Sort.Name {
				// nil against refs / seqs
				if b.S == "nilAny" && a.Sort.Kind != KAny {
					b = U.Zero(a.Sort)
				} else if a.S == "nilAny" && b.Sort.Kind != KAny {
					a = U.Zero(b.Sort)
				} else {
					sfail("comparison of %s with %s", a.Sort.Name, b.Sort.Name)
				}
			}
			r := Eq(a, b)
			if x.Op == "!=" {
				return Not(r)
			}
			return r
		case "<", "<=", ">", ">=":
			if a.Sort.Kind == KString {
				switch x.Op {
				case "<":
					return Term{app("str.<", a, b), SBool}
				case "<=":
					return Term{app("str.<=", a, b), SBool}
				case ">":
					return Term{app("str.<", b, a), SBool}
				default:
					return Term{app("str.<=", b, a), SBool}
				}
			}
			return Term{app(x.Op, a, b), SBool}
		case "+":
			if a.Sort.Kind == KString {
				return Term{app("str.++", a, b), SString}
			}
			return Term{app("+", a, b), SInt}
		case "-", "*":
			return Term{app(x.Op, a, b), SInt}
		case "/":
			return Term{app("div", a, b), SInt}
		case "%":
			return Term{app("mod", a, b), SInt}
		}
	case SField:
		if len(ex.loopExprAlias) > 0 {
			if txt := fieldChainText(x); txt != "" {
				if t, ok := ex.loopExprAlias[txt]; ok {
					if root, isId := rootIdent(x); isId {
						if _, known := ex.names[root]; !known {
							return t // the expression the contract's loop ranged over, now written differently in the code
						}
					}
				}
			}
		}
		if id, ok := x.X.(SIdent); ok {
			if _, shadow := env.names[id.Name]; !shadow {
				_, isVar := ex.names[id.Name]
				if !isVar || !env.useVars {
					if pkg := ex.lookupPkg(id.Name); pkg != nil {
						if t, ok := ex.scopeObj(pkg, x.Name); ok {
							return t
						}
					}
				}
			}
		}
		base := ex.sp(x.X, env)
		return ex.specField(base, x.Name)
	case SIndex:
		base := ex.sp(x.X, env)
		i := ex.sp(x.I, env)
		switch {
		case base.Sort.Kind == KSeq:
			return U.SeqAt(base, i)
		case base.Sort.Kind == KRef && base.Sort.IsMap:
			if i.Sort.Kind != KAny && base.Sort.Key.Kind == KAny {
				sfail("map key must be boxed explicitly")
			}
			v, _ := ex.mapGet(base.Sort, base, i)
			return v
		case base.Sort.Kind == KString:
			return Term{"(str.at " + base.S + " " + i.S + ")", SString}
		}
		sfail("index of %s", base.Sort.Name)
	case SSlice:
		base := ex.sp(x.X, env)
		lo := IntLit(0)
		if x.Lo != nil {
			lo = ex.sp(x.Lo, env)
		}
		if base.Sort.Kind == KSeq {
			hi := U.SeqLen(base)
			if x.Hi != nil {
				hi = ex.sp(x.Hi, env)
			}
			if x.Lo == nil {
				return U.SeqTake(base, hi)
			}
			return U.SeqSub(base, lo, hi)
		}
		if base.Sort.Kind == KString {
			hi := Term{"(str.len " + base.S + ")", SInt}
			if x.Hi != nil {
				hi = ex.sp(x.Hi, env)
			}
			return Term{"(str.substr " + base.S + " " + lo.S + " (- " + hi.S + " " + lo.S + "))", SString}
		}
		sfail("slice of %s", base.Sort.Name)
	case STypeAssert:
		v := ex.sp(x.X, env)
		t, err := ex.P.ResolveType(x.Type)
		if err != nil {
			sfail("%v", err)
		}
		if v.Sort.Kind != KAny {
			sfail("type assertion on non-interface term")
		}
		return U.Unbox(t, v)
	case SLet:
		v := ex.sp(x.Val, env)
		old, had := env.names[x.Name]
		env.names[x.Name] = v
		r := ex.sp(x.Body, env)
		if had {
			env.names[x.Name] = old
		} else {
			delete(env.names, x.Name)
		}
		return r
	case SQuant:
		saved := map[string]Term{}
		had := map[string]bool{}
		var decls []string
		for _, v := range x.Vars {
			s := ex.sortByName(v.Type)
			if old, ok := env.names[v.Name]; ok {
				saved[v.Name], had[v.Name] = old, true
			}
			bn := "q_" + v.Name
			env.names[v.Name] = Term{bn, s}
			decls = append(decls, "("+bn+" "+s.Name+")")
		}
		body := ex.sp(x.Body, env)
		for _, v := range x.Vars {
			if had[v.Name] {
				env.names[v.Name] = saved[v.Name]
			} else {
				delete(env.names, v.Name)
			}
		}
		q := "forall"
		if !x.Forall {
			q = "exists"
		}
		return Term{"(" + q + " (" + strings.Join(decls, " ") + ") " + body.S + ")", SBool}
	case SCall:
		return ex.specCall(x, env)
	}
	sfail("unsupported spec expression %T", e)
	return Term{}
}

func (ex *Exec) specField(base Term, name string) Term {
	U := ex.U
	if base.Sort.Kind == KRef && !base.Sort.IsMap {
		base = ex.loadPtr(base.Sort, base)
	}
	if base.Sort.Kind != KStruct {
		sfail("field %s of non-struct %s", name, base.Sort.Name)
	}
	if f := base.Sort.FieldByName(name); f != nil {
		return U.FieldGet(base, f)
	}
	// promoted through embedded fields
	for _, f := range base.Sort.Fields {
		if f.Emb {
			inner := U.FieldGet(base, f)
			if inner.Sort.Kind == KRef && !inner.Sort.IsMap {
				inner = ex.loadPtr(inner.Sort, inner)
			}
			if inner.Sort.Kind == KStruct {
				if r, ok := ex.tryField(inner, name); ok {
					return r
				}
			}
		}
	}
	sfail("no field %s in %s", name, base.Sort.Name)
	return Term{}
}

func (ex *Exec) tryField(base Term, name string) (Term, bool) {
	if f := base.Sort.FieldByName(name); f != nil {
		return ex.U.FieldGet(base, f), true
	}
	for _, f := range base.Sort.Fields {
		if f.Emb {
			inner := ex.U.FieldGet(base, f)
			if inner.Sort.Kind == KStruct {
				if r, ok := ex.tryField(inner, name); ok {
					return r, true
				}
			}
		}
	}
	return Term{}, false
}

func (ex *Exec) specCall(x SCall, env *SpecEnv) Term {
	U := ex.U
	arg := func(i int) Term {
		if i >= len(x.Args) {
			sfail("%s: missing argument %d", x.Fun, i)
		}
		return ex.sp(x.Args[i], env)
	}
	typeArg := func(i int) types.Type {
		st, ok := x.Args[i].(SType)
		if !ok {
			sfail("%s: type argument expected", x.Fun)
		}
		t, err := ex.P.ResolveType(st.Name)
		if err != nil {
			sfail("%v", err)
		}
		return t
	}
	switch x.Fun {
	case "old":
		if env.old == nil {
			sfail("old() without pre-state")
		}
		ne := *env
		ne.st = env.old
		ne.inOld = true
		if ne.cur == nil {
			ne.cur = env.st
		}
		saved := ex.st
		ex.st = env.old
		t := ex.sp(x.Args[0], &ne)
		ex.st = saved
		return t
	case "len":
		v := arg(0)
		switch v.Sort.Kind {
		case KSeq:
			return U.SeqLen(v)
		case KString:
			return Term{"(str.len " + v.S + ")", SInt}
		}
		sfail("len of %s", v.Sort.Name)
	case "take":
		return U.SeqTake(arg(0), arg(1))
	case "snoc":
		return U.SeqSnoc(arg(0), arg(1))
	case "concat":
		return U.SeqConcat(arg(0), arg(1))
	case "sub":
		return U.SeqSub(arg(0), arg(1), arg(2))
	case "upd":
		return U.SeqUpd(arg(0), arg(1), arg(2))
	case "empty":
		st := x.Args[0].(SIdent)
		return U.SeqEmpty(ex.sortByName(st.Name))
	case "is":
		return U.IsType(arg(0), typeArg(1))
	case "box":
		return U.Box(typeArg(0), arg(1))
	case "unbox":
		return U.Unbox(typeArg(0), arg(1))
	case "zero":
		return U.Zero(U.SortOf(typeArg(0)))
	case "tag":
		return U.TagOf(arg(0))
	case "has":
		m, k := arg(0), arg(1)
		if m.Sort.Kind != KRef || !m.Sort.IsMap {
			sfail("has() on non-map")
		}
		_, h := ex.mapGet(m.Sort, m, k)
		return h
	case "ite":
		return Ite(arg(0), arg(1), arg(2))
	case "itoa":
		return ex.itoa(arg(0))
	case "contains":
		return Term{app("str.contains", arg(0), arg(1)), SBool}
	case "hasPrefix":
		return Term{app("str.prefixof", arg(1), arg(0)), SBool}
	case "hasSuffix":
		return Term{app("str.suffixof", arg(1), arg(0)), SBool}
	case "replaceAll":
		return Term{app("str.replace_all", arg(0), arg(1), arg(2)), SString}
	case "indexOf":
		return Term{"(str.indexof " + arg(0).S + " " + arg(1).S + " 0)", SInt}
	case "ref":
		v := arg(0)
		return Term{v.S, SInt}
	case "asref":
		// asref(T, n): the integer n read as a reference of type T
		t := typeArg(0)
		return Term{arg(1).S, U.SortOf(t)}
	case "unchanged":
		// a map (both its contents and its domain) is the same as in the pre-state
		m := arg(0)
		if m.Sort.Kind != KRef || !m.Sort.IsMap || env.old == nil {
			sfail("unchanged() needs a map and a pre-state")
		}
		h1, d1 := ex.heap(ex.st, m.Sort.Heap), ex.heap(ex.st, m.Sort.Dom)
		h0, d0 := ex.heap(env.old, m.Sort.Heap), ex.heap(env.old, m.Sort.Dom)
		return And(Eq(Term{sel(h1, m), SBool}, Term{sel(h0, m), SBool}), Eq(Term{sel(d1, m), SBool}, Term{sel(d0, m), SBool}))
	case "heap":
		// heap(T): the current contents of all cells of pointer type T, as an array
		t := typeArg(0)
		ps := U.SortOf(t)
		if ps.Kind != KRef || ps.IsMap {
			sfail("heap() needs a pointer type")
		}
		h := ex.heap(ex.st, ps.Heap)
		return Term{h.S, &Sort{Name: U.heaps[ps.Heap], Kind: KOpaque}}
	case "mapvals", "mapdom":
		// the contents / the key set of a map as mathematical arrays (for uninterpreted functions of a whole map)
		m := arg(0)
		if m.Sort.Kind != KRef || !m.Sort.IsMap {
			sfail("%s() needs a map", x.Fun)
		}
		if x.Fun == "mapvals" {
			h := ex.heap(ex.st, m.Sort.Heap)
			return Term{sel(h, m), &Sort{Name: "(Array " + m.Sort.Key.Name + " " + m.Sort.Elem.Name + ")", Kind: KOpaque}}
		}
		d := ex.heap(ex.st, m.Sort.Dom)
		return Term{sel(d, m), &Sort{Name: "(Array " + m.Sort.Key.Name + " Bool)", Kind: KOpaque}}
	case "seen":
		// seen(k): key k was already visited by the innermost enclosing range over a map
		if len(ex.seenStack) == 0 {
			sfail("seen() outside a range over a map")
		}
		return Term{"(select " + ex.seenStack[len(ex.seenStack)-1].S + " " + arg(0).S + ")", SBool}
	case "isNil":
		v := arg(0)
		return Eq(v, U.Zero(v.Sort))
	case "deref":
		v := arg(0)
		if v.Sort.Kind != KRef || v.Sort.IsMap {
			sfail("deref of non-pointer")
		}
		return ex.loadPtr(v.Sort, v)
	}
	f, ok := U.funs[x.Fun]
	if !ok {
		sfail("unknown spec function %q", x.Fun)
	}
	if len(f.Args) != len(x.Args) {
		sfail("%s: expected %d arguments, got %d", x.Fun, len(f.Args), len(x.Args))
	}
	var args []Term
	for i := range x.Args {
		a := arg(i)
		if a.Sort.Name != f.Args[i].Name {
			if f.Args[i].Kind == KAny && a.Sort.Kind == KStruct && a.Sort.Go != nil {
				a = U.Box(a.Sort.Go, a)
			} else {
				sfail("%s: argument %d has sort %s, expected %s", x.Fun, i+1, a.Sort.Name, f.Args[i].Name)
			}
		}
		args = append(args, a)
	}
	return Term{app(f.Name, args...), f.Res}
}

func (ex *Exec) isParamVar(v *types.Var) bool {
	if ex.F.Obj == nil {
		return false
	}
	sig := ex.F.Obj.Type().(*types.Signature)
	if sig.Recv() == v {
		return true
	}
	for i := 0; i < sig.Params().Len(); i++ {
		if sig.Params().At(i) == v {
			return true
		}
	}
	return false
}

// guessRenamed: an identifier of a loop invariant that no longer exists in the code. If the loop assigns exactly one local
// that the contract of the function never mentions, the identifier was that local's old name (a renamed accumulator). The
// guess is recorded: obligations of a function bound with a guess are undecided when they fail, never violations.
func (ex *Exec) guessRenamed(name string) string {
	if ex.loopRename != nil {
		if nn, ok := ex.loopRename["guess:"+name]; ok {
			return nn
		}
	}
	mentioned := map[string]bool{}
	if c := ex.F.Contract; c != nil {
		var texts []string
		for _, cl := range c.Clauses {
			texts = append(texts, cl.Text)
		}
		for _, l := range c.Loops {
			texts = append(texts, l.Header)
			for _, cl := range l.Inv {
				texts = append(texts, cl.Text)
			}
		}
		for _, t := range texts {
			for _, w := range regexp.MustCompile(`[A-Za-z_][A-Za-z0-9_]*`).FindAllString(t, -1) {
				mentioned[w] = true
			}
		}
	}
	cands := map[string]bool{}
	ast.Inspect(ex.guessLoop, func(nd ast.Node) bool {
		if as, ok := nd.(*ast.AssignStmt); ok {
			for _, l := range as.Lhs {
				if ix, ok := l.(*ast.IndexExpr); ok {
					l = ix.X // m[k] = v : the map (or slice) m is what the loop builds
				}
				if id, ok := l.(*ast.Ident); ok && id.Name != "_" && !mentioned[id.Name] {
					if v, ok := ex.info.Uses[id].(*types.Var); ok && v.Pos() < ex.guessLoop.Pos() && ex.names[id.Name] == v {
						cands[id.Name] = true // declared before the loop, assigned inside it
					}
				}
			}
		}
		return true
	})
	for _, used := range ex.loopRename {
		delete(cands, used) // a local already stands for another old name
	}
	if os.Getenv("GOVC_DEBUG") != "" {
		fmt.Fprintf(os.Stderr, "DEBUG guess %q cands=%v mentioned(parsed)=%v\n", name, cands, mentioned["parsed"])
	}
	if len(cands) != 1 {
		return ""
	}
	for nn := range cands {
		if ex.loopRename == nil {
			ex.loopRename = map[string]string{}
		}
		ex.loopRename["guess:"+name] = nn
		if ex.P.ApproxBind == nil {
			ex.P.ApproxBind = map[string][]string{}
		}
		ex.P.ApproxBind[ex.F.Name] = append(ex.P.ApproxBind[ex.F.Name], fmt.Sprintf("%s: identifier %q of the contract read as the local %q", ex.F.Name, name, nn))
		return nn
	}
	return ""
}

// fieldChainText: "a.b.c" for a chain of field selections over an identifier, "" otherwise
func fieldChainText(e SExpr) string {
	switch x := e.(type) {
	case SIdent:
		return x.Name
	case SField:
		if p := fieldChainText(x.X); p != "" {
			return p + "." + x.Name
		}
	}
	return ""
}

func rootIdent(e SExpr) (string, bool) {
	for {
		switch x := e.(type) {
		case SIdent:
			return x.Name, true
		case SField:
			e = x.X
		default:
			return "", false
		}
	}
}
