package main

// Sorts, terms and the SMT universe (declarations generated from Go types).

import (
	"fmt"
	"go/types"
	"sort"
	"strconv"
	"strings"
)

type Kind int

const (
	KBool Kind = iota
	KInt
	KString
	KAny    // every Go interface value (tag + payload)
	KSeq    // Go slice, value semantics
	KStruct // Go struct, SMT datatype
	KRef    // pointer or map reference (SMT Int, 0 = nil)
	KOpaque // anything not interpreted (uninterpreted sort)
)

type Field struct {
	Name string
	Sort *Sort
	Sel  string // selector function
	Emb  bool
}

type Sort struct {
	Name   string
	Kind   Kind
	Elem   *Sort // Seq element, pointer pointee
	Key    *Sort // map key
	IsMap  bool
	Fields []*Field
	Go     types.Type
	Heap   string // for KRef: heap array name (pointers); for maps: value heap
	Dom    string // maps: domain heap
}

func (s *Sort) String() string { return s.Name }

type Term struct {
	S    string
	Sort *Sort
}

var (
	SBool   = &Sort{Name: "Bool", Kind: KBool}
	SInt    = &Sort{Name: "Int", Kind: KInt}
	SString = &Sort{Name: "String", Kind: KString}
	SAny    = &Sort{Name: "Any", Kind: KAny}
)

var TTrue = Term{"true", SBool}
var TFalse = Term{"false", SBool}

func IntLit(n int64) Term {
	if n < 0 {
		return Term{fmt.Sprintf("(- %d)", -n), SInt}
	}
	return Term{strconv.FormatInt(n, 10), SInt}
}

// SMT-LIB 2.6 string literal
func StrLit(s string) Term {
	var b strings.Builder
	b.WriteByte('"')
	for _, r := range []byte(s) {
		switch {
		case r == '"':
			b.WriteString(`""`)
		case r == '\\':
			b.WriteString(`\u{5c}`)
		case r >= 0x20 && r < 0x7f:
			b.WriteByte(r)
		default:
			fmt.Fprintf(&b, `\u{%x}`, r)
		}
	}
	b.WriteByte('"')
	return Term{b.String(), SString}
}

func app(f string, args ...Term) string {
	if len(args) == 0 {
		return f
	}
	var b strings.Builder
	b.WriteByte('(')
	b.WriteString(f)
	for _, a := range args {
		b.WriteByte(' ')
		b.WriteString(a.S)
	}
	b.WriteByte(')')
	return b.String()
}

func And(ts ...Term) Term {
	var keep []Term
	for _, t := range ts {
		if t.S == "false" {
			return TFalse
		}
		if t.S == "true" {
			continue
		}
		keep = append(keep, t)
	}
	if len(keep) == 0 {
		return TTrue
	}
	if len(keep) == 1 {
		return keep[0]
	}
	return Term{app("and", keep...), SBool}
}

func Or(ts ...Term) Term {
	var keep []Term
	for _, t := range ts {
		if t.S == "true" {
			return TTrue
		}
		if t.S == "false" {
			continue
		}
		keep = append(keep, t)
	}
	if len(keep) == 0 {
		return TFalse
	}
	if len(keep) == 1 {
		return keep[0]
	}
	return Term{app("or", keep...), SBool}
}

func Not(t Term) Term {
	if t.S == "true" {
		return TFalse
	}
	if t.S == "false" {
		return TTrue
	}
	if strings.HasPrefix(t.S, "(not ") {
		return Term{t.S[5 : len(t.S)-1], SBool}
	}
	return Term{"(not " + t.S + ")", SBool}
}

func Implies(a, b Term) Term {
	if a.S == "true" {
		return b
	}
	if a.S == "false" || b.S == "true" {
		return TTrue
	}
	return Term{app("=>", a, b), SBool}
}

func Eq(a, b Term) Term {
	if a.S == b.S {
		return TTrue
	}
	return Term{app("=", a, b), SBool}
}

func Ite(c, a, b Term) Term {
	if c.S == "true" {
		return a
	}
	if c.S == "false" {
		return b
	}
	if a.S == b.S {
		return a
	}
	return Term{app("ite", c, a, b), a.Sort}
}

// ---------------------------------------------------------------------------------------

// Universe: everything declared for the SMT side, derived from Go types on demand.
type Universe struct {
	sorts     map[string]*Sort // by canonical Go type string
	byName    map[string]*Sort
	order     []*Sort // declaration order (dependencies first)
	seqs      map[string]*Sort
	tags      map[string]int // Go type string -> tag number
	tagTypes  []types.Type
	boxes     map[string]*Sort  // box function suffix -> payload sort
	heaps     map[string]string // heap name -> SMT sort of the array
	decls     []string          // extra declarations (consts, funs), in order
	declSet   map[string]bool
	fresh     int
	funs      map[string]*FunSig // spec functions from preludes + generated
	axioms    []Axiom
	ifaceImpl func(types.Type) []types.Type // closed-world implementations of an interface
}

type FunSig struct {
	Name string
	Args []*Sort
	Res  *Sort
}

type Axiom struct {
	Name string
	Body string   // full (assert ...) text
	Keys []string // include only if one of the keys occurs in the query ("" = always)
}

func NewUniverse() *Universe {
	u := &Universe{sorts: map[string]*Sort{}, byName: map[string]*Sort{}, seqs: map[string]*Sort{}, tags: map[string]int{},
		boxes: map[string]*Sort{}, heaps: map[string]string{}, declSet: map[string]bool{}, funs: map[string]*FunSig{}}
	for _, s := range []*Sort{SBool, SInt, SString, SAny} {
		u.byName[s.Name] = s
	}
	return u
}

func sanitize(s string) string {
	var b strings.Builder
	for _, r := range s {
		switch {
		case r >= 'a' && r <= 'z', r >= 'A' && r <= 'Z', r >= '0' && r <= '9':
			b.WriteRune(r)
		case r == '.' || r == '/' || r == '_':
			b.WriteByte('_')
		case r == '*':
			b.WriteString("P")
		case r == '[':
			b.WriteString("L")
		case r == ']':
			b.WriteString("J")
		default:
			b.WriteString("_")
		}
	}
	return b.String()
}

func shortTypeName(t types.Type) string {
	return canonType(t, func(p *types.Package) string { return p.Name() })
}

// canonType prints a type with every alias resolved (so map[string]types.Object and map[string]any coincide)
func canonType(t types.Type, q types.Qualifier) string {
	t = types.Unalias(t)
	switch tt := t.(type) {
	case *types.Map:
		return "map[" + canonType(tt.Key(), q) + "]" + canonType(tt.Elem(), q)
	case *types.Slice:
		return "[]" + canonType(tt.Elem(), q)
	case *types.Array:
		return fmt.Sprintf("[%d]%s", tt.Len(), canonType(tt.Elem(), q))
	case *types.Pointer:
		return "*" + canonType(tt.Elem(), q)
	case *types.Chan:
		return "chan " + canonType(tt.Elem(), q)
	case *types.Interface:
		if tt.NumMethods() == 0 {
			return "any"
		}
	case *types.Signature:
		var ps, rs []string
		for i := 0; i < tt.Params().Len(); i++ {
			ps = append(ps, canonType(tt.Params().At(i).Type(), q))
		}
		for i := 0; i < tt.Results().Len(); i++ {
			rs = append(rs, canonType(tt.Results().At(i).Type(), q))
		}
		v := ""
		if tt.Variadic() {
			v = "..."
		}
		return "func" + v + "(" + strings.Join(ps, ",") + ")(" + strings.Join(rs, ",") + ")"
	}
	return types.TypeString(t, q)
}

func (u *Universe) Fresh(prefix string, s *Sort) Term {
	u.fresh++
	name := fmt.Sprintf("%s!%d", sanitize(prefix), u.fresh)
	u.decls = append(u.decls, fmt.Sprintf("(declare-const %s %s)", name, s.Name))
	return Term{name, s}
}

func (u *Universe) DeclareConst(name string, s *Sort) Term {
	if !u.declSet[name] {
		u.declSet[name] = true
		u.decls = append(u.decls, fmt.Sprintf("(declare-const %s %s)", name, s.Name))
	}
	return Term{name, s}
}

func (u *Universe) DeclareFun(name string, args []*Sort, res *Sort) *FunSig {
	if f, ok := u.funs[name]; ok {
		return f
	}
	var as []string
	for _, a := range args {
		as = append(as, a.Name)
	}
	u.decls = append(u.decls, fmt.Sprintf("(declare-fun %s (%s) %s)", name, strings.Join(as, " "), res.Name))
	f := &FunSig{name, args, res}
	u.funs[name] = f
	return f
}

// SortOf maps a Go type to its sort, declaring what is needed.
func (u *Universe) SortOf(t types.Type) *Sort {
	t = types.Unalias(t)
	key := canonType(t, nil)
	if s, ok := u.sorts[key]; ok {
		return s
	}
	var s *Sort
	switch tt := t.(type) {
	case *types.Basic:
		switch {
		case tt.Info()&types.IsBoolean != 0:
			s = SBool
		case tt.Info()&types.IsInteger != 0:
			s = SInt
		case tt.Info()&types.IsString != 0:
			s = SString
		case tt.Kind() == types.UntypedNil:
			s = SAny
		default:
			s = u.opaque("Float", t)
		}
	case *types.Named:
		und := tt.Underlying()
		switch ut := und.(type) {
		case *types.Struct:
			s = u.structSort(tt, ut)
		case *types.Interface:
			s = SAny
		default:
			s = u.SortOf(und)
		}
	case *types.Struct:
		s = u.structSort(t, tt)
	case *types.Interface:
		s = SAny
	case *types.Slice:
		s = u.SeqOf(u.SortOf(tt.Elem()))
	case *types.Array:
		s = u.SeqOf(u.SortOf(tt.Elem()))
	case *types.Pointer:
		el := u.SortOf(tt.Elem())
		name := "H_" + sanitize(shortTypeName(tt.Elem()))
		s = &Sort{Name: "Int", Kind: KRef, Elem: el, Go: t, Heap: name}
		u.heaps[name] = fmt.Sprintf("(Array Int %s)", el.Name)
	case *types.Map:
		k := u.SortOf(tt.Key())
		v := u.SortOf(tt.Elem())
		base := sanitize(k.Name) + "_" + sanitize(v.Name)
		s = &Sort{Name: "Int", Kind: KRef, Elem: v, Key: k, IsMap: true, Go: t, Heap: "M_" + base, Dom: "MD_" + base}
		u.heaps[s.Heap] = fmt.Sprintf("(Array Int (Array %s %s))", k.Name, v.Name)
		u.heaps[s.Dom] = fmt.Sprintf("(Array Int (Array %s Bool))", k.Name)
	case *types.Chan:
		s = &Sort{Name: "Int", Kind: KOpaque, Go: t}
	case *types.Signature:
		s = u.opaque("Func", t)
	case *types.Tuple:
		s = u.opaque("Tuple", t)
	default:
		s = u.opaque("T_"+sanitize(shortTypeName(t)), t)
	}
	u.sorts[key] = s
	return s
}

func (u *Universe) opaque(name string, t types.Type) *Sort {
	if s, ok := u.byName[name]; ok {
		return s
	}
	s := &Sort{Name: name, Kind: KOpaque, Go: t}
	u.byName[name] = s
	u.order = append(u.order, s)
	return s
}

// structs from dependencies that we never look into stay opaque
var opaqueStructPkgs = map[string]bool{"time": true, "regexp": true, "bytes": true, "encoding/json": true, "os": true,
	"github.com/open-policy-agent/opa/rego": true, "github.com/open-policy-agent/opa/ast": true, "github.com/piprate/json-gold/ld": true, "context": true, "sync": true}

// dependency structs whose fields the repository reads directly
var transparentStructs = map[string]bool{"rego.Result": true, "rego.ExpressionValue": true}

func (u *Universe) structSort(t types.Type, st *types.Struct) *Sort {
	name := "S_" + sanitize(shortTypeName(t))
	if n, ok := t.(*types.Named); ok && n.Obj().Pkg() != nil && opaqueStructPkgs[n.Obj().Pkg().Path()] && !transparentStructs[n.Obj().Pkg().Name()+"."+n.Obj().Name()] {
		return u.opaque("T_"+sanitize(shortTypeName(t)), t)
	}
	if s, ok := u.byName[name]; ok {
		return s
	}
	s := &Sort{Name: name, Kind: KStruct, Go: t}
	u.byName[name] = s
	u.sorts[canonType(t, nil)] = s // recursion guard (recursive structs only via pointers/slices/interfaces)
	for i := 0; i < st.NumFields(); i++ {
		f := st.Field(i)
		fs := u.SortOf(f.Type())
		s.Fields = append(s.Fields, &Field{Name: f.Name(), Sort: fs, Sel: name + "." + f.Name(), Emb: f.Embedded()})
	}
	u.order = append(u.order, s)
	return s
}

func (u *Universe) SeqOf(el *Sort) *Sort {
	name := "Seq_" + sanitize(el.Name)
	if el.Kind == KRef {
		name = "Seq_R" + sanitize(el.Heap)
	} else if el.Name == "Int" && el.Kind == KOpaque {
		name = "Seq_Chan"
	}
	if s, ok := u.seqs[name]; ok {
		return s
	}
	s := &Sort{Name: name, Kind: KSeq, Elem: el}
	u.seqs[name] = s
	u.byName[name] = s
	u.order = append(u.order, s)
	return s
}

func (s *Sort) FieldByName(n string) *Field {
	for _, f := range s.Fields {
		if f.Name == n {
			return f
		}
	}
	return nil
}

// Seq operations -------------------------------------------------------------------------

func seqFn(s *Sort, op string) string { return op + "_" + s.Name[4:] }

func (u *Universe) SeqLen(s Term) Term    { return Term{app(seqFn(s.Sort, "len"), s), SInt} }
func (u *Universe) SeqAt(s, i Term) Term  { return Term{app(seqFn(s.Sort, "at"), s, i), s.Sort.Elem} }
func (u *Universe) SeqEmpty(s *Sort) Term { return Term{seqFn(s, "empty"), s} }
func (u *Universe) SeqSnoc(s, x Term) Term {
	return Term{app(seqFn(s.Sort, "snoc"), s, x), s.Sort}
}
func (u *Universe) SeqTake(s, i Term) Term { return Term{app(seqFn(s.Sort, "take"), s, i), s.Sort} }
func (u *Universe) SeqConcat(a, b Term) Term {
	return Term{app(seqFn(a.Sort, "concat"), a, b), a.Sort}
}
func (u *Universe) SeqUpd(s, i, x Term) Term {
	return Term{app(seqFn(s.Sort, "upd"), s, i, x), s.Sort}
}
func (u *Universe) SeqSub(s, a, b Term) Term {
	return Term{app(seqFn(s.Sort, "sub"), s, a, b), s.Sort}
}
func (u *Universe) SeqMake(s *Sort, n Term) Term { return Term{app(seqFn(s, "mk"), n), s} }

// Zero value of a sort
func (u *Universe) Zero(s *Sort) Term {
	switch s.Kind {
	case KBool:
		return TFalse
	case KInt, KRef:
		return Term{"0", s}
	case KString:
		return StrLit("")
	case KAny:
		return Term{"nilAny", SAny}
	case KSeq:
		return u.SeqEmpty(s)
	case KStruct:
		var args []Term
		for _, f := range s.Fields {
			args = append(args, u.Zero(f.Sort))
		}
		if len(args) == 0 {
			return Term{"mk_" + s.Name, s}
		}
		return Term{app("mk_"+s.Name, args...), s}
	default:
		if s.Name == "Int" {
			return Term{"0", s}
		}
		return u.DeclareConst("zero_"+s.Name, s)
	}
}

func (u *Universe) MkStruct(s *Sort, vals []Term) Term {
	if len(vals) == 0 {
		return Term{"mk_" + s.Name, s}
	}
	return Term{app("mk_"+s.Name, vals...), s}
}

func (u *Universe) FieldGet(x Term, f *Field) Term {
	return Term{"(" + f.Sel + " " + x.S + ")", f.Sort}
}

func (u *Universe) FieldSet(x Term, f *Field, v Term) Term {
	var args []Term
	for _, g := range x.Sort.Fields {
		if g == f {
			args = append(args, v)
		} else {
			args = append(args, u.FieldGet(x, g))
		}
	}
	return u.MkStruct(x.Sort, args)
}

// Interface values --------------------------------------------------------------------------

func typeKey(t types.Type) string { return canonType(t, nil) }

func (u *Universe) Tag(t types.Type) int {
	k := typeKey(t)
	if n, ok := u.tags[k]; ok {
		return n
	}
	n := len(u.tags) + 1
	u.tags[k] = n
	u.tagTypes = append(u.tagTypes, types.Unalias(t))
	return n
}

func (u *Universe) boxName(t types.Type) string {
	u.Tag(t)
	name := sanitize(shortTypeName(types.Unalias(t)))
	u.boxes[name] = u.SortOf(t)
	return name
}

func (u *Universe) Box(t types.Type, x Term) Term {
	if x.Sort.Kind == KAny {
		return x
	}
	return Term{app("box_"+u.boxName(t), x), SAny}
}

func (u *Universe) Unbox(t types.Type, x Term) Term {
	return Term{app("unbox_"+u.boxName(t), x), u.SortOf(t)}
}

func (u *Universe) TagOf(x Term) Term { return Term{app("tagOf", x), SInt} }

// IsType: dynamic type test of an interface value against a (possibly interface) type
func (u *Universe) IsType(x Term, t types.Type) Term {
	t = types.Unalias(t)
	if it, ok := t.Underlying().(*types.Interface); ok {
		if it.NumMethods() == 0 {
			return Not(Eq(x, Term{"nilAny", SAny}))
		}
		var alts []Term
		if u.ifaceImpl != nil {
			for _, impl := range u.ifaceImpl(t) {
				alts = append(alts, Eq(u.TagOf(x), IntLit(int64(u.Tag(impl)))))
			}
		}
		return Or(alts...)
	}
	return Eq(u.TagOf(x), IntLit(int64(u.Tag(t))))
}

// Emission ------------------------------------------------------------------------------------

func (u *Universe) seqTheory(s *Sort) string {
	e := s.Name[4:]
	E := s.Elem.Name
	S := s.Name
	r := strings.NewReplacer("$S", S, "$E", E, "$e", e, "$Z", u.Zero(s.Elem).S)
	return r.Replace(`(declare-sort $S 0)
(declare-fun len_$e ($S) Int)
(declare-fun at_$e ($S Int) $E)
(declare-const empty_$e $S)
(declare-fun snoc_$e ($S $E) $S)
(declare-fun take_$e ($S Int) $S)
(declare-fun concat_$e ($S $S) $S)
(declare-fun upd_$e ($S Int $E) $S)
(declare-fun sub_$e ($S Int Int) $S)
(declare-fun mk_$e (Int) $S)
`)
}

func (u *Universe) seqAxioms(s *Sort) string {
	e := s.Name[4:]
	r := strings.NewReplacer("$S", s.Name, "$E", s.Elem.Name, "$e", e, "$Z", u.Zero(s.Elem).S)
	return r.Replace(`(assert (forall ((s $S)) (! (>= (len_$e s) 0) :pattern ((len_$e s)))))
(assert (= (len_$e empty_$e) 0))
(assert (forall ((s $S)) (! (=> (= (len_$e s) 0) (= s empty_$e)) :pattern ((len_$e s)))))
(assert (forall ((s $S) (x $E)) (! (= (len_$e (snoc_$e s x)) (+ (len_$e s) 1)) :pattern ((snoc_$e s x)))))
(assert (forall ((s $S) (x $E)) (! (= (at_$e (snoc_$e s x) (len_$e s)) x) :pattern ((snoc_$e s x)))))
(assert (forall ((s $S) (x $E) (i Int)) (! (=> (and (<= 0 i) (< i (len_$e s))) (= (at_$e (snoc_$e s x) i) (at_$e s i))) :pattern ((at_$e (snoc_$e s x) i)))))
(assert (forall ((s $S)) (! (= (take_$e s 0) empty_$e) :pattern ((take_$e s 0)))))
(assert (forall ((s $S)) (! (= (take_$e s (len_$e s)) s) :pattern ((take_$e s (len_$e s))))))
(assert (forall ((s $S) (i Int)) (! (=> (and (<= 0 i) (<= i (len_$e s))) (= (len_$e (take_$e s i)) i)) :pattern ((take_$e s i)))))
(assert (forall ((s $S) (i Int) (j Int)) (! (=> (and (<= 0 j) (< j i) (<= i (len_$e s))) (= (at_$e (take_$e s i) j) (at_$e s j))) :pattern ((at_$e (take_$e s i) j)))))
(assert (forall ((s $S) (i Int)) (! (=> (and (<= 0 i) (< i (len_$e s))) (= (take_$e s (+ i 1)) (snoc_$e (take_$e s i) (at_$e s i)))) :pattern ((take_$e s (+ i 1))))))
(assert (forall ((a $S) (b $S)) (! (= (len_$e (concat_$e a b)) (+ (len_$e a) (len_$e b))) :pattern ((concat_$e a b)))))
(assert (forall ((a $S) (b $S) (i Int)) (! (=> (and (<= 0 i) (< i (+ (len_$e a) (len_$e b)))) (= (at_$e (concat_$e a b) i) (ite (< i (len_$e a)) (at_$e a i) (at_$e b (- i (len_$e a)))))) :pattern ((at_$e (concat_$e a b) i)))))
(assert (forall ((a $S)) (! (= (concat_$e a empty_$e) a) :pattern ((concat_$e a empty_$e)))))
(assert (forall ((a $S)) (! (= (concat_$e empty_$e a) a) :pattern ((concat_$e empty_$e a)))))
(assert (forall ((a $S) (b $S) (x $E)) (! (= (concat_$e a (snoc_$e b x)) (snoc_$e (concat_$e a b) x)) :pattern ((concat_$e a (snoc_$e b x))))))
(assert (forall ((s $S) (i Int) (x $E)) (! (= (len_$e (upd_$e s i x)) (len_$e s)) :pattern ((upd_$e s i x)))))
(assert (forall ((s $S) (i Int) (x $E) (j Int)) (! (=> (and (<= 0 j) (< j (len_$e s))) (= (at_$e (upd_$e s i x) j) (ite (= i j) x (at_$e s j)))) :pattern ((at_$e (upd_$e s i x) j)))))
(assert (forall ((s $S) (i Int) (x $E)) (! (=> (and (<= 0 i) (< i (len_$e s))) (= (take_$e (upd_$e s i x) (+ i 1)) (snoc_$e (take_$e s i) x))) :pattern ((take_$e (upd_$e s i x) (+ i 1))))))
(assert (forall ((s $S) (i Int) (x $E) (k Int)) (! (=> (and (<= 0 k) (<= k i)) (= (take_$e (upd_$e s i x) k) (take_$e s k))) :pattern ((take_$e (upd_$e s i x) k)))))
(assert (forall ((s $S) (a Int) (b Int)) (! (=> (and (<= 0 a) (<= a b) (<= b (len_$e s))) (= (len_$e (sub_$e s a b)) (- b a))) :pattern ((sub_$e s a b)))))
(assert (forall ((s $S) (a Int) (b Int) (k Int)) (! (=> (and (<= 0 a) (<= a b) (<= b (len_$e s)) (<= 0 k) (< k (- b a))) (= (at_$e (sub_$e s a b) k) (at_$e s (+ a k)))) :pattern ((at_$e (sub_$e s a b) k)))))
(assert (forall ((s $S)) (! (= (sub_$e s 0 (len_$e s)) s) :pattern ((sub_$e s 0 (len_$e s))))))
(assert (forall ((n Int)) (! (=> (>= n 0) (= (len_$e (mk_$e n)) n)) :pattern ((mk_$e n)))))
(assert (forall ((n Int) (i Int)) (! (=> (and (<= 0 i) (< i n)) (= (at_$e (mk_$e n) i) $Z)) :pattern ((at_$e (mk_$e n) i)))))
`)
}

// Preamble returns all declarations; axioms are filtered by the caller against the query body.
func (u *Universe) Decls(body string) string {
	var b strings.Builder
	b.WriteString("(declare-sort Any 0)\n(declare-const nilAny Any)\n(declare-fun tagOf (Any) Int)\n")
	// sorts in dependency order; a struct may contain Seq of Any etc.; order was creation order with
	// children created first except for the recursion guard, which only matters for Any/Seq/Ref (predeclared or Int).
	declared := map[string]bool{}
	var emit func(s *Sort)
	emit = func(s *Sort) {
		if declared[s.Name] {
			return
		}
		declared[s.Name] = true
		switch s.Kind {
		case KSeq:
			emit(s.Elem)
			b.WriteString(u.seqTheory(s))
		case KStruct:
			for _, f := range s.Fields {
				emit(f.Sort)
			}
			var fs []string
			for _, f := range s.Fields {
				fs = append(fs, fmt.Sprintf("(|%s| %s)", f.Sel, f.Sort.Name))
			}
			fmt.Fprintf(&b, "(declare-datatypes ((%s 0)) (((mk_%s %s))))\n", s.Name, s.Name, strings.Join(fs, " "))
		case KOpaque:
			if s.Name != "Int" {
				fmt.Fprintf(&b, "(declare-sort %s 0)\n", s.Name)
			}
		}
	}
	for _, s := range u.order {
		emit(s)
	}
	// boxes
	var bn []string
	for n := range u.boxes {
		bn = append(bn, n)
	}
	sort.Strings(bn)
	for _, n := range bn {
		ps := u.boxes[n]
		fmt.Fprintf(&b, "(declare-fun box_%s (%s) Any)\n(declare-fun unbox_%s (Any) %s)\n", n, ps.Name, n, ps.Name)
	}
	var hn []string
	for n := range u.heaps {
		hn = append(hn, n)
	}
	sort.Strings(hn)
	_ = hn
	for _, d := range u.decls {
		b.WriteString(d)
		b.WriteByte('\n')
	}
	return b.String()
}

func (u *Universe) boxAxioms(body string) string {
	var b strings.Builder
	b.WriteString("(assert (= (tagOf nilAny) 0))\n(assert (forall ((a Any)) (! (=> (= (tagOf a) 0) (= a nilAny)) :pattern ((tagOf a)))))\n")
	var bn []string
	for n := range u.boxes {
		bn = append(bn, n)
	}
	sort.Strings(bn)
	for _, n := range bn {
		if !strings.Contains(body, "box_"+n+" ") {
			continue
		}
		ps := u.boxes[n]
		var tag int
		for k, t := range u.tagTypes {
			if sanitize(shortTypeName(t)) == n {
				tag = k + 1
			}
		}
		fmt.Fprintf(&b, "(assert (forall ((x %s)) (! (and (= (unbox_%s (box_%s x)) x) (= (tagOf (box_%s x)) %d)) :pattern ((box_%s x)))))\n", ps.Name, n, n, n, tag, n)
		fmt.Fprintf(&b, "(assert (forall ((a Any)) (! (=> (= (tagOf a) %d) (= (box_%s (unbox_%s a)) a)) :pattern ((unbox_%s a)))))\n", tag, n, n, n)
	}
	return b.String()
}

// quote identifiers that need it (we use '.' and '!' in names; both are legal simple-symbol chars in SMT-LIB)
