package main

// Ghost semantics of primitives: channels (C11), process/stdout/file system (C18).

import (
	"fmt"
	"go/ast"
	"go/constant"
	"go/types"
	"strings"
)

// pipeline stage order of the property statement
var stageOrder = []string{"ProfileParsing", "RegoGeneration", "RegoCompilation", "InputDataParsing", "InputDataNormalization", "OpaValidation", "BuildReport"}

// eventFuns defines evIsStart / evStage from the constants of pkg/events as they are in the working tree
func (ex *Exec) eventFuns() {
	if ex.U.declSet["evIsStart"] {
		return
	}
	ex.U.declSet["evIsStart"] = true
	var starts []string
	stage := "(- 1)"
	pk := ex.P.AllPkgs[repoMod+"/pkg/events"]
	if pk != nil {
		sc := pk.Types.Scope()
		for _, n := range sc.Names() {
			c, ok := sc.Lookup(n).(*types.Const)
			if !ok || c.Val().Kind() != constant.Int {
				continue
			}
			v, _ := constant.Int64Val(c.Val())
			base := ""
			if strings.HasSuffix(n, "Start") {
				base = strings.TrimSuffix(n, "Start")
				starts = append(starts, fmt.Sprintf("(= e %d)", v))
			} else if strings.HasSuffix(n, "Done") {
				base = strings.TrimSuffix(n, "Done")
			} else {
				continue
			}
			idx := 100 + int(v) // unknown stage: out of the order
			for k, s := range stageOrder {
				if s == base {
					idx = k
				}
			}
			stage = fmt.Sprintf("(ite (= e %d) %d %s)", v, idx, stage)
		}
	}
	st := "false"
	if len(starts) > 0 {
		st = "(or " + strings.Join(starts, " ") + " false)"
	}
	ex.U.decls = append(ex.U.decls, "(define-fun evIsStart ((e Int)) Bool "+st+")", "(define-fun evStage ((e Int)) Int "+stage+")")
	ex.U.funs["evIsStart"] = &FunSig{"evIsStart", []*Sort{SInt}, SBool}
	ex.U.funs["evStage"] = &FunSig{"evStage", []*Sort{SInt}, SInt}
}

func chanElemName(t types.Type) string {
	for {
		switch tt := t.Underlying().(type) {
		case *types.Pointer:
			t = tt.Elem()
			continue
		case *types.Chan:
			return shortTypeName(tt.Elem())
		}
		return ""
	}
}

func (ex *Exec) ghostAssert(what string, goal Term, n ast.Node, text string) {
	ex.safeCount["ghost-"+what]++
	name := fmt.Sprintf("ghost:%s#%s#%d", ex.F.Name, what, ex.safeCount["ghost-"+what])
	ex.assert(name, "ghost", []string{"C11"}, goal, text, ex.P.pos(n))
}

func (ex *Exec) send(x *ast.SendStmt) {
	ex.expr(x.Chan)
	val := ex.expr(x.Value)
	switch chanElemName(ex.info.TypeOf(x.Chan)) {
	case "events.Event":
		ex.eventFuns()
		g := ex.st.ghost
		ex.safe("send-closed", Eq(g["chanClosed"], IntLit(0)), x, "send on "+exprString(x.Chan)+" while closed")
		var et Term
		if f := val.Sort.FieldByName("EventType"); f != nil {
			et = ex.U.FieldGet(val, f)
		} else {
			et = ex.U.Fresh("et", SInt)
		}
		isStart := Term{"(evIsStart " + et.S + ")", SBool}
		stage := Term{"(evStage " + et.S + ")", SInt}
		ok := Ite(isStart, And(Not(g["evOpen"]), Eq(stage, g["evNext"])), And(g["evOpen"], Eq(g["evCur"], stage)))
		ex.ghostAssert("event-order", ok, x, "event sent in pipeline order: a start only when no stage is open and it is the next stage; a completion only for the open stage")
		ex.st.ghost["evCur"] = ex.def("evCur", Ite(isStart, stage, g["evCur"]))
		ex.st.ghost["evNext"] = ex.def("evNext", Ite(isStart, g["evNext"], Term{"(+ " + stage.S + " 1)", SInt}))
		ex.st.ghost["evOpen"] = ex.def("evOpen", isStart)
		ex.st.ghost["evCount"] = ex.def("evCount", Term{"(+ " + g["evCount"].S + " 1)", SInt})
		// time stamps: the event carries a clock reading taken before now and not older than the previous event's
		if f := val.Sort.FieldByName("Time"); f != nil {
			tv := ex.U.FieldGet(val, f)
			tk := ex.U.DeclareFun("timeTick", []*Sort{tv.Sort}, SInt)
			tick := Term{app(tk.Name, tv), SInt}
			ex.ghostAssert("event-time-order", And(Term{"(<= " + g["evLastTime"].S + " " + tick.S + ")", SBool}, Term{"(< " + tick.S + " " + g["evClock"].S + ")", SBool}), x,
				"the event's time stamp is a clock reading already taken and not earlier than the previous event's")
			ex.st.ghost["evLastTime"] = ex.def("evLastTime", tick)
		}
	case "milestones.Milestone":
		g := ex.st.ghost
		ex.safe("send-closed", Eq(g["msClosed"], IntLit(0)), x, "send on "+exprString(x.Chan)+" while closed")
		ex.st.ghost["msSent"] = ex.def("msSent", Term{"(+ " + g["msSent"].S + " 1)", SInt})
	default:
		ex.note("send on a channel without ghost model: " + exprString(x.Chan))
	}
}

func (ex *Exec) closeChan(c *ast.CallExpr) {
	ex.expr(c.Args[0])
	g := ex.st.ghost
	switch chanElemName(ex.info.TypeOf(c.Args[0])) {
	case "events.Event":
		ex.safe("close-closed", Eq(g["chanClosed"], IntLit(0)), c, "close of "+exprString(c.Args[0])+" while closed")
		ex.st.ghost["chanClosed"] = ex.def("chanClosed", Term{"(+ " + g["chanClosed"].S + " 1)", SInt})
	case "milestones.Milestone":
		ex.safe("close-closed", Eq(g["msClosed"], IntLit(0)), c, "close of "+exprString(c.Args[0])+" while closed")
		ex.st.ghost["msClosed"] = ex.def("msClosed", Term{"(+ " + g["msClosed"].S + " 1)", SInt})
	default:
		ex.note("close of a channel without ghost model")
	}
}

// recvGhost: one element received from a ranged-over channel
func (ex *Exec) recvGhost(ev Term, elem types.Type) {
	if shortTypeName(elem) != "events.Event" {
		return
	}
	ex.eventFuns()
	if f := ev.Sort.FieldByName("EventType"); f != nil {
		et := ex.U.FieldGet(ev, f)
		g := ex.st.ghost
		ex.st.ghost["rxDone"] = ex.def("rxDone", Term{"(+ " + g["rxDone"].S + " (ite (evIsStart " + et.S + ") 0 1))", SInt})
		// received events come from the pipeline: their type is one of the declared constants
		ex.fact(Term{"(and (>= (evStage " + et.S + ") 0) (< (evStage " + et.S + ") 100))", SBool})
	}
}

// exitReturn: the process ended (os.Exit, or a panic inside the CLI): treated as a return point of the function
func (ex *Exec) exitReturn(code Term) {
	ex.st.ghost["exitCode"] = code
	for i, rv := range ex.resVars {
		ex.st.vars[rv] = ex.U.Fresh(ex.resNames[i], ex.U.SortOf(rv.Type()))
	}
	if ex.inDefer {
		// the process ends while the deferred calls of this function run: the remaining ones are skipped by their guard
		return
	}
	ex.returns = append(ex.returns, ex.st)
	ex.st = ex.st.clone()
	ex.kill()
}

// afterOsCall: a callee that may end the process did so, or not
func (ex *Exec) afterOsCall() {
	code := ex.st.ghost["exitCode"]
	exited := Term{"(>= " + code.S + " 0)", SBool}
	a, b := ex.fork(exited)
	if !a.dead() {
		saved := ex.st
		ex.st = a
		ex.exitReturn(code)
		ex.st = saved
	}
	ex.st = b
}

// fileBytes: the content of the file at a path (assumed stable during the run)
func (ex *Exec) fileBytes(path Term, bs *Sort) Term {
	f := ex.U.DeclareFun("fileBytes", []*Sort{SString}, bs)
	return Term{app(f.Name, path), bs}
}

func (ex *Exec) isCmdPkg() bool { return strings.Contains(ex.F.Pkg.PkgPath, "/cmd") }

func (ex *Exec) osModel(full string, c *ast.CallExpr, args []Term) ([]Term, bool) {
	g := ex.st.ghost
	sigRes := func() []Term { return ex.freshResults(ex.info.TypeOf(c), "os") }
	switch full {
	case "os.Exit":
		ex.st.ghost["panicking"] = TFalse
		ex.exitReturn(args[0])
		return nil, true
	case "fmt.Println":
		if len(args) == 1 {
			var s Term
			if args[0].Sort.Kind == KSeq || len(c.Args) != 1 {
				s = ex.U.Fresh("printed", SString)
			} else {
				s = ex.fmtValue('v', ex.expr0(c.Args[0], args), ex.info.TypeOf(c.Args[0]), c)
			}
			ex.st.ghost["stdout"] = ex.def("stdout", Term{app("str.++", g["stdout"], s, StrLit("\n")), SString})
		} else {
			ex.st.ghost["stdout"] = ex.U.Fresh("stdout", SString)
		}
		return sigRes(), true
	case "fmt.Printf", "fmt.Print":
		ex.st.ghost["stdout"] = ex.U.Fresh("stdout", SString)
		return sigRes(), true
	case "fmt.Fprintf", "fmt.Fprintln", "fmt.Fprint":
		if len(c.Args) > 0 && exprString(c.Args[0]) == "os.Stderr" {
			return sigRes(), true
		}
		ex.st.ghost["stdout"] = ex.U.Fresh("stdout", SString)
		return sigRes(), true
	case "io/ioutil.ReadFile", "os.ReadFile":
		rs := sigRes()
		ex.fact(Implies(Eq(rs[1], Term{"nilAny", SAny}), Eq(rs[0], ex.fileBytes(args[0], rs[0].Sort))))
		return rs, true
	case "os.Stat":
		rs := sigRes()
		f := ex.U.DeclareFun("errIsNotExist", []*Sort{SAny}, SBool)
		ex.fact(Eq(Term{app(f.Name, rs[1]), SBool}, Not(g["fsExists"])))
		ex.fact(Implies(Term{app(f.Name, rs[1]), SBool}, Not(Eq(rs[1], Term{"nilAny", SAny}))))
		return rs, true
	case "errors.Is":
		if len(c.Args) == 2 && exprString(c.Args[1]) == "os.ErrNotExist" {
			f := ex.U.DeclareFun("errIsNotExist", []*Sort{SAny}, SBool)
			return []Term{{app(f.Name, args[0]), SBool}}, true
		}
		return sigRes(), true
	case "os.OpenFile":
		rs := sigRes()
		flags := int64(-1)
		if tv, ok := ex.info.Types[c.Args[1]]; ok && tv.Value != nil {
			flags, _ = constant.Int64Val(tv.Value)
		}
		if flags < 0 {
			ex.note("os.OpenFile with non-constant flags: file state havoc")
			for _, n := range []string{"fsContent", "fsExists", "fOffset"} {
				ex.st.ghost[n] = ex.U.Fresh(n, ex.st.ghost[n].Sort)
			}
			return rs, true
		}
		const oCREATE, oTRUNC, oAPPEND, oWR = 0x40, 0x200, 0x400, 0x3
		okOpen := g["fsExists"]
		if flags&oCREATE != 0 {
			okOpen = TTrue
		}
		if flags&oWR != 0 {
			okOpen = And(okOpen, Or(g["fsWritable"], Not(g["fsExists"])))
		}
		success := Eq(rs[1], Term{"nilAny", SAny})
		ex.fact(Eq(success, okOpen))
		ex.fact(Implies(success, Not(Eq(rs[0], Term{"0", rs[0].Sort}))))
		content := g["fsContent"]
		if flags&oCREATE != 0 {
			content = Ite(g["fsExists"], content, StrLit(""))
			ex.st.ghost["fsExists"] = ex.def("fsExists", Or(g["fsExists"], success))
		}
		if flags&oTRUNC != 0 {
			content = Ite(success, StrLit(""), content)
		}
		ex.st.ghost["fsContent"] = ex.def("fsContent", content)
		if flags&oAPPEND != 0 {
			ex.st.ghost["fAppend"] = TTrue
		} else {
			ex.st.ghost["fAppend"] = TFalse
		}
		ex.st.ghost["fOffset"] = IntLit(0)
		ex.st.ghost["fWr"] = Term{fmt.Sprint(flags&oWR != 0), SBool}
		return rs, true
	case "os.Create":
		rs := sigRes()
		success := Eq(rs[1], Term{"nilAny", SAny})
		ex.fact(Eq(success, Or(Not(g["fsExists"]), g["fsWritable"])))
		ex.fact(Implies(success, Not(Eq(rs[0], Term{"0", rs[0].Sort}))))
		ex.st.ghost["fsContent"] = ex.def("fsContent", Ite(success, StrLit(""), g["fsContent"]))
		ex.st.ghost["fsExists"] = ex.def("fsExists", Or(g["fsExists"], success))
		ex.st.ghost["fOffset"] = IntLit(0)
		ex.st.ghost["fAppend"] = TFalse
		ex.st.ghost["fWr"] = TTrue
		return rs, true
	case "os.File.WriteString":
		rs := sigRes()
		success := Eq(rs[1], Term{"nilAny", SAny})
		s := args[1]
		off := Ite(g["fAppend"], Term{"(str.len " + g["fsContent"].S + ")", SInt}, g["fOffset"])
		cont := g["fsContent"]
		end := "(+ " + off.S + " (str.len " + s.S + "))"
		nc := Term{"(str.++ (str.substr " + cont.S + " 0 " + off.S + ") " + s.S + " (str.substr " + cont.S + " " + end + " (str.len " + cont.S + ")))", SString}
		ex.fact(Implies(success, g["fWr"]))
		ex.st.ghost["fsContent"] = ex.def("fsContent", Ite(success, nc, ex.U.Fresh("partial", SString)))
		ex.st.ghost["fOffset"] = ex.def("fOffset", Ite(success, Term{end, SInt}, ex.U.Fresh("off", SInt)))
		return rs, true
	case "os.File.Truncate":
		rs := sigRes()
		success := Eq(rs[0], Term{"nilAny", SAny})
		n := args[1]
		cont := g["fsContent"]
		fits := And(Term{"(<= 0 " + n.S + ")", SBool}, Term{"(<= " + n.S + " (str.len " + cont.S + "))", SBool})
		ex.st.ghost["fsContent"] = ex.def("fsContent", Ite(And(success, fits), Term{"(str.substr " + cont.S + " 0 " + n.S + ")", SString}, Ite(success, ex.U.Fresh("padded", SString), cont)))
		return rs, true
	case "os.File.Sync", "os.File.Close":
		return sigRes(), true
	case "os.WriteFile", "io/ioutil.WriteFile":
		rs := sigRes()
		success := Eq(rs[0], Term{"nilAny", SAny})
		ex.fact(Eq(success, Or(Not(g["fsExists"]), g["fsWritable"])))
		if args[1].Sort.Kind == KString {
			ex.st.ghost["fsContent"] = ex.def("fsContent", Ite(success, args[1], ex.U.Fresh("partial", SString)))
		} else {
			ex.st.ghost["fsContent"] = ex.U.Fresh("fsContent", SString)
		}
		ex.st.ghost["fsExists"] = ex.def("fsExists", Or(g["fsExists"], success))
		return rs, true
	}
	return nil, false
}

// expr0 returns the already evaluated first argument (no re-evaluation)
func (ex *Exec) expr0(e ast.Expr, args []Term) Term { return args[0] }
