package main

// Program loading: packages, function table, contract binding.

import (
	"fmt"
	"go/ast"
	"go/token"
	"go/types"
	"os"
	"path/filepath"
	"sort"
	"strings"

	"golang.org/x/tools/go/packages"
)

const repoMod = "github.com/aml-org/amf-custom-validator"

type FuncInfo struct {
	Name     string // pkgname.Func or pkgname.Recv.Method
	Obj      *types.Func
	Decl     *ast.FuncDecl
	Lit      *ast.FuncLit // for closures (Decl == nil)
	Pkg      *packages.Package
	Contract *Contract
	File     string
}

func (fi *FuncInfo) Body() *ast.BlockStmt {
	if fi.Lit != nil {
		return fi.Lit.Body
	}
	return fi.Decl.Body
}

type Prog struct {
	Fset           *token.FileSet
	Pkgs           []*packages.Package // repository packages
	AllPkgs        map[string]*packages.Package
	Funcs          map[string]*FuncInfo
	ByObj          map[*types.Func]*FuncInfo
	Contracts      map[string]*Contract
	Order          []string // function names, sorted
	Effects        map[string]*Effects
	Direct         map[string]*Effects
	Reach          map[string]map[string]bool
	RepoDir        string
	IfaceContracts map[string]*Contract // pkg.Iface.Method
	BindErrors     []string
	OrphanPkgs     map[string][]string   // package name -> contracts whose function no longer exists
	ApproxBind     map[string][]string   // functions whose contract was bound with a guessed renaming: a failed proof there is undecided
	BindByFunc     map[string][]string   // binding problems of one function's contract (loop / identifier mismatch)
	namedTypes     map[string]types.Type // pkgname.Type -> type
	preludeCache   map[string]string
}

func qualName(fn *types.Func) string {
	sig := fn.Type().(*types.Signature)
	pkg := ""
	if fn.Pkg() != nil {
		pkg = fn.Pkg().Name()
	}
	if r := sig.Recv(); r != nil {
		t := r.Type()
		if p, ok := t.(*types.Pointer); ok {
			t = p.Elem()
		}
		t = types.Unalias(t)
		if n, ok := t.(*types.Named); ok {
			return pkg + "." + n.Obj().Name() + "." + fn.Name()
		}
		return pkg + ".?." + fn.Name()
	}
	return pkg + "." + fn.Name()
}

func LoadProg(dir string) (*Prog, error) {
	cfg := &packages.Config{
		Mode: packages.NeedName | packages.NeedSyntax | packages.NeedTypes | packages.NeedTypesInfo | packages.NeedDeps | packages.NeedImports | packages.NeedFiles | packages.NeedCompiledGoFiles,
		Dir:  dir, BuildFlags: []string{"-tags=verif"},
		Env: append(os.Environ(), "GOFLAGS=-mod=mod", "GOPROXY=off", "GOSUMDB=off", "GOTOOLCHAIN=local"),
	}
	pkgs, err := packages.Load(cfg, "./...")
	if err != nil {
		return nil, err
	}
	p := &Prog{Funcs: map[string]*FuncInfo{}, ByObj: map[*types.Func]*FuncInfo{}, Contracts: map[string]*Contract{}, AllPkgs: map[string]*packages.Package{},
		RepoDir: dir, IfaceContracts: map[string]*Contract{}, namedTypes: map[string]types.Type{}, preludeCache: map[string]string{}}
	var nerr int
	packages.Visit(pkgs, nil, func(pk *packages.Package) {
		p.AllPkgs[pk.PkgPath] = pk
		if strings.HasPrefix(pk.PkgPath, repoMod) {
			for _, e := range pk.Errors {
				fmt.Fprintln(os.Stderr, "load error:", e)
				nerr++
			}
		}
	})
	if nerr > 0 {
		return nil, fmt.Errorf("%d package errors", nerr)
	}
	for _, pk := range pkgs {
		if !strings.HasPrefix(pk.PkgPath, repoMod) {
			continue
		}
		if strings.Contains(pk.PkgPath, "/performance") || strings.HasSuffix(pk.PkgPath, "/test") {
			continue
		}
		p.Pkgs = append(p.Pkgs, pk)
		p.Fset = pk.Fset
		sc := pk.Types.Scope()
		for _, n := range sc.Names() {
			if tn, ok := sc.Lookup(n).(*types.TypeName); ok {
				p.namedTypes[pk.Types.Name()+"."+n] = tn.Type()
			}
		}
		for i, f := range pk.Syntax {
			fname := pk.CompiledGoFiles[i]
			if strings.HasSuffix(fname, "_test.go") {
				continue
			}
			for _, d := range f.Decls {
				fd, ok := d.(*ast.FuncDecl)
				if !ok || fd.Body == nil {
					continue
				}
				obj := pk.TypesInfo.Defs[fd.Name].(*types.Func)
				fi := &FuncInfo{Name: qualName(obj), Obj: obj, Decl: fd, Pkg: pk, File: fname}
				p.Funcs[fi.Name] = fi
				p.ByObj[obj] = fi
			}
			// contract files
			if strings.HasSuffix(fname, "zz_contracts_verif.go") {
				src, err := os.ReadFile(fname)
				if err != nil {
					return nil, err
				}
				cs, err := ParseContracts(fname, string(src), pk.Types.Name())
				if err != nil {
					return nil, err
				}
				for _, c := range cs {
					if _, dup := p.Contracts[c.Func]; dup {
						return nil, fmt.Errorf("%s:%d: duplicate contract for %s", c.File, c.Line, c.Func)
					}
					p.Contracts[c.Func] = c
				}
			}
		}
	}
	if p.Fset == nil {
		return nil, fmt.Errorf("no repository packages loaded")
	}
	// also named types of a few dependencies, for spec type names
	for path, pk := range p.AllPkgs {
		if strings.HasPrefix(path, repoMod) || pk.Types == nil {
			continue
		}
		switch path {
		case "time", "gopkg.in/yaml.v3", "github.com/open-policy-agent/opa/rego":
			sc := pk.Types.Scope()
			for _, n := range sc.Names() {
				if tn, ok := sc.Lookup(n).(*types.TypeName); ok {
					if _, exists := p.namedTypes[pk.Types.Name()+"."+n]; !exists {
						p.namedTypes[pk.Types.Name()+"."+n] = tn.Type()
					}
				}
			}
		}
	}
	// bind contracts
	for name, c := range p.Contracts {
		if fi, ok := p.Funcs[name]; ok {
			fi.Contract = c
			c.bound = true
			continue
		}
		// interface method?
		parts := strings.Split(name, ".")
		if len(parts) == 3 {
			if t, ok := p.namedTypes[parts[0]+"."+parts[1]]; ok {
				if it, ok := t.Underlying().(*types.Interface); ok {
					for i := 0; i < it.NumMethods(); i++ {
						if it.Method(i).Name() == parts[2] {
							p.IfaceContracts[name] = c
							c.bound = true
						}
					}
				}
			}
		}
		if !c.bound {
			// the function is gone (renamed, or inlined into its callers): the contracts of its package are stale around it.
			// Not an error by itself; a failing obligation in that package is then undecided, not a violation
			if p.OrphanPkgs == nil {
				p.OrphanPkgs = map[string][]string{}
			}
			pk := name
			if i := strings.Index(name, "."); i >= 0 {
				pk = name[:i]
			}
			p.OrphanPkgs[pk] = append(p.OrphanPkgs[pk], fmt.Sprintf("%s:%d: contract for unknown function %s", filepath.Base(c.File), c.Line, name))
		}
	}
	for n := range p.Funcs {
		p.Order = append(p.Order, n)
	}
	sort.Strings(p.Order)
	return p, nil
}

// ResolveType resolves a spec-language type name.
func (p *Prog) ResolveType(name string) (types.Type, error) {
	switch {
	case strings.HasPrefix(name, "[]"):
		t, err := p.ResolveType(name[2:])
		if err != nil {
			return nil, err
		}
		return types.NewSlice(t), nil
	case strings.HasPrefix(name, "*"):
		t, err := p.ResolveType(name[1:])
		if err != nil {
			return nil, err
		}
		return types.NewPointer(t), nil
	case strings.HasPrefix(name, "map["):
		depth := 0
		for i := 3; i < len(name); i++ {
			if name[i] == '[' {
				depth++
			} else if name[i] == ']' {
				depth--
				if depth == 0 {
					k, err := p.ResolveType(name[4:i])
					if err != nil {
						return nil, err
					}
					v, err := p.ResolveType(name[i+1:])
					if err != nil {
						return nil, err
					}
					return types.NewMap(k, v), nil
				}
			}
		}
	}
	switch name {
	case "int":
		return types.Typ[types.Int], nil
	case "bool":
		return types.Typ[types.Bool], nil
	case "string":
		return types.Typ[types.String], nil
	case "any":
		return types.Universe.Lookup("any").Type(), nil
	case "error":
		return types.Universe.Lookup("error").Type(), nil
	case "byte":
		return types.Typ[types.Uint8], nil
	case "float64":
		return types.Typ[types.Float64], nil
	}
	if t, ok := p.namedTypes[name]; ok {
		return t, nil
	}
	return nil, fmt.Errorf("unknown type %q", name)
}

// Implementations of an interface among repository named types (closed world).
func (p *Prog) Implementations(it types.Type) []types.Type {
	iface, ok := it.Underlying().(*types.Interface)
	if !ok {
		return nil
	}
	var res []types.Type
	var names []string
	for n := range p.namedTypes {
		names = append(names, n)
	}
	sort.Strings(names)
	for _, n := range names {
		t := p.namedTypes[n]
		if _, isI := t.Underlying().(*types.Interface); isI {
			continue
		}
		if types.Implements(t, iface) {
			res = append(res, t)
		} else if types.Implements(types.NewPointer(t), iface) {
			res = append(res, types.NewPointer(t))
		}
	}
	return res
}

func (p *Prog) pos(n ast.Node) string {
	ps := p.Fset.Position(n.Pos())
	return fmt.Sprintf("%s:%d", strings.TrimPrefix(ps.Filename, p.RepoDir+"/"), ps.Line)
}
