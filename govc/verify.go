package main

// Per-function verification driver and prelude handling.

import (
	"fmt"
	"go/ast"
	"go/token"
	"go/types"
	"os"
	"path/filepath"
	"strings"
)

type Prelude struct {
	Name     string
	Theories []string
	IsTypes  []string
	Boxes    []string
	Types    []string
	Items    []PreludeItem
}

type PreludeItem struct {
	Kind string // decl assert
	Text string
	Name string   // declared symbol (decl)
	Syms []string // symbols mentioned
	Sig  []string // arg sort names (decl)
	Res  string
}

var specDir = "/verif/spec"

// splitSexprs splits top-level s-expressions, ignoring ; comments
func splitSexprs(src string) []string {
	var out []string
	depth := 0
	start := -1
	inStr := false
	for i := 0; i < len(src); i++ {
		c := src[i]
		if inStr {
			if c == '"' {
				inStr = false
			}
			continue
		}
		switch c {
		case ';':
			for i < len(src) && src[i] != '\n' {
				i++
			}
		case '"':
			inStr = true
		case '(':
			if depth == 0 {
				start = i
			}
			depth++
		case ')':
			depth--
			if depth == 0 && start >= 0 {
				out = append(out, src[start:i+1])
				start = -1
			}
		}
	}
	return out
}

// tokens of an s-expression (atoms and parens)
func sexprTokens(s string) []string {
	var out []string
	i := 0
	for i < len(s) {
		c := s[i]
		switch {
		case c == ' ' || c == '\n' || c == '\t' || c == '\r':
			i++
		case c == '(' || c == ')':
			out = append(out, string(c))
			i++
		case c == '"':
			j := i + 1
			for j < len(s) {
				if s[j] == '"' {
					if j+1 < len(s) && s[j+1] == '"' {
						j += 2
						continue
					}
					break
				}
				j++
			}
			out = append(out, s[i:j+1])
			i = j + 1
		case c == ';':
			for i < len(s) && s[i] != '\n' {
				i++
			}
		default:
			j := i
			for j < len(s) && !strings.ContainsRune(" \n\t\r()", rune(s[j])) {
				j++
			}
			out = append(out, s[i:j])
			i = j
		}
	}
	return out
}

// readSort reads one sort starting at toks[i]; returns its text and the next index
func readSort(toks []string, i int) (string, int) {
	if toks[i] != "(" {
		return toks[i], i + 1
	}
	depth := 0
	var parts []string
	for j := i; j < len(toks); j++ {
		if toks[j] == "(" {
			depth++
		} else if toks[j] == ")" {
			depth--
		}
		parts = append(parts, toks[j])
		if depth == 0 {
			txt := strings.Join(parts, " ")
			txt = strings.ReplaceAll(txt, "( ", "(")
			txt = strings.ReplaceAll(txt, " )", ")")
			return txt, j + 1
		}
	}
	return strings.Join(parts, " "), len(toks)
}

func LoadPrelude(name string) (*Prelude, error) {
	src, err := os.ReadFile(filepath.Join(specDir, name+".smt2"))
	if err != nil {
		return nil, err
	}
	p := &Prelude{Name: name}
	for _, l := range strings.Split(string(src), "\n") {
		l = strings.TrimSpace(l)
		if strings.HasPrefix(l, ";; type ") {
			p.Types = append(p.Types, strings.TrimSpace(l[8:]))
		}
		if strings.HasPrefix(l, ";; box ") {
			p.Boxes = append(p.Boxes, strings.TrimSpace(l[7:]))
		}
		if strings.HasPrefix(l, ";; istype ") {
			p.IsTypes = append(p.IsTypes, strings.TrimSpace(l[10:]))
		}
		if strings.HasPrefix(l, ";; theory ") {
			p.Theories = append(p.Theories, strings.TrimSpace(l[10:]))
		}
	}
	for _, sx := range splitSexprs(string(src)) {
		toks := sexprTokens(sx)
		if len(toks) < 3 {
			continue
		}
		it := PreludeItem{Text: sx}
		seen := map[string]bool{}
		for _, t := range toks {
			if t != "(" && t != ")" && !seen[t] {
				seen[t] = true
				it.Syms = append(it.Syms, t)
			}
		}
		switch toks[1] {
		case "declare-fun":
			it.Kind, it.Name = "decl", toks[2]
			i := 4 // after "(" of arg list
			for toks[i] != ")" {
				var s string
				s, i = readSort(toks, i)
				it.Sig = append(it.Sig, s)
			}
			it.Res, _ = readSort(toks, i+1)
		case "declare-const":
			it.Kind, it.Name = "decl", toks[2]
			it.Res, _ = readSort(toks, 3)
		case "define-fun", "define-fun-rec":
			it.Kind, it.Name = "decl", toks[2]
			i := 4
			for toks[i] != ")" {
				// (name sort)
				i += 2
				var s string
				s, i = readSort(toks, i)
				it.Sig = append(it.Sig, s)
				i++ // ")"
			}
			it.Res, _ = readSort(toks, i+1)
		case "declare-sort":
			it.Kind, it.Name = "sort", toks[2]
		case "assert":
			it.Kind = "assert"
		default:
			return nil, fmt.Errorf("prelude %s: unsupported command %s", name, toks[1])
		}
		p.Items = append(p.Items, it)
	}
	return p, nil
}

func (ex *Exec) preludeSort(name string) *Sort {
	if s, ok := ex.U.byName[name]; ok {
		return s
	}
	s := &Sort{Name: name, Kind: KOpaque}
	ex.U.byName[name] = s
	return s
}

func (ex *Exec) usePrelude(name string) error {
	for _, n := range ex.preludes {
		if n == name {
			return nil
		}
	}
	ex.preludes = append(ex.preludes, name)
	p, err := LoadPrelude(name)
	if err != nil {
		return err
	}
	for _, tn := range p.Types {
		t, err := ex.P.ResolveType(tn)
		if err != nil {
			return fmt.Errorf("prelude %s: %v", name, err)
		}
		ex.U.SortOf(t)
		if _, isI := t.Underlying().(*types.Interface); !isI {
			if _, isS := t.Underlying().(*types.Struct); isS {
				ex.U.boxName(t)
			}
		}
	}
	for _, tn := range p.Boxes {
		t, err := ex.P.ResolveType(tn)
		if err != nil {
			return fmt.Errorf("prelude %s: %v", name, err)
		}
		ex.U.boxName(t)
	}
	for _, d := range p.IsTypes {
		// ";; istype name T" defines the predicate name(a Any) that holds exactly of the boxed values of dynamic type T
		f := strings.Fields(d)
		if len(f) != 2 {
			return fmt.Errorf("prelude %s: bad istype directive %q", name, d)
		}
		t, err := ex.P.ResolveType(f[1])
		if err != nil {
			return fmt.Errorf("prelude %s: %v", name, err)
		}
		ex.U.SortOf(t)
		ex.U.boxName(t)
		if !ex.U.declSet[f[0]] {
			ex.U.decls = append(ex.U.decls, fmt.Sprintf("(define-fun %s ((a Any)) Bool (= (tagOf a) %d))", f[0], ex.U.Tag(t)))
			ex.U.funs[f[0]] = &FunSig{f[0], []*Sort{SAny}, SBool}
			ex.U.declSet[f[0]] = true
		}
	}
	for _, th := range p.Theories {
		if th == "rules" {
			if err := ex.ruleTheory(); err != nil {
				return err
			}
		}
	}
	for _, it := range p.Items {
		switch it.Kind {
		case "sort":
			s := &Sort{Name: it.Name, Kind: KOpaque}
			if _, ok := ex.U.byName[it.Name]; !ok {
				ex.U.byName[it.Name] = s
				ex.U.order = append(ex.U.order, s)
			}
		case "decl":
			var as []*Sort
			for _, s := range it.Sig {
				as = append(as, ex.preludeSort(s))
			}
			ex.U.funs[it.Name] = &FunSig{it.Name, as, ex.preludeSort(it.Res)}
			ex.U.decls = append(ex.U.decls, it.Text)
			ex.U.declSet[it.Name] = true
			ex.preludeSyms[it.Name] = true
			if len(it.Sig) == 0 {
				ex.preludeConsts[it.Name] = ex.preludeSort(it.Res)
			}
		case "assert":
			ex.preludeAxioms = append(ex.preludeAxioms, it)
		}
	}
	return nil
}

// NewExec prepares the symbolic execution of one function
func NewExec(p *Prog, fi *FuncInfo) *Exec {
	ex := &Exec{P: p, U: NewUniverse(), F: fi, info: fi.Pkg.TypesInfo, names: map[string]*types.Var{}, boxed: map[*types.Var]bool{},
		params: map[string]Term{}, loopIdxByOrd: map[int]Term{}, notesSet: map[string]bool{}, safeCount: map[string]int{}, callOrd: map[string]int{},
		preludeSyms: map[string]bool{}, preludeConsts: map[string]*Sort{}, safetyOn: true, closures: map[*types.Var]*closure{}}
	ex.U.ifaceImpl = p.Implementations
	ex.eventFuns()
	return ex
}

func (ex *Exec) findBoxed(body ast.Node) {
	ast.Inspect(body, func(n ast.Node) bool {
		switch x := n.(type) {
		case *ast.UnaryExpr:
			if x.Op == token.AND {
				if id, ok := unparen(x.X).(*ast.Ident); ok {
					if v, ok := ex.info.Uses[id].(*types.Var); ok && !isPkgLevel(v) {
						ex.boxed[v] = true
					}
				}
			}
		case *ast.FuncLit:
			// variables assigned inside a closure but declared outside live in the heap
			declared := map[*types.Var]bool{}
			ast.Inspect(x, func(m ast.Node) bool {
				if id, ok := m.(*ast.Ident); ok {
					if v, ok := ex.info.Defs[id].(*types.Var); ok {
						declared[v] = true
					}
				}
				return true
			})
			ast.Inspect(x.Body, func(m ast.Node) bool {
				var lhs []ast.Expr
				switch s := m.(type) {
				case *ast.AssignStmt:
					lhs = s.Lhs
				case *ast.IncDecStmt:
					lhs = []ast.Expr{s.X}
				}
				for _, l := range lhs {
					// only a direct assignment to the captured variable (or one of its fields) needs the heap;
					// a store through a captured pointer / map leaves the variable itself unchanged
					if v, crossed := rootVar(ex.info, l); v != nil && !crossed && !declared[v] && !isPkgLevel(v) {
						ex.boxed[v] = true
					}
				}
				return true
			})
		}
		return true
	})
}

func unparen(e ast.Expr) ast.Expr {
	for {
		if p, ok := e.(*ast.ParenExpr); ok {
			e = p.X
		} else {
			return e
		}
	}
}

// Run executes the function and produces obligations.
func (ex *Exec) Run() {
	fi := ex.F
	con := fi.Contract
	var sig *types.Signature
	if fi.Obj != nil {
		sig = fi.Obj.Type().(*types.Signature)
	} else {
		sig = ex.info.TypeOf(fi.Lit).(*types.Signature)
	}
	// preludes: own contract, callees' contracts
	addPre := func(c *Contract) {
		if c == nil {
			return
		}
		for _, n := range c.Preludes {
			if err := ex.usePrelude(n); err != nil {
				ex.P.BindErrors = append(ex.P.BindErrors, fmt.Sprintf("%s: %v", c.Func, err))
			}
		}
	}
	addPre(con)
	if de := ex.P.Direct[fi.Name]; de != nil {
		for _, c := range sortedKeys(de.Calls) {
			if cf := ex.P.Funcs[c]; cf != nil {
				addPre(cf.Contract)
			}
		}
	}
	for _, ic := range ex.ifaceContractsFor() {
		addPre(ic)
	}
	for _, n := range sortedKeys(ex.P.IfaceContracts) {
		// interface contracts may be used at dynamic calls
		if ex.P.Direct[fi.Name] != nil && ex.P.Direct[fi.Name].IfaceCalls[n] {
			addPre(ex.P.IfaceContracts[n])
		}
	}
	ex.findBoxed(fi.Body())

	st := &State{pc: TTrue, vars: map[*types.Var]Term{}, heaps: map[string]Term{}, globals: map[*types.Var]Term{}, ghost: map[string]Term{}}
	for _, gv := range ghostVars {
		st.ghost[gv.Name] = ex.U.DeclareConst(gv.Name+"@pre", gv.Sort)
	}
	ex.facts = append(ex.facts, "(>= alloc@pre 0)", "(<= evLastTime@pre evClock@pre)", "(>= evLastTime@pre 0)")
	ex.st = st
	ex.entry = nil
	// parameters
	var pvars []*types.Var
	if r := sig.Recv(); r != nil {
		pvars = append(pvars, r)
	}
	for i := 0; i < sig.Params().Len(); i++ {
		pvars = append(pvars, sig.Params().At(i))
	}
	pnames, rnames := calleeNames(sig)
	if con != nil {
		if cn := contractParamNames(con.Sig); len(cn) == len(pnames) {
			for i := range cn {
				if cn[i] != pnames[i] {
					if ex.paramAlias == nil {
						ex.paramAlias = map[string]string{}
					}
					ex.paramAlias[cn[i]] = pnames[i]
				}
			}
		}
	}
	entryVals := map[*types.Var]Term{}
	type cwp struct {
		t  Term
		gt types.Type
	}
	var cwParams []cwp
	for i, v := range pvars {
		s := ex.U.SortOf(v.Type())
		t := ex.U.DeclareConst("p_"+sanitize(pnames[i]), s)
		if s.Kind == KRef {
			ex.facts = append(ex.facts, fmt.Sprintf("(and (>= %s 0) (<= %s alloc@pre))", t.S, t.S))
		}
		ex.params[pnames[i]] = t
		entryVals[v] = t
		cwParams = append(cwParams, cwp{t, v.Type()})
	}
	for _, c := range cwParams {
		ex.closedWorld(c.t, c.gt)
	}
	// entry snapshot before boxing parameters
	ex.entry = st.clone()
	for i, v := range pvars {
		if v.Name() != "" && v.Name() != "_" {
			ex.declare(v, entryVals[v])
		}
		_ = i
	}
	// results
	ex.resNames = rnames
	for i := 0; i < sig.Results().Len(); i++ {
		rv := sig.Results().At(i)
		ex.resVars = append(ex.resVars, rv)
		z := ex.U.Zero(ex.U.SortOf(rv.Type()))
		if rv.Name() != "" && rv.Name() != "_" {
			ex.declare(rv, z)
		} else {
			ex.st.vars[rv] = z
		}
	}
	// heaps touched by boxing are part of the entry state as well
	for k, v := range ex.st.heaps {
		if _, ok := ex.entry.heaps[k]; !ok {
			ex.entry.heaps[k] = v
		}
	}
	// requires
	if con != nil {
		for _, cl := range append(con.Of("requires"), con.Of("requires-assumed")...) {
			if cl.Kind == "requires-assumed" {
				ex.note("assumed precondition of " + fi.Name + " (not checked at call sites): " + cl.Text)
			}
			env := &SpecEnv{st: ex.st, old: ex.entry, names: copyNames(ex.params), pkg: fi.Pkg.Types}
			t, err := ex.specTerm(cl.Expr, env)
			if err != nil {
				ex.contractError(cl, err)
				continue
			}
			ex.fact(t)
		}
	}
	// preconditions of interface contracts are NOT assumed for the body: they are antecedents of the interface's own
	// postconditions only (the implementation's own contract must hold under its own preconditions alone)
	type ifaceReqT struct {
		tags []string
		t    Term
	}
	ifaceReq := map[*Contract][]ifaceReqT{}
	for _, ic := range ex.ifaceContractsFor() {
		var reqs []ifaceReqT
		for _, cl := range ic.Of("requires") {
			env := &SpecEnv{st: ex.st, old: ex.entry, names: ex.ifaceNames(nil), pkg: fi.Pkg.Types}
			t, err := ex.specTerm(cl.Expr, env)
			if err != nil {
				ex.contractError(cl, err)
				continue
			}
			reqs = append(reqs, ifaceReqT{cl.Tags, t})
		}
		ifaceReq[ic] = reqs
	}
	nReq := len(ex.facts)
	// cover: the entry state under the preconditions must be satisfiable
	ex.obls = append(ex.obls, &Obligation{Name: "cover:" + fi.Name + "#entry", Kind: "cover", Tags: ex.allTags(), Goal: TFalse, PC: TTrue, NFacts: nReq, Text: "preconditions are satisfiable", Func: fi.Name, Expect: "sat", Pos: ex.P.pos(fi.Body())})

	ex.block(fi.Body().List)
	if !ex.st.dead() {
		ex.returns = append(ex.returns, ex.st)
	}
	if ex.unsupported != "" {
		return
	}
	var final *State
	for _, r := range ex.returns {
		final = ex.merge(final, r)
	}
	// a recovered panic: the function returns through the body of its deferred recover. Where the panic happened is unknown:
	// everything the function may write is unknown, named results hold whatever they held, unnamed results are zero values
	for _, lit := range ex.recoverLits {
		ps := ex.entry.clone()
		ps.pc = ex.U.Fresh("panicked", SBool)
		ex.st = ps
		// heaps and package variables the body refers to, and the ghost state the function may change: unknown
		var normal *State
		for _, r := range ex.returns {
			normal = ex.merge(normal, r)
		}
		if normal != nil {
			for v, t := range normal.vars {
				if _, has := ps.vars[v]; !has {
					if t.Sort != nil && t.Sort.Name != "" && v.Name() != "" && v.Name() != "_" {
						ps.vars[v] = ex.U.Fresh(v.Name(), t.Sort)
					} else {
						ps.vars[v] = t
					}
				}
			}
			for name, t := range normal.heaps {
				if name == "" || t.Sort == nil || t.Sort.Name == "" {
					ps.heaps[name] = t
					continue
				}
				ps.heaps[name] = ex.U.Fresh(name, t.Sort)
			}
			for g, t := range normal.globals {
				if t.Sort == nil || t.Sort.Name == "" {
					ps.globals[g] = t
					continue
				}
				ps.globals[g] = ex.U.Fresh("G_"+g.Name(), t.Sort)
			}
		}
		if eff := ex.P.Effects[fi.Name]; eff != nil {
			oldClock := ps.ghost["evClock"]
			for _, gv := range ghostVars {
				if gv.Cat != "alloc" && eff.Ghost[gv.Cat] {
					ps.ghost[gv.Name] = ex.U.Fresh(gv.Name, gv.Sort)
				}
			}
			if eff.Ghost["clock"] {
				ex.facts = append(ex.facts, fmt.Sprintf("(>= %s %s)", ps.ghost["evClock"].S, oldClock.S))
			}
			if eff.Ghost["clock"] || eff.Ghost["chan"] {
				ex.facts = append(ex.facts, fmt.Sprintf("(<= %s %s)", ps.ghost["evLastTime"].S, ps.ghost["evClock"].S))
			}
		}
		na := ex.U.Fresh("alloc", SInt)
		ex.facts = append(ex.facts, fmt.Sprintf("(>= %s %s)", na.S, ps.ghost["alloc"].S))
		ps.ghost["alloc"] = na
		for _, rv := range ex.resVars {
			switch {
			case rv.Name() == "" || rv.Name() == "_":
				ex.st.vars[rv] = ex.U.Zero(ex.U.SortOf(rv.Type()))
			case ex.boxed[rv]:
				// assigned by the closure: the executor keeps result variables as plain values (returns write them directly)
				delete(ex.boxed, rv)
				ex.st.vars[rv] = ex.U.Fresh(rv.Name(), ex.U.SortOf(rv.Type()))
			default:
				ex.st.vars[rv] = ex.U.Fresh(rv.Name(), ex.U.SortOf(rv.Type()))
			}
		}
		ifs := lit.Body.List[0].(*ast.IfStmt)
		if as, ok := ifs.Init.(*ast.AssignStmt); ok && len(as.Lhs) == 1 {
			if id, ok := as.Lhs[0].(*ast.Ident); ok && id.Name != "_" {
				if v, ok := ex.info.Defs[id].(*types.Var); ok {
					r := ex.U.Fresh("recovered", SAny)
					ex.fact(Not(Eq(r, Term{"nilAny", SAny})))
					ex.declare(v, r)
				}
			}
		}
		ex.block(ifs.Body.List)
		if !ex.st.dead() {
			// the recovered path first: its condition is a free boolean, so the merged values are those of the recovered path
			// whenever it is taken (the conditions of the normal returns are usually exhaustive and would otherwise shadow it)
			final = ex.merge(ex.st, final)
		}
		if ex.unsupported != "" {
			return
		}
	}
	if final == nil {
		return // never returns normally
	}
	// deferred calls run at exit, last registered first, on the paths that registered them
	for i := len(ex.deferred) - 1; i >= 0; i-- {
		d := ex.deferred[i]
		ex.st = final
		// on the paths that registered it, and only while the process is alive or unwinding a panic (os.Exit skips deferred calls)
		alive := Or(Term{"(< " + final.ghost["exitCode"].S + " 0)", SBool}, final.ghost["panicking"])
		if d.recoverLit != nil {
			// recover() is non-nil exactly on the paths unwinding a panic: the process goes on (no exit status yet), the body of
			// the if runs, and the function returns normally
			pan := And(d.regPC, Term{"(>= " + final.ghost["exitCode"].S + " 0)", SBool}, final.ghost["panicking"])
			a, b := ex.fork(pan)
			ex.st = a
			if !a.dead() {
				ex.st.ghost["panicking"] = TFalse
				ex.st.ghost["exitCode"] = IntLit(-1)
				ifs := d.recoverLit.Body.List[0].(*ast.IfStmt)
				if as, ok := ifs.Init.(*ast.AssignStmt); ok && len(as.Lhs) == 1 {
					if id, ok := as.Lhs[0].(*ast.Ident); ok && id.Name != "_" {
						if v, ok := ex.info.Defs[id].(*types.Var); ok {
							r := ex.U.Fresh("recovered", SAny)
							ex.fact(Not(Eq(r, Term{"nilAny", SAny})))
							ex.declare(v, r)
						}
					}
				}
				ex.inDefer = true
				ex.block(ifs.Body.List)
				ex.inDefer = false
			}
			final = ex.merge(ex.st, b)
			if final == nil || ex.unsupported != "" {
				return
			}
			continue
		}
		a, b := ex.fork(And(d.regPC, alive))
		ex.st = a
		ex.preArgs = append([]Term{}, d.args...)
		ex.inDefer = true
		ex.call(d.call)
		ex.inDefer = false
		ex.preArgs = nil
		final = ex.merge(ex.st, b)
		if final == nil || ex.unsupported != "" {
			return
		}
	}
	if fi.Name == "main.main" {
		// the program's main function returned without ending the process: exit status 0
		ec := final.ghost["exitCode"]
		final.ghost["exitCode"] = Ite(Term{"(< " + ec.S + " 0)", SBool}, IntLit(0), ec)
	}
	ex.st = final
	names := copyNames(ex.params)
	for i, rv := range ex.resVars {
		names[rnames[i]] = final.vars[rv]
	}
	if len(ex.resVars) == 1 {
		names["result"] = final.vars[ex.resVars[0]]
	}
	for i, rv := range ex.resVars {
		if _, taken := names[fmt.Sprintf("result%d", i)]; !taken {
			names[fmt.Sprintf("result%d", i)] = final.vars[rv]
		}
	}
	if con != nil && !con.Assumed {
		for k, cl := range con.Of("ensures") {
			env := &SpecEnv{st: final, old: ex.entry, names: names, pkg: fi.Pkg.Types}
			t, err := ex.specTerm(cl.Expr, env)
			if err != nil {
				ex.contractError(cl, err)
				continue
			}
			id := cl.ID
			if id == "" {
				id = fmt.Sprintf("e%d", k+1)
			}
			ex.assertAt(final, fmt.Sprintf("post:%s#%s", fi.Name, id), "post", ex.clauseTags(cl), t, cl.Text, ex.P.pos(fi.Body()))
		}
	}
	// behavioural subtyping: interface contracts
	for _, ic := range ex.ifaceContractsFor() {
		for k, cl := range ic.Of("ensures") {
			env := &SpecEnv{st: final, old: ex.entry, names: ex.ifaceNames(final), pkg: fi.Pkg.Types}
			t, err := ex.specTerm(cl.Expr, env)
			if err != nil {
				ex.contractError(cl, err)
				continue
			}
			id := cl.ID
			if id == "" {
				id = fmt.Sprintf("e%d", k+1)
			}
			var ante []Term
			for _, r := range ifaceReq[ic] {
				if scopedTo(r.tags, cl.Tags) {
					ante = append(ante, r.t)
				}
			}
			ex.assertAt(final, fmt.Sprintf("post:%s#%s.%s", fi.Name, ic.Func, id), "post", ex.clauseTagsOf(cl, ic), Implies(And(ante...), t), cl.Text, ex.P.pos(fi.Body()))
		}
	}
	// canary: false must not be provable at the exit
	ex.obls = append(ex.obls, &Obligation{Name: "cover:" + fi.Name + "#exit", Kind: "cover", Tags: ex.allTags(), Goal: TFalse, PC: final.pc, NFacts: len(ex.facts), Text: "some path reaches the exit (canary: false is not provable)", Func: fi.Name, Expect: "sat", Pos: ex.P.pos(fi.Body())})
}

func (ex *Exec) assertAt(st *State, name, kind string, tags []string, goal Term, text, pos string) {
	saved := ex.st
	ex.st = st
	ex.assert(name, kind, tags, goal, text, pos)
	ex.st = saved
}

func (ex *Exec) allTags() []string {
	if ex.F.Contract != nil {
		if t := ex.F.Contract.AllTags(); len(t) > 0 {
			return append(t, "C17")
		}
	}
	return []string{"C17"}
}

func copyNames(m map[string]Term) map[string]Term {
	r := make(map[string]Term, len(m))
	for k, v := range m {
		r[k] = v
	}
	return r
}

// interface contracts this method must satisfy
func (ex *Exec) ifaceContractsFor() []*Contract {
	if ex.F.Obj == nil {
		return nil
	}
	sig := ex.F.Obj.Type().(*types.Signature)
	if sig.Recv() == nil {
		return nil
	}
	var res []*Contract
	for _, name := range sortedKeys(ex.P.IfaceContracts) {
		parts := strings.Split(name, ".")
		if parts[2] != ex.F.Obj.Name() {
			continue
		}
		it := ex.P.namedTypes[parts[0]+"."+parts[1]]
		if it == nil {
			continue
		}
		rt := sig.Recv().Type()
		if types.Implements(rt, it.Underlying().(*types.Interface)) {
			res = append(res, ex.P.IfaceContracts[name])
		}
	}
	return res
}

// names for an interface contract: self = boxed receiver, parameters by the implementation's names, result boxed
func (ex *Exec) ifaceNames(final *State) map[string]Term {
	sig := ex.F.Obj.Type().(*types.Signature)
	names := map[string]Term{}
	pn, rn := calleeNames(sig)
	recv := ex.params[pn[0]]
	names["self"] = ex.U.Box(sig.Recv().Type(), recv)
	for i := 0; i < sig.Params().Len(); i++ {
		names[fmt.Sprintf("arg%d", i)] = ex.params[pn[i+1]]
		names[pn[i+1]] = ex.params[pn[i+1]]
	}
	if final != nil {
		for i, rv := range ex.resVars {
			names[rn[i]] = final.vars[rv]
			names[fmt.Sprintf("result%d", i)] = final.vars[rv]
		}
		if len(ex.resVars) >= 1 {
			names["result"] = final.vars[ex.resVars[0]]
		}
	}
	return names
}

func nodeString(fset *token.FileSet, n ast.Node) string {
	if n == nil {
		return ""
	}
	switch x := n.(type) {
	case ast.Expr:
		if x == nil {
			return ""
		}
		return types.ExprString(x)
	case *ast.AssignStmt:
		if x == nil {
			return ""
		}
		var l, r []string
		for _, e := range x.Lhs {
			l = append(l, types.ExprString(e))
		}
		for _, e := range x.Rhs {
			r = append(r, types.ExprString(e))
		}
		return strings.Join(l, ", ") + " " + x.Tok.String() + " " + strings.Join(r, ", ")
	case *ast.IncDecStmt:
		if x == nil {
			return ""
		}
		return types.ExprString(x.X) + x.Tok.String()
	case *ast.ExprStmt:
		if x == nil {
			return ""
		}
		return types.ExprString(x.X)
	}
	return fmt.Sprintf("%T", n)
}
