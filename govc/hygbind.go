package main

// C07, second tier: names the generator invents (profile.Genvar and names derived from them by formatting) and then
// uses inside the Rego text of the same function must also be bound by that text. The templates of each generator function
// are evaluated symbolically from the typed AST: a local holding an invented name stands for a token, fmt.Sprintf and
// string concatenation are expanded, everything else is opaque. The obligation
//     hyg:<func>#invented-names-bound
// holds when every identifier built around a token that occurs in a using position also occurs in a binding position
// (x = ..., x := ..., comprehension head) somewhere in the templates of the function. A freshly invented name cannot be
// bound anywhere else: nobody else knows it - unless the function hands it to another function or returns it in a
// position from which a consumer binds it; names that only escape as values (struct fields of the result) are still
// expected to be bound here, and a bare name handed to another function as an argument is taken as possibly bound there
// (no alarm).

import (
	"fmt"
	"go/ast"
	"go/constant"
	"go/token"
	"go/types"
	"regexp"
	"sort"
	"strings"
)

const tokOpen, tokClose = "\x01", "\x02"

type hygEval struct {
	info   *types.Info
	sym    map[types.Object]string // local -> symbolic string (contains tokens)
	consts map[types.Object]string // local -> constant string
}

func (h *hygEval) constOf(e ast.Expr) (string, bool) {
	if tv, ok := h.info.Types[e]; ok && tv.Value != nil && tv.Value.Kind() == constant.String {
		return constant.StringVal(tv.Value), true
	}
	if id, ok := e.(*ast.Ident); ok {
		if o := h.info.Uses[id]; o != nil {
			if s, ok := h.consts[o]; ok {
				return s, true
			}
		}
	}
	return "", false
}

// eval returns the symbolic text of a string expression and whether it contains an invented-name token
func (h *hygEval) eval(e ast.Expr) (string, bool) {
	e = ast.Unparen(e)
	if s, ok := h.constOf(e); ok {
		return s, false
	}
	switch x := e.(type) {
	case *ast.Ident:
		if o := h.info.Uses[x]; o != nil {
			if s, ok := h.sym[o]; ok {
				return s, true
			}
		}
	case *ast.BinaryExpr:
		if x.Op == token.ADD {
			a, ta := h.eval(x.X)
			b, tb := h.eval(x.Y)
			return a + b, ta || tb
		}
	case *ast.CallExpr:
		if isPkgFunc(h.info, x, "fmt", "Sprintf") && len(x.Args) > 0 {
			if f, ok := h.constOf(x.Args[0]); ok {
				return h.sprintf(f, x.Args[1:])
			}
		}
		if isPkgFunc(h.info, x, repoMod+"/internal/parser/profile", "Genvar") {
			return "", false // handled at the assignment
		}
	}
	return "\x03", false // opaque
}

func (h *hygEval) sprintf(format string, args []ast.Expr) (string, bool) {
	var b strings.Builder
	tok := false
	ai := 0
	for i := 0; i < len(format); i++ {
		if format[i] != '%' {
			b.WriteByte(format[i])
			continue
		}
		i++
		if i >= len(format) {
			break
		}
		if format[i] == '%' {
			b.WriteByte('%')
			continue
		}
		for i < len(format) && strings.IndexByte("+-# 0123456789.", format[i]) >= 0 {
			i++
		}
		if ai < len(args) {
			s, t := h.eval(args[ai])
			if t {
				tok = true
			}
			b.WriteString(s)
			ai++
		} else {
			b.WriteString("\x03")
		}
	}
	return b.String(), tok
}

func isPkgFunc(info *types.Info, c *ast.CallExpr, pkg, name string) bool {
	sel, ok := c.Fun.(*ast.SelectorExpr)
	if !ok || sel.Sel.Name != name {
		return false
	}
	if fn, ok := info.Uses[sel.Sel].(*types.Func); ok && fn.Pkg() != nil {
		return fn.Pkg().Path() == pkg
	}
	return false
}

var reHygIdent = regexp.MustCompile(`[A-Za-z0-9_]*(?:` + tokOpen + `[A-Za-z0-9_]+` + tokClose + `[A-Za-z0-9_]*)+`)

func (p *Prog) hygBindObligations() []*Obligation {
	tags := []string{"C07"}
	var obls []*Obligation
	gpk := p.AllPkgs[repoMod+"/internal/generator"]
	if gpk == nil {
		return nil
	}
	var names []string
	for n, fi := range p.Funcs {
		if fi.Pkg == gpk && fi.Body() != nil && !strings.HasSuffix(p.Fset.Position(fi.Decl.Pos()).Filename, "_test.go") {
			names = append(names, n)
		}
	}
	sort.Strings(names)
	for _, n := range names {
		fi := p.Funcs[n]
		h := &hygEval{info: fi.Pkg.TypesInfo, sym: map[types.Object]string{}, consts: map[types.Object]string{}}
		escaped := map[string]bool{} // tokens handed to another repository function
		var texts []string
		assign := func(lhs ast.Expr, rhs ast.Expr) {
			id, ok := lhs.(*ast.Ident)
			if !ok {
				return
			}
			o := h.info.Defs[id]
			if o == nil {
				o = h.info.Uses[id]
			}
			if o == nil {
				return
			}
			if c, ok := ast.Unparen(rhs).(*ast.CallExpr); ok && isPkgFunc(h.info, c, repoMod+"/internal/parser/profile", "Genvar") {
				h.sym[o] = tokOpen + id.Name + tokClose
				return
			}
			if tv, ok := h.info.Types[rhs]; ok && tv.Value != nil && tv.Value.Kind() == constant.String {
				h.consts[o] = constant.StringVal(tv.Value)
				return
			}
			if s, t := h.eval(rhs); t && !strings.Contains(s, "\n") && !strings.ContainsAny(s, " \t=") {
				h.sym[o] = s // a derived name
			}
		}
		// pass 1, in source order: symbolic values of locals
		ast.Inspect(fi.Body(), func(nd ast.Node) bool {
			switch s := nd.(type) {
			case *ast.AssignStmt:
				if len(s.Lhs) == len(s.Rhs) {
					for i := range s.Lhs {
						assign(s.Lhs[i], s.Rhs[i])
					}
				}
			case *ast.ValueSpec:
				if len(s.Names) == len(s.Values) {
					for i := range s.Names {
						assign(s.Names[i], s.Values[i])
					}
				}
			}
			return true
		})
		if len(h.sym) == 0 {
			continue
		}
		// pass 2: every string built around a token; tokens passed to repository functions
		seenCall := map[*ast.CallExpr]bool{}
		ast.Inspect(fi.Body(), func(nd ast.Node) bool {
			switch x := nd.(type) {
			case *ast.CallExpr:
				if isPkgFunc(h.info, x, "fmt", "Sprintf") {
					if !seenCall[x] {
						if s, t := h.eval(x); t {
							texts = append(texts, s)
						}
						// nested Sprintf calls are part of this text
						for _, a := range x.Args {
							ast.Inspect(a, func(m ast.Node) bool {
								if c, ok := m.(*ast.CallExpr); ok {
									seenCall[c] = true
								}
								return true
							})
						}
					}
					return true
				}
				// a bare invented name handed to any other function (a repository helper, strings.ReplaceAll into
				// user-written Rego, ...) may be bound by text this function does not build
				if id, ok := x.Fun.(*ast.Ident); ok && (id.Name == "append" || id.Name == "len") {
					return true
				}
				if isPkgFunc(h.info, x, repoMod+"/internal/parser/profile", "Genvar") {
					return true
				}
				for _, a := range x.Args {
					if s, t := h.eval(a); t && reHygIdent.FindString(s) == s {
						escaped[s] = true
					}
				}
			case *ast.BinaryExpr:
				if x.Op == token.ADD {
					if s, t := h.eval(x); t {
						texts = append(texts, s)
						return false
					}
				}
			}
			return true
		})
		bound := map[string]bool{}
		used := map[string][]string{}
		for _, t := range texts {
			for _, loc := range reHygIdent.FindAllStringIndex(t, -1) {
				id := t[loc[0]:loc[1]]
				rest := strings.TrimLeft(t[loc[1]:], " \t")
				before := strings.TrimRight(t[:loc[0]], " \t")
				isBind := false
				if strings.HasPrefix(rest, ":=") || (strings.HasPrefix(rest, "=") && !strings.HasPrefix(rest, "==")) {
					// x = ... at the start of a statement; `a = x = b` does not occur in the templates
					if before == "" || strings.HasSuffix(before, "\n") || strings.HasSuffix(before, ";") || strings.HasSuffix(before, "{") || strings.HasSuffix(before, "|") {
						isBind = true
					}
				}
				if strings.HasPrefix(rest, "|") && (strings.HasSuffix(before, "[") || strings.HasSuffix(before, "{")) {
					isBind = true
				}
				if strings.HasPrefix(rest, "[") && strings.Contains(rest, "]") {
					// x[key] = v / x[v] { : partial definitions bind x
					r2 := strings.TrimLeft(rest[strings.Index(rest, "]")+1:], " \t")
					if (strings.HasPrefix(r2, "=") && !strings.HasPrefix(r2, "==")) || strings.HasPrefix(r2, "{") {
						if before == "" || strings.HasSuffix(before, "\n") {
							isBind = true
						}
					}
				}
				if isBind {
					bound[id] = true
				} else {
					line := t
					if i := strings.LastIndexByte(t[:loc[0]], '\n'); i >= 0 {
						line = t[i+1:]
					}
					if i := strings.IndexByte(line, '\n'); i >= 0 {
						line = line[:i]
					}
					used[id] = append(used[id], line)
				}
			}
		}
		var missing []string
		for id, lines := range used {
			if !bound[id] && !escaped[id] {
				missing = append(missing, fmt.Sprintf("%s is used (%s) but never bound by the templates of %s", hygShow(id), hygShow(strings.TrimSpace(lines[0])), n))
			}
		}
		sort.Strings(missing)
		var bs []string
		for id := range bound {
			bs = append(bs, hygShow(id))
		}
		sort.Strings(bs)
		pos := p.Fset.Position(fi.Decl.Pos())
		obls = append(obls, analysisObl("hyg:"+n+"#invented-names-bound", "hyg", tags, len(missing) == 0,
			"every name built around a freshly invented name (profile.Genvar) that the function's Rego templates use is also bound by them; bound: "+strings.Join(bs, " "),
			fmt.Sprintf("%s:%d", strings.TrimPrefix(pos.Filename, p.RepoDir+"/"), pos.Line), strings.Join(missing, "\n"), n))
	}
	return obls
}

func hygShow(s string) string {
	s = strings.ReplaceAll(s, tokOpen, "<")
	s = strings.ReplaceAll(s, tokClose, ">")
	return strings.ReplaceAll(s, "\x03", "…")
}
