package main

import (
	"fmt"
	"go/ast"
	"go/token"
	"go/types"
	"regexp"
	"sort"
	"strings"
)

func (ex *Exec) block(stmts []ast.Stmt) {
	for _, s := range stmts {
		if ex.st.dead() || ex.unsupported != "" {
			return
		}
		ex.stmt(s)
	}
}

func (ex *Exec) fork(c Term) (*State, *State) {
	a := ex.st.clone()
	b := ex.st.clone()
	ex.pcAnd(a, c)
	ex.pcAnd(b, Not(c))
	return a, b
}

func (ex *Exec) stmt(s ast.Stmt) {
	switch x := s.(type) {
	case *ast.BlockStmt:
		ex.block(x.List)
	case *ast.EmptyStmt:
	case *ast.ExprStmt:
		if c, ok := x.X.(*ast.CallExpr); ok {
			ex.call(c)
		} else {
			ex.expr(x.X)
		}
	case *ast.DeclStmt:
		gd, ok := x.Decl.(*ast.GenDecl)
		if !ok || gd.Tok != token.VAR {
			return
		}
		for _, sp := range gd.Specs {
			vs := sp.(*ast.ValueSpec)
			if len(vs.Values) == 1 && len(vs.Names) > 1 {
				rs := ex.multi(vs.Values[0], len(vs.Names))
				for i, n := range vs.Names {
					if v, ok := ex.info.Defs[n].(*types.Var); ok {
						ex.declare(v, ex.coerce(rs[i], nil, nil))
					}
				}
				continue
			}
			for i, n := range vs.Names {
				v, ok := ex.info.Defs[n].(*types.Var)
				if !ok {
					continue
				}
				if i < len(vs.Values) {
					ex.declare(v, ex.coerce(ex.expr(vs.Values[i]), ex.info.TypeOf(vs.Values[i]), v.Type()))
				} else {
					ex.declare(v, ex.U.Zero(ex.U.SortOf(v.Type())))
				}
			}
		}
	case *ast.AssignStmt:
		ex.assign(x)
	case *ast.IncDecStmt:
		v := ex.expr(x.X)
		op := "+"
		if x.Tok == token.DEC {
			op = "-"
		}
		ex.assignTo(x.X, Term{"(" + op + " " + v.S + " 1)", SInt}, ex.info.TypeOf(x.X))
	case *ast.IfStmt:
		if x.Init != nil {
			ex.stmt(x.Init)
		}
		c := ex.expr(x.Cond)
		a, b := ex.fork(c)
		ex.st = a
		ex.block(x.Body.List)
		aEnd := ex.st
		ex.st = b
		if x.Else != nil {
			ex.stmt(x.Else)
		}
		ex.st = ex.merge(aEnd, ex.st)
	case *ast.ReturnStmt:
		ex.ret(x)
	case *ast.ForStmt:
		ex.forStmt(x, "")
	case *ast.RangeStmt:
		ex.rangeStmt(x, "")
	case *ast.LabeledStmt:
		switch b := x.Stmt.(type) {
		case *ast.ForStmt:
			ex.forStmt(b, x.Label.Name)
		case *ast.RangeStmt:
			ex.rangeStmt(b, x.Label.Name)
		default:
			ex.stmt(x.Stmt)
		}
	case *ast.SwitchStmt:
		ex.switchStmt(x)
	case *ast.TypeSwitchStmt:
		ex.typeSwitch(x)
	case *ast.BranchStmt:
		ex.branch(x)
	case *ast.SendStmt:
		ex.send(x)
	case *ast.GoStmt:
		ex.unsupported = "goroutine start at " + ex.P.pos(x)
	case *ast.DeferStmt:
		if lit, isLit := unparen(x.Call.Fun).(*ast.FuncLit); isLit && isRecoverIdiom(lit) && ex.isCmdPkg() && len(ex.loops) == 0 {
			// in the CLI a panic is the failure exit (status 2): a deferred recover turns it back into a normal return
			ex.deferred = append(ex.deferred, &deferred{recoverLit: lit, regPC: ex.st.pc})
			return
		}
		if lit, isLit := unparen(x.Call.Fun).(*ast.FuncLit); isLit && isRecoverIdiom(lit) {
			// defer func() { if r := recover(); r != nil { <set results> } }(): only runs its body on a panicking path, and
			// panics are not control flow in this model (each panic site is its own safe: obligation), so returns are unaffected
			ex.note("deferred recover(): a panic below this frame becomes a return through the body of the recover (an extra return path with everything the function may touch unknown)")
			if len(ex.loops) == 0 && len(ex.inlineStack) == 0 {
				ex.recoverLits = append(ex.recoverLits, lit)
			}
			return
		}
		if _, isLit := unparen(x.Call.Fun).(*ast.FuncLit); isLit || len(ex.loops) > 0 {
			ex.unsupported = "defer of a closure / inside a loop at " + ex.P.pos(x)
			return
		}
		// arguments are evaluated now, the call runs at function exit on the paths that passed here
		d := &deferred{call: x.Call, regPC: ex.st.pc}
		if se, ok := unparen(x.Call.Fun).(*ast.SelectorExpr); ok {
			if _, isSel := ex.info.Selections[se]; isSel {
				if fn, ok := ex.info.Uses[se.Sel].(*types.Func); ok {
					d.args = append(d.args, ex.recvValue(se, fn.Type().(*types.Signature)))
				}
			}
		}
		for _, a := range x.Call.Args {
			d.args = append(d.args, ex.expr(a))
		}
		ex.deferred = append(ex.deferred, d)
	case *ast.SelectStmt:
		ex.unsupported = "select at " + ex.P.pos(x)
	default:
		ex.unsupported = fmt.Sprintf("statement %T at %s", s, ex.P.pos(s))
	}
}

// multi evaluates an expression yielding n values (call, map index with ok, type assertion with ok)
func (ex *Exec) multi(e ast.Expr, n int) []Term {
	for {
		if p, ok := e.(*ast.ParenExpr); ok {
			e = p.X
		} else {
			break
		}
	}
	switch x := e.(type) {
	case *ast.CallExpr:
		rs := ex.call(x)
		for len(rs) < n {
			rs = append(rs, ex.U.Fresh("r", SAny))
		}
		return rs
	case *ast.IndexExpr:
		bt := ex.info.TypeOf(x.X)
		if mt, ok := bt.Underlying().(*types.Map); ok {
			m := ex.expr(x.X)
			k := ex.coerce(ex.expr(x.Index), ex.info.TypeOf(x.Index), mt.Key())
			if m.Sort.Kind == KRef && m.Sort.IsMap {
				v, has := ex.mapGet(m.Sort, m, k)
				return []Term{v, has}
			}
		}
	case *ast.TypeAssertExpr:
		v := ex.expr(x.X)
		t := ex.info.TypeOf(x.Type)
		if v.Sort.Kind == KAny {
			ok := ex.U.IsType(v, t)
			ts := ex.U.SortOf(t)
			if ts.Kind == KAny {
				return []Term{Ite(ok, v, Term{"nilAny", SAny}), ok}
			}
			return []Term{ex.wf(Ite(ok, ex.U.Unbox(t, v), ex.U.Zero(ts))), ok}
		}
	case *ast.UnaryExpr:
		if x.Op == token.ARROW {
			ex.note("havoc: channel receive")
		}
	}
	ex.note("havoc: multi-value expression " + exprString(e))
	var rs []Term
	if tup, ok := ex.info.TypeOf(e).(*types.Tuple); ok {
		for i := 0; i < tup.Len(); i++ {
			rs = append(rs, ex.U.Fresh("r", ex.U.SortOf(tup.At(i).Type())))
		}
	}
	for len(rs) < n {
		rs = append(rs, ex.U.Fresh("r", SBool))
	}
	return rs
}

func (ex *Exec) assign(x *ast.AssignStmt) {
	if x.Tok != token.ASSIGN && x.Tok != token.DEFINE {
		// op-assign
		op := map[token.Token]token.Token{token.ADD_ASSIGN: token.ADD, token.SUB_ASSIGN: token.SUB, token.MUL_ASSIGN: token.MUL, token.QUO_ASSIGN: token.QUO, token.REM_ASSIGN: token.REM}[x.Tok]
		be := &ast.BinaryExpr{X: x.Lhs[0], Op: op, Y: x.Rhs[0], OpPos: x.TokPos}
		a := ex.expr(x.Lhs[0])
		b := ex.expr(x.Rhs[0])
		var v Term
		switch {
		case a.Sort.Kind == KInt && (op == token.ADD || op == token.SUB || op == token.MUL):
			v = Term{app(map[token.Token]string{token.ADD: "+", token.SUB: "-", token.MUL: "*"}[op], a, b), SInt}
		case a.Sort.Kind == KString && op == token.ADD:
			v = Term{app("str.++", a, b), SString}
		default:
			_ = be
			ex.note("havoc: op-assign " + x.Tok.String())
			v = ex.U.Fresh("opassign", a.Sort)
		}
		ex.assignTo(x.Lhs[0], v, ex.info.TypeOf(x.Lhs[0]))
		return
	}
	if len(x.Lhs) == len(x.Rhs) {
		vals := make([]Term, len(x.Rhs))
		for i, r := range x.Rhs {
			vals[i] = ex.expr(r)
		}
		for i, l := range x.Lhs {
			ex.assignTo(l, vals[i], ex.info.TypeOf(x.Rhs[i]))
		}
		return
	}
	if len(x.Rhs) == 1 {
		rs := ex.multi(x.Rhs[0], len(x.Lhs))
		var tys []types.Type
		if tup, ok := ex.info.TypeOf(x.Rhs[0]).(*types.Tuple); ok {
			for i := 0; i < tup.Len(); i++ {
				tys = append(tys, tup.At(i).Type())
			}
		}
		for i, l := range x.Lhs {
			var ty types.Type
			if i < len(tys) {
				ty = tys[i]
			} else if i == 0 {
				// v, ok := m[k] / x.(T): value type is the expression's type
				if tv, ok := ex.info.Types[x.Rhs[0]]; ok {
					if tup, ok := tv.Type.(*types.Tuple); ok && tup.Len() > 0 {
						ty = tup.At(0).Type()
					} else {
						ty = tv.Type
					}
				}
			}
			ex.assignTo(l, rs[i], ty)
		}
		return
	}
	ex.unsupported = "assignment shape at " + ex.P.pos(x)
}

func (ex *Exec) ret(x *ast.ReturnStmt) {
	n := len(ex.resVars)
	if len(x.Results) == n {
		vals := make([]Term, n)
		for i, r := range x.Results {
			vals[i] = ex.coerce(ex.expr(r), ex.info.TypeOf(r), ex.resVars[i].Type())
		}
		for i := range vals {
			ex.st.vars[ex.resVars[i]] = ex.def(ex.resNames[i], vals[i])
		}
	} else if len(x.Results) == 1 && n > 1 {
		rs := ex.multi(x.Results[0], n)
		var tys []types.Type
		if tup, ok := ex.info.TypeOf(x.Results[0]).(*types.Tuple); ok {
			for i := 0; i < tup.Len(); i++ {
				tys = append(tys, tup.At(i).Type())
			}
		}
		for i := range rs {
			var ty types.Type
			if i < len(tys) {
				ty = tys[i]
			}
			ex.st.vars[ex.resVars[i]] = ex.def(ex.resNames[i], ex.coerce(rs[i], ty, ex.resVars[i].Type()))
		}
	}
	if ex.st.dead() {
		return
	}
	ex.returns = append(ex.returns, ex.st)
	ex.st = ex.st.clone()
	ex.kill()
}

func (ex *Exec) branch(x *ast.BranchStmt) {
	label := ""
	if x.Label != nil {
		label = x.Label.Name
	}
	for i := len(ex.loops) - 1; i >= 0; i-- {
		l := ex.loops[i]
		if label != "" && l.label != label {
			continue
		}
		switch x.Tok {
		case token.BREAK:
			l.breaks = append(l.breaks, ex.st)
			ex.st = ex.st.clone()
			ex.kill()
			return
		case token.CONTINUE:
			if l.isSwitch {
				continue
			}
			l.conts = append(l.conts, ex.st)
			ex.st = ex.st.clone()
			ex.kill()
			return
		}
	}
	ex.unsupported = "branch statement " + x.Tok.String() + " at " + ex.P.pos(x)
}

func (ex *Exec) switchStmt(x *ast.SwitchStmt) {
	if x.Init != nil {
		ex.stmt(x.Init)
	}
	var tag Term
	hasTag := x.Tag != nil
	if hasTag {
		tag = ex.expr(x.Tag)
	}
	ctx := &loopCtx{isSwitch: true}
	ex.loops = append(ex.loops, ctx)
	remaining := ex.st
	var end *State
	var deflt *ast.CaseClause
	for _, c := range x.Body.List {
		cc := c.(*ast.CaseClause)
		if cc.List == nil {
			deflt = cc
			continue
		}
		ex.st = remaining
		var alts []Term
		for _, e := range cc.List {
			v := ex.expr(e)
			if hasTag {
				if tag.Sort.Kind == KAny && v.Sort.Kind != KAny {
					v = ex.coerce(v, ex.info.TypeOf(e), ex.info.TypeOf(x.Tag))
				}
				alts = append(alts, Eq(tag, v))
			} else {
				alts = append(alts, v)
			}
		}
		cond := Or(alts...)
		a, b := ex.fork(cond)
		ex.st = a
		ex.block(cc.Body)
		if len(cc.Body) > 0 {
			if br, ok := cc.Body[len(cc.Body)-1].(*ast.BranchStmt); ok && br.Tok == token.FALLTHROUGH {
				ex.unsupported = "fallthrough at " + ex.P.pos(br)
			}
		}
		end = ex.merge(end, ex.st)
		remaining = b
	}
	ex.st = remaining
	if deflt != nil {
		ex.block(deflt.Body)
	}
	end = ex.merge(end, ex.st)
	for _, b := range ctx.breaks {
		end = ex.merge(end, b)
	}
	ex.loops = ex.loops[:len(ex.loops)-1]
	ex.st = end
}

func (ex *Exec) typeSwitch(x *ast.TypeSwitchStmt) {
	if x.Init != nil {
		ex.stmt(x.Init)
	}
	var subject ast.Expr
	switch a := x.Assign.(type) {
	case *ast.ExprStmt:
		subject = a.X.(*ast.TypeAssertExpr).X
	case *ast.AssignStmt:
		subject = a.Rhs[0].(*ast.TypeAssertExpr).X
	}
	v := ex.expr(subject)
	if v.Sort.Kind != KAny {
		ex.unsupported = "type switch on non-interface at " + ex.P.pos(x)
		return
	}
	ctx := &loopCtx{isSwitch: true}
	ex.loops = append(ex.loops, ctx)
	remaining := ex.st
	var end *State
	var deflt *ast.CaseClause
	for _, c := range x.Body.List {
		cc := c.(*ast.CaseClause)
		if cc.List == nil {
			deflt = cc
			continue
		}
		var alts []Term
		var single types.Type
		for _, te := range cc.List {
			if id, ok := te.(*ast.Ident); ok && id.Name == "nil" {
				alts = append(alts, Eq(v, Term{"nilAny", SAny}))
				continue
			}
			t := ex.info.TypeOf(te)
			alts = append(alts, ex.U.IsType(v, t))
			single = t
		}
		ex.st = remaining
		a, b := ex.fork(Or(alts...))
		ex.st = a
		if iv, ok := ex.info.Implicits[cc].(*types.Var); ok {
			if len(cc.List) == 1 && single != nil && ex.U.SortOf(single).Kind != KAny {
				ex.declare(iv, ex.wf(ex.U.Unbox(single, v)))
			} else {
				ex.declare(iv, v)
			}
		}
		ex.block(cc.Body)
		end = ex.merge(end, ex.st)
		remaining = b
	}
	ex.st = remaining
	if deflt != nil {
		if iv, ok := ex.info.Implicits[deflt].(*types.Var); ok {
			ex.declare(iv, v)
		}
		ex.block(deflt.Body)
	}
	end = ex.merge(end, ex.st)
	for _, b := range ctx.breaks {
		end = ex.merge(end, b)
	}
	ex.loops = ex.loops[:len(ex.loops)-1]
	ex.st = end
}

// --- loops ---------------------------------------------------------------------------------------------

// assignedVars collects local variables that may be assigned inside n
func (ex *Exec) assignedVars(n ast.Node) []*types.Var {
	seen := map[*types.Var]bool{}
	var out []*types.Var
	add := func(e ast.Expr) {
		if ex.storesThroughReference(e) {
			return // the variable itself keeps its value: the store goes to the heap (havocked through the effect summary)
		}
		v, _ := rootVar(ex.info, e)
		if v != nil && !isPkgLevel(v) && !seen[v] {
			seen[v] = true
			out = append(out, v)
		}
	}
	ast.Inspect(n, func(nd ast.Node) bool {
		switch x := nd.(type) {
		case *ast.AssignStmt:
			for _, l := range x.Lhs {
				add(l)
			}
		case *ast.IncDecStmt:
			add(x.X)
		case *ast.RangeStmt:
			if x.Key != nil {
				add(x.Key)
			}
			if x.Value != nil {
				add(x.Value)
			}
		case *ast.CallExpr:
			// sort.Sort(x) permutes x in place
			if se, ok := x.Fun.(*ast.SelectorExpr); ok {
				if fn, ok := ex.info.Uses[se.Sel].(*types.Func); ok && fn.Pkg() != nil && fn.Pkg().Path() == "sort" && len(x.Args) == 1 {
					add(x.Args[0])
				}
			}
		}
		return true
	})
	return out
}

// nodeEffects: transitive effects of a piece of this function's body
func (ex *Exec) nodeEffects(n ast.Node) *Effects {
	tmp := &FuncInfo{Name: ex.F.Name, Pkg: ex.F.Pkg, File: ex.F.File, Decl: &ast.FuncDecl{Body: &ast.BlockStmt{}}}
	e := ex.P.effectsOfNode(tmp, n, ex.U)
	ex.P.closeEffects(e, ex.F.Name)
	return e
}

func (ex *Exec) havocEffects(e *Effects) {
	for _, h := range sortedKeys(e.Heaps) {
		ex.havocHeap(h)
	}
	for g := range e.Globals {
		ex.global(ex.st, g)
		ex.st.globals[g] = ex.U.Fresh("G_"+g.Name(), ex.U.SortOf(g.Type()))
	}
	oldClock := ex.st.ghost["evClock"]
	for _, gv := range ghostVars {
		if gv.Cat != "alloc" && e.Ghost[gv.Cat] {
			ex.st.ghost[gv.Name] = ex.U.Fresh(gv.Name, gv.Sort)
		}
	}
	if e.Ghost["clock"] {
		ex.facts = append(ex.facts, fmt.Sprintf("(>= %s %s)", ex.st.ghost["evClock"].S, oldClock.S))
	}
	if e.Ghost["clock"] || e.Ghost["chan"] {
		// global invariant of the event-time ghost state (maintained by every send, see ghost.go)
		ex.facts = append(ex.facts, fmt.Sprintf("(<= %s %s)", ex.st.ghost["evLastTime"].S, ex.st.ghost["evClock"].S), fmt.Sprintf("(>= %s 0)", ex.st.ghost["evLastTime"].S))
	}
	// allocation may have happened
	a := ex.st.ghost["alloc"]
	na := ex.U.Fresh("alloc", SInt)
	ex.facts = append(ex.facts, fmt.Sprintf("(>= %s %s)", na.S, a.S))
	ex.st.ghost["alloc"] = na
}

type loopSpec struct {
	exprAlias string   // field chain the contract's header ranges over where the code ranges over something else
	node      ast.Node // the loop statement
	alias     string   // identifier the contract's header ranges over where the code now has an expression
	ord       int
	lc        *LoopContract
	idx       Term
	hasIdx    bool
}

func (ex *Exec) loopInvariants(ls *loopSpec, phase string, pos string) {
	if ls.lc == nil {
		return
	}
	ex.guessLoop = ls.node
	defer func() { ex.guessLoop = nil }()
	for k, inv := range ls.lc.Inv {
		env := ex.envHere()
		env.loopIdx, env.hasIdx = ls.idx, ls.hasIdx
		t, err := ex.specTerm(inv.Expr, env)
		if err != nil {
			ex.contractError(inv, err)
			continue
		}
		id := inv.ID
		if id == "" {
			id = fmt.Sprintf("%d", k+1)
		}
		name := fmt.Sprintf("%s:%s#loop%d#%s", phase, ex.F.Name, ls.ord, id)
		ex.assert(name, phase, ex.clauseTags(inv), t, inv.Text, pos)
	}
}

func (ex *Exec) assumeInvariants(ls *loopSpec) {
	if ls.lc == nil {
		return
	}
	ex.guessLoop = ls.node
	defer func() { ex.guessLoop = nil }()
	for _, inv := range ls.lc.Inv {
		env := ex.envHere()
		env.loopIdx, env.hasIdx = ls.idx, ls.hasIdx
		t, err := ex.specTerm(inv.Expr, env)
		if err != nil {
			ex.contractError(inv, err)
			continue
		}
		ex.fact(t)
	}
}

func (ex *Exec) beginLoop(node ast.Node, header string) *loopSpec {
	ex.loopOrd++
	ls := &loopSpec{ord: ex.loopOrd, node: node}
	c := ex.F.Contract
	if c == nil || len(c.Loops) == 0 {
		ex.adoptOrphanLoop(ls, header)
		return ls
	}
	h := normSpace(header)
	// the contract loop of this ordinal when its header text agrees (the normal case)
	if lc := c.Loops[ls.ord]; lc != nil && !lc.seen && (lc.Header == "" || normSpace(lc.Header) == h) {
		ls.lc = lc
		lc.seen = true
		return ls
	}
	// otherwise the first contract loop not yet used that was written for this header: loops were added or removed around it.
	// Obligation names and #i@k references follow the contract's numbering
	var ords []int
	for k := range c.Loops {
		ords = append(ords, k)
	}
	sort.Ints(ords)
	for _, k := range ords {
		lc := c.Loops[k]
		if !lc.seen && lc.Header != "" && normSpace(lc.Header) == h {
			ls.lc = lc
			ls.ord = k
			lc.seen = true
			ex.note(fmt.Sprintf("loop contract %d of %s bound by its header to loop %d of the code", k, ex.F.Name, ex.loopOrd))
			return ls
		}
	}
	// no contract loop was written for this header. If the contract has an unused loop at this position whose header no
	// later loop of the code carries, the header was edited (a renamed variable, a range expression moved into a local): bind
	// by position and translate the identifiers the two headers show to be renamed. Whether the invariants still fit is then
	// decided by their obligations.
	if lc := c.Loops[ls.ord]; lc != nil && !lc.seen {
		later := false
		for _, lh := range ex.codeLoopHeaders() {
			if lh == normSpace(lc.Header) {
				later = true
			}
		}
		if !later && sameLoopKind(lc.Header, header) {
			ls.lc = lc
			lc.seen = true
			if ca, cb := reRangeHeader.FindStringSubmatch(strings.TrimSpace(lc.Header)), reRangeHeader.FindStringSubmatch(strings.TrimSpace(header)); ca != nil && cb != nil {
				if isId := regexp.MustCompile(`^\w+$`).MatchString; isId(ca[3]) && !isId(cb[3]) {
					ls.alias = ca[3]
				} else if regexp.MustCompile(`^\w+(\.\w+)+$`).MatchString(ca[3]) && normSpace(ca[3]) != normSpace(cb[3]) {
					ls.exprAlias = ca[3]
				}
			}
			for a, b := range alignHeaders(lc.Header, header) {
				if ex.loopRename == nil {
					ex.loopRename = map[string]string{}
				}
				ex.loopRename[a] = b
			}
			ex.note(fmt.Sprintf("loop contract %d of %s bound by position: header %q is now %q", ls.ord, ex.F.Name, lc.Header, header))
			return ls
		}
		ex.P.bindProblem(ex.F.Name, fmt.Sprintf("%s: loop %d header mismatch: contract %q, code %q", ex.F.Name, ls.ord, lc.Header, header))
	}
	ls.ord = 100 + ex.loopOrd
	ex.adoptOrphanLoop(ls, header)
	return ls
}

// adoptOrphanLoop: a loop without contract in a function whose package has a contract for a function that no longer
// exists: if that contract describes a loop of this shape, the function was inlined into this one and its invariant is
// tried here (a guessed binding: a failing proof is undecided)
func (ex *Exec) adoptOrphanLoop(ls *loopSpec, header string) {
	if ls.lc != nil || ex.F.Contract == nil {
		return
	}
	pk := ex.F.Name
	if i := strings.Index(pk, "."); i >= 0 {
		pk = pk[:i]
	}
	if len(ex.P.OrphanPkgs[pk]) == 0 {
		return
	}
	for _, oc := range ex.P.Contracts {
		if oc.bound || !strings.HasPrefix(oc.Func, pk+".") {
			continue
		}
		var ords []int
		for k := range oc.Loops {
			ords = append(ords, k)
		}
		sort.Ints(ords)
		for _, k := range ords {
			lc := oc.Loops[k]
			if lc.seen || lc.Header == "" || !sameLoopKind(lc.Header, header) {
				continue
			}
			ren := alignHeaders(lc.Header, header)
			if normSpace(lc.Header) != normSpace(header) && len(ren) == 0 {
				continue
			}
			lc.seen = true
			ls.lc = lc
			for a, b := range ren {
				if ex.loopRename == nil {
					ex.loopRename = map[string]string{}
				}
				ex.loopRename[a] = b
			}
			if ex.P.ApproxBind == nil {
				ex.P.ApproxBind = map[string][]string{}
			}
			ex.P.ApproxBind[ex.F.Name] = append(ex.P.ApproxBind[ex.F.Name], fmt.Sprintf("%s: loop %q adopts the invariant written for loop %d of %s, which no longer exists", ex.F.Name, header, k, oc.Func))
			return
		}
	}
}

// codeLoopHeaders: the normalised headers of the loops of the function being executed, in source order
func (ex *Exec) codeLoopHeaders() []string {
	var hs []string
	if ex.F.Body() == nil {
		return nil
	}
	ast.Inspect(ex.F.Body(), func(nd ast.Node) bool {
		switch x := nd.(type) {
		case *ast.ForStmt:
			hdr := "for "
			if x.Init != nil || x.Post != nil {
				hdr += nodeString(ex.P.Fset, x.Init) + "; " + nodeString(ex.P.Fset, x.Cond) + "; " + nodeString(ex.P.Fset, x.Post)
			} else {
				hdr += nodeString(ex.P.Fset, x.Cond)
			}
			hs = append(hs, normSpace(hdr))
		case *ast.RangeStmt:
			hdr := "for "
			if x.Key != nil {
				hdr += exprString(x.Key)
				if x.Value != nil {
					hdr += ", " + exprString(x.Value)
				}
				hdr += " " + x.Tok.String() + " "
			}
			hdr += "range " + exprString(x.X)
			hs = append(hs, normSpace(hdr))
		}
		return true
	})
	return hs
}

var reRangeHeader = regexp.MustCompile(`^for\s+(?:(\w+)\s*(?:,\s*(\w+))?\s*:?=\s*)?range\s+(.+)$`)
var reForHeader = regexp.MustCompile(`^for\s+(\w+)\s*:=`)

func sameLoopKind(a, b string) bool {
	ra, rb := reRangeHeader.MatchString(strings.TrimSpace(a)), reRangeHeader.MatchString(strings.TrimSpace(b))
	return ra == rb
}

// alignHeaders: identifiers of the contract's loop header and what stands in their place in the code's header
func alignHeaders(contract, code string) map[string]string {
	m := map[string]string{}
	// token-wise: the two headers have the same shape and differ only in identifiers (for i := 0; i < size; i++ ~ for idx := 0; idx < count; idx++)
	reTok := regexp.MustCompile(`[A-Za-z_][A-Za-z0-9_]*|[0-9]+|\S`)
	ta, tb := reTok.FindAllString(contract, -1), reTok.FindAllString(code, -1)
	if len(ta) == len(tb) {
		isIdentTok := regexp.MustCompile(`^[A-Za-z_][A-Za-z0-9_]*$`).MatchString
		ok := true
		tm := map[string]string{}
		for i := range ta {
			if ta[i] == tb[i] {
				continue
			}
			if !isIdentTok(ta[i]) || !isIdentTok(tb[i]) || ta[i] == "range" || tb[i] == "range" || ta[i] == "for" {
				ok = false
				break
			}
			if prev, seen := tm[ta[i]]; seen && prev != tb[i] {
				ok = false
				break
			}
			tm[ta[i]] = tb[i]
		}
		if ok {
			for a, b := range tm {
				if a != "_" && b != "_" {
					m[a] = b
				}
			}
			return m
		}
	}
	isIdent := regexp.MustCompile(`^\w+$`).MatchString
	ca, cb := reRangeHeader.FindStringSubmatch(strings.TrimSpace(contract)), reRangeHeader.FindStringSubmatch(strings.TrimSpace(code))
	if ca != nil && cb != nil {
		for i := 1; i <= 3; i++ {
			if ca[i] != "" && cb[i] != "" && ca[i] != cb[i] && ca[i] != "_" && cb[i] != "_" && isIdent(ca[i]) && isIdent(cb[i]) {
				m[ca[i]] = cb[i]
			}
		}
		return m
	}
	fa, fb := reForHeader.FindStringSubmatch(strings.TrimSpace(contract)), reForHeader.FindStringSubmatch(strings.TrimSpace(code))
	if fa != nil && fb != nil && fa[1] != fb[1] {
		m[fa[1]] = fb[1]
	}
	return m
}

func normSpace(s string) string {
	var out []rune
	for _, r := range s {
		if r != ' ' && r != '\t' && r != '\n' {
			out = append(out, r)
		}
	}
	return string(out)
}

func (ex *Exec) havocLoop(body ast.Node, extra ...ast.Node) {
	nodes := append([]ast.Node{body}, extra...)
	for _, n := range nodes {
		if n == nil {
			continue
		}
		for _, v := range ex.assignedVars(n) {
			if ex.boxed[v] {
				continue
			}
			if _, ok := ex.st.vars[v]; ok {
				ex.st.vars[v] = ex.U.Fresh(v.Name(), ex.U.SortOf(v.Type()))
			}
		}
		ex.havocEffects(ex.nodeEffects(n))
	}
}

func (ex *Exec) forStmt(x *ast.ForStmt, label string) {
	if x.Init != nil {
		ex.stmt(x.Init)
	}
	if rs := ex.asRangeLoop(x); rs != nil {
		ex.rangeStmt(rs, label)
		return
	}
	hdr := "for "
	if x.Init != nil || x.Post != nil {
		hdr += nodeString(ex.P.Fset, x.Init) + "; " + nodeString(ex.P.Fset, x.Cond) + "; " + nodeString(ex.P.Fset, x.Post)
	} else {
		hdr += nodeString(ex.P.Fset, x.Cond)
	}
	ls := ex.beginLoop(x, hdr)
	pos := ex.P.pos(x)
	ex.loopInvariants(ls, "inv-init", pos)
	var extra []ast.Node
	if x.Post != nil {
		extra = append(extra, x.Post)
	}
	if x.Cond != nil {
		extra = append(extra, x.Cond)
	}
	ex.havocLoop(x.Body, extra...)
	ex.assumeInvariants(ls)
	c := TTrue
	if x.Cond != nil {
		c = ex.expr(x.Cond)
	}
	bodySt, exitSt := ex.fork(c)
	ctx := &loopCtx{ordinal: ls.ord, label: label}
	ex.loops = append(ex.loops, ctx)
	ex.st = bodySt
	ex.block(x.Body.List)
	for _, cs := range ctx.conts {
		ex.st = ex.merge(ex.st, cs)
	}
	if x.Post != nil && !ex.st.dead() {
		ex.stmt(x.Post)
	}
	ex.loopInvariants(ls, "inv-step", pos)
	ex.loops = ex.loops[:len(ex.loops)-1]
	ex.st = exitSt
	for _, b := range ctx.breaks {
		ex.st = ex.merge(ex.st, b)
	}
}

func (ex *Exec) rangeStmt(x *ast.RangeStmt, label string) {
	hdr := "for "
	if x.Key != nil {
		hdr += exprString(x.Key)
		if x.Value != nil {
			hdr += ", " + exprString(x.Value)
		}
		hdr += " " + x.Tok.String() + " "
	}
	hdr += "range " + exprString(x.X)
	ls := ex.beginLoop(x, hdr)
	pos := ex.P.pos(x)
	coll := ex.expr(x.X)
	if ls.exprAlias != "" {
		if ex.loopExprAlias == nil {
			ex.loopExprAlias = map[string]Term{}
		}
		ex.loopExprAlias[ls.exprAlias] = coll
	}
	if ls.alias != "" {
		if ex.loopAlias == nil {
			ex.loopAlias = map[string]Term{}
		}
		ex.loopAlias[ls.alias] = coll
	}
	ct := ex.info.TypeOf(x.X)
	bind := func(e ast.Expr, val Term, ty types.Type) {
		if e == nil {
			return
		}
		if id, ok := e.(*ast.Ident); ok && id.Name == "_" {
			return
		}
		ex.assignTo(e, val, ty)
	}
	ctx := &loopCtx{ordinal: ls.ord, label: label}
	switch ut := ct.Underlying().(type) {
	case *types.Slice, *types.Array:
		if coll.Sort.Kind != KSeq {
			ex.unsupported = "range over opaque slice at " + pos
			return
		}
		var elemT types.Type
		if sl, ok := ut.(*types.Slice); ok {
			elemT = sl.Elem()
		} else {
			elemT = ut.(*types.Array).Elem()
		}
		coll = ex.def("rng", coll)
		n := ex.U.SeqLen(coll)
		ls.hasIdx = true
		ls.idx = IntLit(0)
		ex.loopIdxByOrd[ls.ord] = ls.idx
		ex.loopInvariants(ls, "inv-init", pos)
		ex.havocLoop(x.Body)
		idx := ex.U.Fresh("i", SInt)
		ex.fact(And(Term{"(<= 0 " + idx.S + ")", SBool}, Term{"(<= " + idx.S + " " + n.S + ")", SBool}))
		ls.idx = idx
		ex.loopIdxByOrd[ls.ord] = idx
		ex.assumeInvariants(ls)
		bodySt, exitSt := ex.fork(Term{"(< " + idx.S + " " + n.S + ")", SBool})
		ex.loops = append(ex.loops, ctx)
		ctx.idx, ctx.hasIdx = idx, true
		ex.st = bodySt
		bind(x.Key, idx, types.Typ[types.Int])
		ev := ex.wf(ex.U.SeqAt(coll, idx))
		ex.closedWorld(ev, elemT)
		bind(x.Value, ev, elemT)
		ex.block(x.Body.List)
		for _, cs := range ctx.conts {
			ex.st = ex.merge(ex.st, cs)
		}
		ls.idx = Term{"(+ " + idx.S + " 1)", SInt}
		ex.loopIdxByOrd[ls.ord] = ls.idx
		ex.loopInvariants(ls, "inv-step", pos)
		ex.loops = ex.loops[:len(ex.loops)-1]
		ex.st = exitSt
		ls.idx = idx
		ex.loopIdxByOrd[ls.ord] = idx
	case *types.Map:
		if coll.Sort.Kind != KRef || !coll.Sort.IsMap {
			ex.unsupported = "range over opaque map at " + pos
			return
		}
		// ghost: the set of keys already visited (usable in invariants as seen(k)); every key of the entry domain is
		// visited exactly once, in an arbitrary order
		seenSort := &Sort{Name: "(Array " + coll.Sort.Key.Name + " Bool)", Kind: KOpaque}
		d0 := ex.heap(ex.st, coll.Sort.Dom)
		h0 := ex.heap(ex.st, coll.Sort.Heap)
		dom0 := ex.def("dom", Term{"(select " + d0.S + " " + coll.S + ")", seenSort})
		vals0 := ex.def("vals", Term{"(select " + h0.S + " " + coll.S + ")", &Sort{Name: "(Array " + coll.Sort.Key.Name + " " + coll.Sort.Elem.Name + ")", Kind: KOpaque}})
		seen := Term{"((as const " + seenSort.Name + ") false)", seenSort}
		ex.seenStack = append(ex.seenStack, seen)
		ex.loopInvariants(ls, "inv-init", pos)
		ex.havocLoop(x.Body)
		seen = ex.U.Fresh("seen", seenSort)
		ex.seenStack[len(ex.seenStack)-1] = seen
		// visited keys are keys of the entry domain
		ex.facts = append(ex.facts, "(forall ((k "+coll.Sort.Key.Name+")) (! (=> (select "+seen.S+" k) (select "+dom0.S+" k)) :pattern ((select "+seen.S+" k))))")
		ex.assumeInvariants(ls)
		k := ex.U.Fresh("k", coll.Sort.Key)
		more := And(Term{"(select " + dom0.S + " " + k.S + ")", SBool}, Not(Term{"(select " + seen.S + " " + k.S + ")", SBool}))
		bodySt, exitSt := ex.fork(more)
		ex.loops = append(ex.loops, ctx)
		ex.st = bodySt
		ex.fact(Not(Eq(coll, Term{"0", coll.Sort})))
		bind(x.Key, k, ut.Key())
		bind(x.Value, ex.wf(Term{"(select " + vals0.S + " " + k.S + ")", coll.Sort.Elem}), ut.Elem())
		ex.note("map range: keys of the entry domain visited once each in arbitrary order (ghost set seen)")
		ex.block(x.Body.List)
		for _, cs := range ctx.conts {
			ex.st = ex.merge(ex.st, cs)
		}
		ex.seenStack[len(ex.seenStack)-1] = Term{"(store " + seen.S + " " + k.S + " true)", seenSort}
		ex.loopInvariants(ls, "inv-step", pos)
		ex.loops = ex.loops[:len(ex.loops)-1]
		ex.st = exitSt
		// the loop ends when no unvisited key is left: `more` was false for the arbitrary k, hence for every key
		ex.rawFact(Implies(exitSt.pc, Term{"(forall ((k " + coll.Sort.Key.Name + ")) (! (=> (select " + dom0.S + " k) (select " + seen.S + " k)) :pattern ((select " + dom0.S + " k))))", SBool}).S)
		ex.seenStack[len(ex.seenStack)-1] = seen
		ex.seenFinal = seen
		ex.seenStack = ex.seenStack[:len(ex.seenStack)-1]
	case *types.Chan:
		ex.loopInvariants(ls, "inv-init", pos)
		ex.havocLoop(x.Body)
		// receiving changes the receive ghost counters
		ex.st.ghost["rxDone"] = ex.U.Fresh("rxDone", SInt)
		ex.assumeInvariants(ls)
		more := ex.U.Fresh("more", SBool)
		bodySt, exitSt := ex.fork(more)
		ex.loops = append(ex.loops, ctx)
		ex.st = bodySt
		ev := ex.U.Fresh("recv", ex.U.SortOf(ut.Elem()))
		bind(x.Key, ev, ut.Elem())
		ex.recvGhost(ev, ut.Elem())
		ex.block(x.Body.List)
		for _, cs := range ctx.conts {
			ex.st = ex.merge(ex.st, cs)
		}
		ex.loopInvariants(ls, "inv-step", pos)
		ex.loops = ex.loops[:len(ex.loops)-1]
		ex.st = exitSt
	case *types.Basic:
		// range over string: index and rune are opaque
		ex.loopInvariants(ls, "inv-init", pos)
		ex.havocLoop(x.Body)
		ex.assumeInvariants(ls)
		more := ex.U.Fresh("more", SBool)
		bodySt, exitSt := ex.fork(more)
		ex.loops = append(ex.loops, ctx)
		ex.st = bodySt
		i := ex.U.Fresh("i", SInt)
		ex.fact(And(Term{"(<= 0 " + i.S + ")", SBool}, Term{"(< " + i.S + " (str.len " + coll.S + "))", SBool}))
		bind(x.Key, i, types.Typ[types.Int])
		bind(x.Value, ex.U.Fresh("rune", SInt), types.Typ[types.Int32])
		ex.block(x.Body.List)
		for _, cs := range ctx.conts {
			ex.st = ex.merge(ex.st, cs)
		}
		ex.loopInvariants(ls, "inv-step", pos)
		ex.loops = ex.loops[:len(ex.loops)-1]
		ex.st = exitSt
	default:
		ex.unsupported = "range over " + shortTypeName(ct) + " at " + pos
		return
	}
	for _, b := range ctx.breaks {
		ex.st = ex.merge(ex.st, b)
	}
}

// storesThroughReference: the lvalue writes through a pointer or into a map (not into the variable's own value)
func (ex *Exec) storesThroughReference(e ast.Expr) bool {
	for {
		switch x := e.(type) {
		case *ast.ParenExpr:
			e = x.X
		case *ast.StarExpr:
			return true
		case *ast.SelectorExpr:
			if sel, ok := ex.info.Selections[x]; ok && sel.Indirect() {
				return true
			}
			e = x.X
		case *ast.IndexExpr:
			if t := ex.info.TypeOf(x.X); t != nil {
				if _, isMap := t.Underlying().(*types.Map); isMap {
					return true
				}
			}
			e = x.X
		default:
			return false
		}
	}
}

// isRecoverIdiom: func() { if r := recover(); r != nil { ... } }
func isRecoverIdiom(lit *ast.FuncLit) bool {
	if len(lit.Body.List) != 1 || len(lit.Type.Params.List) != 0 {
		return false
	}
	ifs, ok := lit.Body.List[0].(*ast.IfStmt)
	if !ok || ifs.Init == nil || ifs.Else != nil {
		return false
	}
	as, ok := ifs.Init.(*ast.AssignStmt)
	if !ok || len(as.Rhs) != 1 {
		return false
	}
	c, ok := as.Rhs[0].(*ast.CallExpr)
	if !ok {
		return false
	}
	id, ok := c.Fun.(*ast.Ident)
	return ok && id.Name == "recover"
}

// recovers: the function installs the recover idiom at the top level of its body
func recovers(body *ast.BlockStmt) bool {
	for _, s := range body.List {
		if d, ok := s.(*ast.DeferStmt); ok {
			if lit, ok := d.Call.Fun.(*ast.FuncLit); ok && isRecoverIdiom(lit) {
				return true
			}
		}
	}
	return false
}

// asRangeLoop: `for k := 0; k < len(E); k++ { body }` read as `for k := range E { body }` when the contract's loop at this
// position was written for a range loop (the loop was rewritten from the one form into the other). The two are the same loop
// when the body assigns neither k nor E; the binding is a guessed one: a failed proof over it is undecided, never a violation.
func (ex *Exec) asRangeLoop(x *ast.ForStmt) *ast.RangeStmt {
	c := ex.F.Contract
	if c == nil || len(ex.inlineStack) > 0 {
		return nil
	}
	lc := c.Loops[ex.loopOrd+1]
	if lc == nil || lc.seen || !reRangeHeader.MatchString(strings.TrimSpace(lc.Header)) {
		return nil
	}
	init, ok := x.Init.(*ast.AssignStmt)
	if !ok || init.Tok != token.DEFINE || len(init.Lhs) != 1 || len(init.Rhs) != 1 || exprString(init.Rhs[0]) != "0" {
		return nil
	}
	k, ok := init.Lhs[0].(*ast.Ident)
	if !ok {
		return nil
	}
	cond, ok := x.Cond.(*ast.BinaryExpr)
	if !ok || cond.Op != token.LSS || exprString(cond.X) != k.Name {
		return nil
	}
	call, ok := unparen(cond.Y).(*ast.CallExpr)
	if !ok || len(call.Args) != 1 || exprString(call.Fun) != "len" {
		return nil
	}
	coll := call.Args[0]
	if t := ex.info.TypeOf(coll); t == nil {
		return nil
	} else if _, isSlice := t.Underlying().(*types.Slice); !isSlice {
		return nil
	}
	post, ok := x.Post.(*ast.IncDecStmt)
	if !ok || post.Tok != token.INC || exprString(post.X) != k.Name {
		return nil
	}
	collText := exprString(coll)
	safe := true
	ast.Inspect(x.Body, func(n ast.Node) bool {
		switch y := n.(type) {
		case *ast.AssignStmt:
			for _, l := range y.Lhs {
				if t := exprString(l); t == k.Name || t == collText || strings.HasPrefix(collText, t+".") {
					safe = false
				}
			}
		case *ast.IncDecStmt:
			if exprString(y.X) == k.Name {
				safe = false
			}
		case *ast.UnaryExpr:
			if y.Op == token.AND && (exprString(y.X) == k.Name || exprString(y.X) == collText) {
				safe = false
			}
		case *ast.BranchStmt:
			// break / continue keep their meaning; goto does not occur
		}
		return true
	})
	if !safe {
		return nil
	}
	if ex.P.ApproxBind == nil {
		ex.P.ApproxBind = map[string][]string{}
	}
	ex.P.ApproxBind[ex.F.Name] = append(ex.P.ApproxBind[ex.F.Name], fmt.Sprintf("%s: the index loop `for %s := 0; %s < len(%s); %s++` is read as a range loop to bind the invariant written for %q", ex.F.Name, k.Name, k.Name, collText, k.Name, lc.Header))
	return &ast.RangeStmt{For: x.For, Key: k, Tok: token.ASSIGN, X: coll, Body: x.Body}
}
