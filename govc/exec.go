package main

// Symbolic executor: translates a function body from its typed AST into passive facts and named obligations.

import (
	"fmt"
	"go/ast"
	"go/constant"
	"go/token"
	"go/types"
	"sort"
	"strings"
)

type State struct {
	pc      Term
	vars    map[*types.Var]Term
	heaps   map[string]Term
	globals map[*types.Var]Term
	ghost   map[string]Term
}

func (s *State) clone() *State {
	n := &State{pc: s.pc, vars: make(map[*types.Var]Term, len(s.vars)), heaps: make(map[string]Term, len(s.heaps)),
		globals: make(map[*types.Var]Term, len(s.globals)), ghost: make(map[string]Term, len(s.ghost))}
	for k, v := range s.vars {
		n.vars[k] = v
	}
	for k, v := range s.heaps {
		n.heaps[k] = v
	}
	for k, v := range s.globals {
		n.globals[k] = v
	}
	for k, v := range s.ghost {
		n.ghost[k] = v
	}
	return n
}

func (s *State) dead() bool { return s.pc.S == "false" }

type Obligation struct {
	Name   string
	Kind   string // post pre inv-init inv-step safe decr cover ghost
	Tags   []string
	Goal   Term
	PC     Term
	NFacts int
	Text   string
	Pos    string
	Func   string
	// results
	Status string // discharged refuted unknown timeout error
	Solver string
	TimeMs int64
	Output string
	Model  string
	Expect string // "unsat" (default) or "sat" for cover obligations
	// Detached: asserted but not assumed afterwards (preconditions of interface contracts: the interface's ensures carry
	// the preconditions of their own tags as antecedents, so nothing else depends on the obligation)
	Detached bool
}

type GhostVar struct {
	Name string
	Sort *Sort
	Cat  string // alloc chan os
}

var ghostVars = []GhostVar{
	{"alloc", SInt, "alloc"},
	{"chanClosed", SInt, "chanclose"}, {"evOpen", SBool, "chan"}, {"evNext", SInt, "chan"}, {"evCur", SInt, "chan"}, {"evCount", SInt, "chan"},
	{"msClosed", SInt, "chanclose"}, {"msSent", SInt, "chan"}, {"rxDone", SInt, "chan"},
	// event times: evClock counts the readings of the (monotone, A-TIME) clock, evLastTime is the reading carried by the last
	// event sent. Global invariant evLastTime <= evClock: assumed at entry and after calls, re-established at every send, which
	// must carry a reading taken by time.Now (below evClock) and not older than the previous event's
	{"evClock", SInt, "clock"}, {"evLastTime", SInt, "chan"},
	{"opaRejected", SBool, "opa"}, {"opaEvaluated", SBool, "opaeval"}, {"ldRejected", SBool, "ld"},
	{"exitCode", SInt, "exit"}, {"panicking", SBool, "exit"}, {"stdout", SString, "stdout"}, {"fsContent", SString, "fs"}, {"fsExists", SBool, "fs"}, {"fsWritable", SBool, "const"}, {"fOffset", SInt, "fs"}, {"fAppend", SBool, "fs"}, {"fWr", SBool, "fs"},
}

type deferred struct {
	recoverLit *ast.FuncLit // the recover idiom in the CLI: its body runs on the panicking paths, which then return normally
	call       *ast.CallExpr
	args       []Term
	regPC      Term
}

type loopCtx struct {
	ordinal  int
	idx      Term // hidden index (range loops), else zero-sort Term
	hasIdx   bool
	breaks   []*State
	conts    []*State
	isSwitch bool
	label    string
}

type Exec struct {
	P            *Prog
	U            *Universe
	F            *FuncInfo
	info         *types.Info
	facts        []string
	obls         []*Obligation
	st           *State
	entry        *State
	names        map[string]*types.Var
	boxed        map[*types.Var]bool
	params       map[string]Term // entry values of parameters / receiver by name
	resVars      []*types.Var
	resNames     []string
	returns      []*State
	loops        []*loopCtx
	loopOrd      int
	loopIdxByOrd map[int]Term
	tag          string // property being checked ("" = all)
	safetyOn     bool
	notes        []string // abstractions used (havoc etc.)
	notesSet     map[string]bool
	unsupported  string
	safeCount    map[string]int
	preludes     []string
	callOrd      map[string]int
	ifaceClauses []*Clause // interface-contract ensures checked against this implementation
	ifaceRecv    string
	deferred     []*deferred
	inDefer      bool           // executing deferred calls at the function's exit
	recoverLits  []*ast.FuncLit // deferred recover idioms of a library function: a panic below becomes a return through their body
	// identifiers of loop contracts that were renamed in the code, recovered by aligning a contract loop's header with the
	// header of the loop it was bound to by position (for _, e := range v  ~  for _, element := range elementIds)
	loopRename    map[string]string
	loopExprAlias map[string]Term   // text of the expression a contract loop ranged over (v.body) -> the collection the code's loop ranges over
	paramAlias    map[string]string // parameter name used by the contract -> name of the parameter at that position in the code
	guessLoop     ast.Node          // loop whose invariants are being translated: a renamed accumulator is looked for among the locals it assigns
	loopAlias     map[string]Term   // a local of the contract that named the ranged-over collection, now written in place
	preArgs       []Term
	seenStack     []Term
	seenFinal     Term
	closures      map[*types.Var]*closure
	inlineStack   []string
	preludeSyms   map[string]bool
	preludeConsts map[string]*Sort
	preludeAxioms []PreludeItem
}

func (ex *Exec) note(s string) {
	if !ex.notesSet[s] {
		ex.notesSet[s] = true
		ex.notes = append(ex.notes, s)
	}
}

func (ex *Exec) fact(t Term) {
	if t.S == "true" {
		return
	}
	g := Implies(ex.st.pc, t)
	ex.facts = append(ex.facts, g.S)
}

func (ex *Exec) rawFact(s string) { ex.facts = append(ex.facts, s) }

func (ex *Exec) def(prefix string, t Term) Term {
	if len(t.S) < 40 {
		return t
	}
	c := ex.U.Fresh(prefix, t.Sort)
	ex.facts = append(ex.facts, app("=", c, t))
	return c
}

func (ex *Exec) assert(name, kind string, tags []string, goal Term, text string, pos string) {
	if ex.st.dead() {
		return
	}
	ob := &Obligation{Name: name, Kind: kind, Tags: tags, Goal: goal, PC: ex.st.pc, NFacts: len(ex.facts), Text: text, Pos: pos, Func: ex.F.Name, Expect: "unsat"}
	ex.obls = append(ex.obls, ob)
	ex.fact(goal) // assert; assume
}

func (ex *Exec) safe(kind string, goal Term, n ast.Node, text string) {
	if !ex.safetyOn {
		if len(ex.recoverLits) > 0 {
			// the function recovers panics: an operation that would panic leaves the normal path (the recovered-panic path
			// covers it); assuming its condition globally would exclude those inputs from the recovered path as well
			ex.pcAnd(ex.st, goal)
			return
		}
		ex.fact(goal)
		return
	}
	ex.safeCount[kind]++
	name := fmt.Sprintf("safe:%s#%s#%d", ex.F.Name, kind, ex.safeCount[kind])
	tags := []string{"C17"}
	if kind == "send-closed" || kind == "close-closed" {
		tags = append(tags, "C11")
	}
	if len(ex.recoverLits) > 0 && !ex.st.dead() {
		// asserted, then assumed on the normal path only (see above)
		ex.obls = append(ex.obls, &Obligation{Name: name, Kind: "safe", Tags: tags, Goal: goal, PC: ex.st.pc, NFacts: len(ex.facts), Text: text, Pos: ex.P.pos(n), Func: ex.F.Name, Expect: "unsat"})
		ex.pcAnd(ex.st, goal)
		return
	}
	ex.assert(name, "safe", tags, goal, text, ex.P.pos(n))
}

func (ex *Exec) kill() { ex.st.pc = TFalse }

// pcAnd strengthens the path condition, naming it to keep terms small
func (ex *Exec) pcAnd(st *State, c Term) {
	n := And(st.pc, c)
	if len(n.S) > 60 {
		k := ex.U.Fresh("pc", SBool)
		ex.facts = append(ex.facts, app("=", k, n))
		n = k
	}
	st.pc = n
}

func (ex *Exec) merge(a, b *State) *State {
	if a == nil || a.dead() {
		return b
	}
	if b == nil || b.dead() {
		return a
	}
	r := a.clone()
	r.pc = Or(a.pc, b.pc)
	if len(r.pc.S) > 60 {
		k := ex.U.Fresh("pc", SBool)
		ex.facts = append(ex.facts, app("=", k, r.pc))
		r.pc = k
	}
	mergeVal := func(name string, x, y Term) Term {
		if x.S == y.S {
			return x
		}
		m := ex.U.Fresh(name, x.Sort)
		ex.facts = append(ex.facts, app("=", m, Ite(a.pc, x, y)))
		return m
	}
	for k, x := range a.vars {
		if y, ok := b.vars[k]; ok {
			r.vars[k] = mergeVal(k.Name(), x, y)
		}
	}
	for k, y := range b.vars {
		if _, ok := a.vars[k]; !ok {
			r.vars[k] = y
		}
	}
	// a heap / global that one side never touched still has its entry value there
	for k, x := range a.heaps {
		if _, known := ex.U.heaps[k]; !known {
			continue // not a heap of this universe (an opaque pointer target): nothing to merge
		}
		r.heaps[k] = mergeVal(k, x, ex.heap(b, k))
	}
	for k, y := range b.heaps {
		if _, known := ex.U.heaps[k]; !known {
			continue
		}
		if _, ok := a.heaps[k]; !ok {
			r.heaps[k] = mergeVal(k, ex.heap(a, k), y)
		}
	}
	for k, x := range a.globals {
		r.globals[k] = mergeVal("G_"+k.Name(), x, ex.global(b, k))
	}
	for k, y := range b.globals {
		if _, ok := a.globals[k]; !ok {
			r.globals[k] = mergeVal("G_"+k.Name(), ex.global(a, k), y)
		}
	}
	for k, x := range a.ghost {
		r.ghost[k] = mergeVal(k, x, b.ghost[k])
	}
	return r
}

// --- heaps / globals / ghost --------------------------------------------------------------------

func (ex *Exec) heapSort(name string) *Sort {
	return &Sort{Name: ex.U.heaps[name], Kind: KOpaque}
}

func (ex *Exec) heap(st *State, name string) Term {
	if t, ok := st.heaps[name]; ok {
		return t
	}
	// first use: the heap has its entry value on every path (states share the entry symbol)
	t := ex.U.DeclareConst(name+"@pre", ex.heapSort(name))
	ex.initHeapFacts(name, t)
	ex.entryHeapFacts(name, t)
	st.heaps[name] = t
	if ex.entry != nil {
		if _, ok := ex.entry.heaps[name]; !ok {
			ex.entry.heaps[name] = t
		}
	}
	return t
}

// entryHeapFacts: closedness of the heap at function entry for cells that hold references
func (ex *Exec) entryHeapFacts(name string, t Term) {
	if strings.HasPrefix(name, "H_") && ex.U.heaps[name] == "(Array Int Int)" {
		ex.facts = append(ex.facts, fmt.Sprintf("(forall ((r Int)) (! (and (>= (select %s r) 0) (<= (select %s r) alloc@pre)) :pattern ((select %s r))))", t.S, t.S, t.S))
	}
}

// yamlTreeFacts (A-YAML-TREE): the children listed in a yaml.v3 node are non-nil, allocated nodes
func (ex *Exec) yamlTreeFacts(name string, t Term) {
	if name != "H_yaml_Node" {
		return
	}
	ex.facts = append(ex.facts, fmt.Sprintf("(forall ((r Int) (j Int)) (! (=> (and (<= 0 j) (< j (len_RH_yaml_Node (|S_yaml_Node.Content| (select %s r))))) (> (at_RH_yaml_Node (|S_yaml_Node.Content| (select %s r)) j) 0)) :pattern ((at_RH_yaml_Node (|S_yaml_Node.Content| (select %s r)) j))))", t.S, t.S, t.S))
	ex.note("yaml.v3 node trees: every entry of a node's Content is a non-nil node (A-YAML-TREE)")
}

func (ex *Exec) initHeapFacts(name string, t Term) {
	ex.yamlTreeFacts(name, t)
	if strings.HasPrefix(name, "MD_") {
		// the nil map has an empty domain
		s := ex.U.heaps[name] // (Array Int (Array K Bool))
		inner := s[len("(Array Int ") : len(s)-1]
		ex.facts = append(ex.facts, fmt.Sprintf("(= (select %s 0) ((as const %s) false))", t.S, inner))
	}
}

func (ex *Exec) havocHeap(name string) {
	if _, ok := ex.U.heaps[name]; !ok {
		return
	}
	ex.heap(ex.st, name) // make sure the entry symbol exists first
	t := ex.U.Fresh(name, ex.heapSort(name))
	ex.initHeapFacts(name, t)
	ex.st.heaps[name] = t
}

func (ex *Exec) global(st *State, v *types.Var) Term {
	if t, ok := st.globals[v]; ok {
		return t
	}
	t := ex.U.DeclareConst("G_"+v.Pkg().Name()+"_"+v.Name()+"@pre", ex.U.SortOf(v.Type()))
	if t.Sort.Kind == KRef {
		// a reference held by a package-level variable at entry is an allocated one
		f := "(and (>= " + t.S + " 0) (<= " + t.S + " alloc@pre))"
		dup := false
		for _, x := range ex.facts {
			if x == f {
				dup = true
			}
		}
		if !dup {
			ex.facts = append(ex.facts, f)
		}
	}
	st.globals[v] = t
	if ex.entry != nil {
		if _, ok := ex.entry.globals[v]; !ok {
			ex.entry.globals[v] = t
		}
	}
	return t
}

func sel(a, i Term) string      { return "(select " + a.S + " " + i.S + ")" }
func store(a, i, v Term) string { return "(store " + a.S + " " + i.S + " " + v.S + ")" }

func (ex *Exec) loadPtr(ps *Sort, p Term) Term {
	h := ex.heap(ex.st, ps.Heap)
	return ex.wf(Term{sel(h, p), ps.Elem})
}

// wf: a reference read from memory is an allocated one (memory safety of Go: closedness of the heap)
func (ex *Exec) wf(t Term) Term {
	if t.Sort.Kind == KRef && ex.safetyOn {
		a := ex.st.ghost["alloc"]
		ex.fact(And(Term{"(>= " + t.S + " 0)", SBool}, Term{"(<= " + t.S + " " + a.S + ")", SBool}))
	}
	return t
}

func (ex *Exec) storePtr(ps *Sort, p, v Term) {
	h := ex.heap(ex.st, ps.Heap)
	n := Term{store(h, p, v), h.Sort}
	ex.st.heaps[ps.Heap] = ex.def(ps.Heap, n)
}

func (ex *Exec) mapGet(ms *Sort, m, k Term) (Term, Term) {
	h := ex.heap(ex.st, ms.Heap)
	d := ex.heap(ex.st, ms.Dom)
	has := Term{"(select (select " + d.S + " " + m.S + ") " + k.S + ")", SBool}
	val := Term{"(select (select " + h.S + " " + m.S + ") " + k.S + ")", ms.Elem}
	return Ite(has, val, ex.U.Zero(ms.Elem)), has
}

func (ex *Exec) mapSet(ms *Sort, m, k, v Term) {
	h := ex.heap(ex.st, ms.Heap)
	d := ex.heap(ex.st, ms.Dom)
	nh := Term{"(store " + h.S + " " + m.S + " (store (select " + h.S + " " + m.S + ") " + k.S + " " + v.S + "))", h.Sort}
	nd := Term{"(store " + d.S + " " + m.S + " (store (select " + d.S + " " + m.S + ") " + k.S + " true))", d.Sort}
	ex.st.heaps[ms.Heap] = ex.def(ms.Heap, nh)
	ex.st.heaps[ms.Dom] = ex.def(ms.Dom, nd)
}

func (ex *Exec) allocRef() Term {
	a := ex.st.ghost["alloc"]
	r := ex.U.Fresh("ref", SInt)
	ex.facts = append(ex.facts, fmt.Sprintf("(= %s (+ %s 1))", r.S, a.S))
	ex.st.ghost["alloc"] = r
	return r
}

func (ex *Exec) newMap(ms *Sort) Term {
	r := ex.allocRef()
	d := ex.heap(ex.st, ms.Dom)
	s := ex.U.heaps[ms.Dom]
	inner := s[len("(Array Int ") : len(s)-1]
	nd := Term{"(store " + d.S + " " + r.S + " ((as const " + inner + ") false))", d.Sort}
	ex.st.heaps[ms.Dom] = ex.def(ms.Dom, nd)
	ex.heap(ex.st, ms.Heap)
	return Term{r.S, ms}
}

// --- variables ------------------------------------------------------------------------------------

func (ex *Exec) declare(v *types.Var, val Term) {
	if v == nil || v.Name() == "_" {
		return
	}
	ex.names[v.Name()] = v
	if ex.boxed[v] {
		ps := ex.U.SortOf(types.NewPointer(v.Type()))
		r := ex.allocRef()
		ex.st.vars[v] = Term{r.S, ps}
		ex.storePtr(ps, Term{r.S, ps}, val)
		return
	}
	ex.st.vars[v] = val
}

func (ex *Exec) readVar(v *types.Var) Term {
	if isPkgLevel(v) {
		return ex.global(ex.st, v)
	}
	t, ok := ex.st.vars[v]
	if !ok {
		// variable not seen (captured by a closure, or declared in a skipped construct)
		t = ex.U.Fresh(v.Name(), ex.U.SortOf(v.Type()))
		if ex.boxed[v] {
			ps := ex.U.SortOf(types.NewPointer(v.Type()))
			t = Term{t.S, ps}
		}
		ex.st.vars[v] = t
	}
	if ex.boxed[v] {
		return ex.loadPtr(t.Sort, t)
	}
	return t
}

func (ex *Exec) writeVar(v *types.Var, val Term) {
	if v == nil || v.Name() == "_" {
		return
	}
	if isPkgLevel(v) {
		ex.st.globals[v] = ex.def("G_"+v.Name(), val)
		return
	}
	if ex.boxed[v] {
		ref, ok := ex.st.vars[v]
		if !ok {
			ex.declare(v, val)
			return
		}
		ex.storePtr(ref.Sort, ref, val)
		return
	}
	ex.st.vars[v] = ex.def(v.Name(), val)
}

// coerce converts a value of static Go type from to static type to (interface boxing)
func (ex *Exec) coerce(x Term, from, to types.Type) Term {
	if to == nil || from == nil {
		return x
	}
	ts := ex.U.SortOf(to)
	if x.S == "nilAny" && ts.Kind != KAny {
		return ex.U.Zero(ts)
	}
	if ts.Kind == KAny && x.Sort.Kind != KAny {
		if b, ok := from.(*types.Basic); ok && b.Kind() == types.UntypedNil {
			return Term{"nilAny", SAny}
		}
		from = types.Default(from)
		return ex.U.Box(from, x)
	}
	if ts.Kind == KAny && x.S == "0" && x.Sort.Kind == KAny {
		return Term{"nilAny", SAny}
	}
	if ts != x.Sort && ts.Name == x.Sort.Name {
		return Term{x.S, ts}
	}
	if ts.Name == "Float" && x.Sort.Kind == KInt {
		// an integer constant used as a float64: floats are opaque, the conversion is an uninterpreted function
		f := ex.U.DeclareFun("floatOfInt", []*Sort{SInt}, ts)
		return Term{app(f.Name, x), ts}
	}
	if ts.Kind == KStruct && x.Sort.Kind == KStruct && ts != x.Sort && len(ts.Fields) == len(x.Sort.Fields) {
		// conversion between struct types with identical underlying types
		var vals []Term
		for i, f := range x.Sort.Fields {
			_ = i
			vals = append(vals, ex.U.FieldGet(x, f))
		}
		return ex.U.MkStruct(ts, vals)
	}
	return x
}

// --- expressions -------------------------------------------------------------------------------------

func (ex *Exec) constTerm(tv types.TypeAndValue) (Term, bool) {
	if tv.Value == nil {
		return Term{}, false
	}
	switch tv.Value.Kind() {
	case constant.Bool:
		if constant.BoolVal(tv.Value) {
			return TTrue, true
		}
		return TFalse, true
	case constant.Int:
		n, ok := constant.Int64Val(tv.Value)
		if !ok {
			return Term{}, false
		}
		s := ex.U.SortOf(tv.Type)
		if s.Kind != KInt {
			return Term{}, false
		}
		return IntLit(n), true
	case constant.String:
		s := ex.U.SortOf(tv.Type)
		if s.Kind != KString {
			return Term{}, false
		}
		return StrLit(constant.StringVal(tv.Value)), true
	}
	return Term{}, false
}

func (ex *Exec) opaqueVal(e ast.Expr, why string) Term {
	t := ex.info.TypeOf(e)
	ex.note("havoc: " + why)
	if t == nil {
		return ex.U.Fresh("opaque", SAny)
	}
	if tup, ok := t.(*types.Tuple); ok && tup.Len() > 0 {
		t = tup.At(0).Type()
	}
	return ex.U.Fresh("opaque", ex.U.SortOf(t))
}

func (ex *Exec) expr(e ast.Expr) Term {
	t := ex.expr1(e)
	switch e.(type) {
	case *ast.Ident, *ast.SelectorExpr, *ast.IndexExpr, *ast.CallExpr:
		ex.closedWorld(t, ex.info.TypeOf(e))
	}
	return t
}

// closedWorld: a non-nil value of a repository interface type is one of the repository's implementations
func (ex *Exec) closedWorld(t Term, gt types.Type) {
	if t.Sort.Kind != KAny || gt == nil || !ex.safetyOn || t.S == "nilAny" {
		return
	}
	if tup, ok := gt.(*types.Tuple); ok {
		if tup.Len() == 0 {
			return
		}
		gt = tup.At(0).Type()
	}
	it, ok := types.Unalias(gt).Underlying().(*types.Interface)
	if !ok || it.NumMethods() == 0 {
		return
	}
	n, ok := types.Unalias(gt).(*types.Named)
	if !ok || n.Obj().Pkg() == nil || !strings.HasPrefix(n.Obj().Pkg().Path(), repoMod) {
		return
	}
	key := "cw:" + t.S
	if len(t.S) > 80 || ex.notesSet[key] {
		return
	}
	ex.notesSet[key] = true
	ex.fact(Or(Eq(t, Term{"nilAny", SAny}), ex.U.IsType(t, gt)))
}

func (ex *Exec) expr1(e ast.Expr) Term {
	if tv, ok := ex.info.Types[e]; ok && tv.Value != nil {
		if t, ok := ex.constTerm(tv); ok {
			return t
		}
	}
	switch x := e.(type) {
	case *ast.ParenExpr:
		return ex.expr(x.X)
	case *ast.BasicLit:
		return ex.opaqueVal(e, "literal "+x.Value)
	case *ast.Ident:
		switch o := ex.info.Uses[x].(type) {
		case *types.Var:
			return ex.readVar(o)
		case *types.Nil:
			return ex.U.Zero(ex.U.SortOf(ex.info.TypeOf(e)))
		case *types.Const:
			if t, ok := ex.constTerm(types.TypeAndValue{Type: o.Type(), Value: o.Val()}); ok {
				return t
			}
		case *types.Func:
			return ex.U.DeclareConst("fn_"+sanitize(qualName(o)), ex.U.SortOf(o.Type()))
		}
		if x.Name == "nil" {
			return ex.U.Zero(ex.U.SortOf(ex.info.TypeOf(e)))
		}
		if v, ok := ex.info.Defs[x].(*types.Var); ok {
			return ex.readVar(v)
		}
		return ex.opaqueVal(e, "identifier "+x.Name)
	case *ast.SelectorExpr:
		return ex.selector(x)
	case *ast.StarExpr:
		p := ex.expr(x.X)
		if p.Sort.Kind != KRef {
			return ex.opaqueVal(e, "deref of non-ref")
		}
		ex.safe("nil-deref", Not(Eq(p, Term{"0", p.Sort})), e, "*"+exprString(x.X))
		return ex.loadPtr(p.Sort, p)
	case *ast.UnaryExpr:
		switch x.Op {
		case token.NOT:
			return Not(ex.expr(x.X))
		case token.SUB:
			v := ex.expr(x.X)
			if v.Sort.Kind == KInt {
				return Term{"(- " + v.S + ")", SInt}
			}
			return ex.opaqueVal(e, "negation of non-int")
		case token.ADD:
			return ex.expr(x.X)
		case token.AND:
			return ex.addrOf(x)
		case token.ARROW:
			return ex.opaqueVal(e, "channel receive")
		}
	case *ast.BinaryExpr:
		return ex.binary(x)
	case *ast.CallExpr:
		rs := ex.call(x)
		if len(rs) == 0 {
			return ex.opaqueVal(e, "void call used as value")
		}
		return rs[0]
	case *ast.IndexExpr:
		return ex.index(x)
	case *ast.SliceExpr:
		return ex.sliceExpr(x)
	case *ast.CompositeLit:
		return ex.composite(x)
	case *ast.TypeAssertExpr:
		v := ex.expr(x.X)
		t := ex.info.TypeOf(x.Type)
		if v.Sort.Kind != KAny {
			return ex.opaqueVal(e, "type assertion on non-interface")
		}
		ex.safe("typeassert", ex.U.IsType(v, t), e, exprString(e))
		if ex.U.SortOf(t).Kind == KAny {
			return v
		}
		return ex.wf(ex.U.Unbox(t, v))
	case *ast.FuncLit:
		ex.note("closure value is opaque: " + ex.P.pos(x))
		return ex.U.Fresh("closure", ex.U.SortOf(ex.info.TypeOf(e)))
	case *ast.KeyValueExpr:
	}
	return ex.opaqueVal(e, fmt.Sprintf("unsupported expression %T", e))
}

func (ex *Exec) addrOf(x *ast.UnaryExpr) Term {
	ps := ex.U.SortOf(ex.info.TypeOf(x))
	target := x.X
	if se, ok := target.(*ast.SelectorExpr); ok {
		if _, isSel := ex.info.Selections[se]; !isSel {
			target = se.Sel // qualified identifier pkg.Var
		}
	}
	switch t := target.(type) {
	case *ast.Ident:
		if v, ok := ex.info.Uses[t].(*types.Var); ok {
			if ex.boxed[v] {
				if r, ok := ex.st.vars[v]; ok {
					return r
				}
				// declared without value yet
				ex.declare(v, ex.U.Zero(ex.U.SortOf(v.Type())))
				return ex.st.vars[v]
			}
			if isPkgLevel(v) {
				// the address of a package-level variable: a fixed, allocated cell that holds the variable's value
				a := ex.U.DeclareConst("addr_"+v.Pkg().Name()+"_"+v.Name(), ps)
				ex.fact(And(Term{"(> " + a.S + " 0)", SBool}, Term{"(<= " + a.S + " alloc@pre)", SBool}))
				ex.fact(Eq(ex.loadPtr(ps, a), ex.global(ex.st, v)))
				ex.note("address of package-level variable " + v.Name() + ": the cell is assumed to hold the variable's current value")
				return a
			}
		}
	case *ast.CompositeLit:
		val := ex.composite(t)
		r := ex.allocRef()
		ref := Term{r.S, ps}
		ex.storePtr(ps, ref, val)
		return ref
	case *ast.ParenExpr:
		return ex.addrOf(&ast.UnaryExpr{Op: token.AND, X: t.X, OpPos: x.OpPos})
	}
	ex.note("havoc: address of " + exprString(x.X))
	r := ex.U.Fresh("addr", ps)
	ex.fact(Term{"(> " + r.S + " 0)", SBool})
	return r
}

func (ex *Exec) binary(x *ast.BinaryExpr) Term {
	switch x.Op {
	case token.LAND, token.LOR:
		a := ex.expr(x.X)
		// evaluate the right operand under its guard (safety obligations inside get the guard)
		saved := ex.st.pc
		if x.Op == token.LAND {
			ex.pcAnd(ex.st, a)
		} else {
			ex.pcAnd(ex.st, Not(a))
		}
		b := ex.expr(x.Y)
		ex.st.pc = saved
		if x.Op == token.LAND {
			return And(a, b)
		}
		return Or(a, b)
	}
	a := ex.expr(x.X)
	b := ex.expr(x.Y)
	ta, tb := ex.info.TypeOf(x.X), ex.info.TypeOf(x.Y)
	// comparisons between interface and concrete values
	if x.Op == token.EQL || x.Op == token.NEQ {
		// comparison with the nil literal: nil of the other operand's type
		if b.S == "nilAny" && a.Sort.Kind != KAny {
			b = ex.U.Zero(a.Sort)
		} else if a.S == "nilAny" && b.Sort.Kind != KAny {
			a = ex.U.Zero(b.Sort)
		}
		if a.Sort.Kind == KAny && b.Sort.Kind != KAny {
			b = ex.coerce(b, tb, ta)
		} else if b.Sort.Kind == KAny && a.Sort.Kind != KAny {
			a = ex.coerce(a, ta, tb)
		}
		var r Term
		if a.Sort.Kind == KSeq || a.Sort.Kind == KOpaque && a.Sort.Name != "Int" && (a.S == "0" || b.S == "0") {
			// slice == nil : not modelled precisely
			if a.Sort.Kind == KSeq {
				ex.note("slice nil-comparison abstracted to len==0 implication")
				other := a
				if strings.HasPrefix(a.S, "empty_") {
					other = b
				}
				isnil := ex.U.Fresh("isnil", SBool)
				ex.fact(Implies(isnil, Eq(ex.U.SeqLen(other), IntLit(0))))
				r = isnil
			} else {
				r = ex.U.Fresh("cmp", SBool)
			}
		} else {
			r = Eq(a, b)
		}
		if x.Op == token.NEQ {
			return Not(r)
		}
		return r
	}
	switch a.Sort.Kind {
	case KInt:
		op := map[token.Token]string{token.ADD: "+", token.SUB: "-", token.MUL: "*", token.LSS: "<", token.LEQ: "<=", token.GTR: ">", token.GEQ: ">="}[x.Op]
		if op != "" {
			s := SInt
			if x.Op == token.LSS || x.Op == token.LEQ || x.Op == token.GTR || x.Op == token.GEQ {
				s = SBool
			}
			return Term{app(op, a, b), s}
		}
		if x.Op == token.QUO || x.Op == token.REM {
			ex.safe("div0", Not(Eq(b, IntLit(0))), x, exprString(x))
			// Go truncates toward zero; SMT div/mod are Euclidean. Exact for non-negative operands; otherwise opaque.
			ex.note("integer / and % interpreted for non-negative operands only")
			r := ex.U.Fresh("divmod", SInt)
			f := "div"
			if x.Op == token.REM {
				f = "mod"
			}
			ex.fact(Implies(And(Term{"(>= " + a.S + " 0)", SBool}, Term{"(> " + b.S + " 0)", SBool}), Eq(r, Term{app(f, a, b), SInt})))
			return r
		}
	case KString:
		switch x.Op {
		case token.ADD:
			return Term{app("str.++", a, b), SString}
		case token.LSS:
			return Term{app("str.<", a, b), SBool}
		case token.LEQ:
			return Term{app("str.<=", a, b), SBool}
		case token.GTR:
			return Term{app("str.<", b, a), SBool}
		case token.GEQ:
			return Term{app("str.<=", b, a), SBool}
		}
	}
	return ex.opaqueVal(x, "binary operator "+x.Op.String()+" on "+a.Sort.Name)
}

// fieldPath follows a selection path (embedded fields, implicit dereference)
func (ex *Exec) fieldPath(base Term, baseType types.Type, path []int, n ast.Node) (Term, types.Type) {
	cur, ct := base, baseType
	for _, i := range path {
		if p, ok := ct.Underlying().(*types.Pointer); ok {
			if cur.Sort.Kind != KRef {
				return ex.opaqueVal(n.(ast.Expr), "field of opaque pointer"), nil
			}
			ex.safe("nil-deref", Not(Eq(cur, Term{"0", cur.Sort})), n, exprString(n.(ast.Expr)))
			cur = ex.loadPtr(cur.Sort, cur)
			ct = p.Elem()
		}
		st, ok := ct.Underlying().(*types.Struct)
		if !ok || cur.Sort.Kind != KStruct {
			return ex.opaqueVal(n.(ast.Expr), "field of opaque struct "+shortTypeName(ct)), nil
		}
		f := st.Field(i)
		cur = ex.wf(ex.U.FieldGet(cur, cur.Sort.Fields[i]))
		ct = f.Type()
	}
	return cur, ct
}

func (ex *Exec) selector(x *ast.SelectorExpr) Term {
	s, ok := ex.info.Selections[x]
	if !ok {
		// qualified identifier
		switch o := ex.info.Uses[x.Sel].(type) {
		case *types.Var:
			return ex.readVar(o)
		case *types.Const:
			if t, ok := ex.constTerm(types.TypeAndValue{Type: o.Type(), Value: o.Val()}); ok {
				return t
			}
		case *types.Func:
			return ex.U.DeclareConst("fn_"+sanitize(qualName(o)), ex.U.SortOf(o.Type()))
		}
		return ex.opaqueVal(x, "qualified identifier "+exprString(x))
	}
	switch s.Kind() {
	case types.FieldVal:
		base := ex.expr(x.X)
		r, _ := ex.fieldPath(base, ex.info.TypeOf(x.X), s.Index(), x)
		return r
	default:
		return ex.opaqueVal(x, "method value "+exprString(x))
	}
}

func (ex *Exec) index(x *ast.IndexExpr) Term {
	bt := ex.info.TypeOf(x.X)
	if bt == nil {
		return ex.opaqueVal(x, "index")
	}
	base := ex.expr(x.X)
	switch ut := bt.Underlying().(type) {
	case *types.Slice, *types.Array:
		i := ex.expr(x.Index)
		if base.Sort.Kind != KSeq {
			return ex.opaqueVal(x, "index of opaque slice")
		}
		ex.safe("index", And(Term{"(<= 0 " + i.S + ")", SBool}, Term{"(< " + i.S + " " + ex.U.SeqLen(base).S + ")", SBool}), x, exprString(x))
		return ex.wf(ex.U.SeqAt(base, i))
	case *types.Map:
		k := ex.expr(x.Index)
		k = ex.coerce(k, ex.info.TypeOf(x.Index), ut.Key())
		if base.Sort.Kind != KRef || !base.Sort.IsMap {
			return ex.opaqueVal(x, "index of opaque map")
		}
		v, _ := ex.mapGet(base.Sort, base, k)
		return ex.wf(v)
	case *types.Basic:
		i := ex.expr(x.Index)
		ex.safe("index", And(Term{"(<= 0 " + i.S + ")", SBool}, Term{"(< " + i.S + " (str.len " + base.S + "))", SBool}), x, exprString(x))
		return ex.opaqueVal(x, "string byte index")
	case *types.Pointer:
		_ = ut
	}
	return ex.opaqueVal(x, "index of "+shortTypeName(bt))
}

func (ex *Exec) sliceExpr(x *ast.SliceExpr) Term {
	base := ex.expr(x.X)
	var lo, hi Term
	if x.Low != nil {
		lo = ex.expr(x.Low)
	} else {
		lo = IntLit(0)
	}
	switch base.Sort.Kind {
	case KSeq:
		if x.High != nil {
			hi = ex.expr(x.High)
		} else {
			hi = ex.U.SeqLen(base)
		}
		ex.safe("slice", And(Term{"(<= 0 " + lo.S + ")", SBool}, Term{"(<= " + lo.S + " " + hi.S + ")", SBool}, Term{"(<= " + hi.S + " " + ex.U.SeqLen(base).S + ")", SBool}), x, exprString(x)+" (cap taken as len)")
		return ex.U.SeqSub(base, lo, hi)
	case KString:
		if x.High != nil {
			hi = ex.expr(x.High)
		} else {
			hi = Term{"(str.len " + base.S + ")", SInt}
		}
		ex.safe("slice", And(Term{"(<= 0 " + lo.S + ")", SBool}, Term{"(<= " + lo.S + " " + hi.S + ")", SBool}, Term{"(<= " + hi.S + " (str.len " + base.S + "))", SBool}), x, exprString(x))
		return Term{"(str.substr " + base.S + " " + lo.S + " (- " + hi.S + " " + lo.S + "))", SString}
	}
	return ex.opaqueVal(x, "slice of opaque")
}

func (ex *Exec) composite(x *ast.CompositeLit) Term {
	t := ex.info.TypeOf(x)
	s := ex.U.SortOf(t)
	switch ut := t.Underlying().(type) {
	case *types.Struct:
		if s.Kind != KStruct {
			return ex.opaqueVal(x, "composite of opaque struct")
		}
		vals := make([]Term, len(s.Fields))
		for i, f := range s.Fields {
			vals[i] = ex.U.Zero(f.Sort)
		}
		for i, el := range x.Elts {
			if kv, ok := el.(*ast.KeyValueExpr); ok {
				name := kv.Key.(*ast.Ident).Name
				for j := 0; j < ut.NumFields(); j++ {
					if ut.Field(j).Name() == name {
						vals[j] = ex.coerce(ex.expr(kv.Value), ex.info.TypeOf(kv.Value), ut.Field(j).Type())
					}
				}
			} else {
				vals[i] = ex.coerce(ex.expr(el), ex.info.TypeOf(el), ut.Field(i).Type())
			}
		}
		return ex.U.MkStruct(s, vals)
	case *types.Slice:
		if s.Kind != KSeq {
			return ex.opaqueVal(x, "composite slice")
		}
		cur := ex.U.SeqEmpty(s)
		for _, el := range x.Elts {
			var v Term
			if cl, ok := el.(*ast.CompositeLit); ok && cl.Type == nil {
				v = ex.composite(cl)
			} else {
				v = ex.coerce(ex.expr(el), ex.info.TypeOf(el), ut.Elem())
			}
			cur = ex.U.SeqSnoc(cur, v)
		}
		return ex.def("lit", cur)
	case *types.Map:
		m := ex.newMap(s)
		for _, el := range x.Elts {
			kv := el.(*ast.KeyValueExpr)
			k := ex.coerce(ex.expr(kv.Key), ex.info.TypeOf(kv.Key), ut.Key())
			var v Term
			if cl, ok := kv.Value.(*ast.CompositeLit); ok && cl.Type == nil {
				v = ex.composite(cl)
			} else {
				v = ex.coerce(ex.expr(kv.Value), ex.info.TypeOf(kv.Value), ut.Elem())
			}
			ex.mapSet(s, m, k, v)
		}
		return m
	}
	return ex.opaqueVal(x, "composite literal of "+shortTypeName(t))
}

// --- assignment ------------------------------------------------------------------------------------------

func (ex *Exec) assignTo(lhs ast.Expr, val Term, valType types.Type) {
	switch l := lhs.(type) {
	case *ast.ParenExpr:
		ex.assignTo(l.X, val, valType)
		return
	case *ast.Ident:
		if l.Name == "_" {
			return
		}
		var v *types.Var
		if d, ok := ex.info.Defs[l].(*types.Var); ok {
			v = d
			ex.declare(v, ex.coerce(val, valType, v.Type()))
			return
		}
		if u, ok := ex.info.Uses[l].(*types.Var); ok {
			v = u
			ex.writeVar(v, ex.coerce(val, valType, v.Type()))
			return
		}
	case *ast.StarExpr:
		p := ex.expr(l.X)
		if p.Sort.Kind == KRef && !p.Sort.IsMap {
			ex.safe("nil-deref", Not(Eq(p, Term{"0", p.Sort})), l, exprString(l))
			pt := ex.info.TypeOf(l.X).Underlying().(*types.Pointer)
			ex.storePtr(p.Sort, p, ex.coerce(val, valType, pt.Elem()))
			return
		}
	case *ast.SelectorExpr:
		s, ok := ex.info.Selections[l]
		if !ok {
			if v, ok := ex.info.Uses[l.Sel].(*types.Var); ok {
				ex.writeVar(v, ex.coerce(val, valType, v.Type()))
				return
			}
			break
		}
		if s.Kind() == types.FieldVal {
			val = ex.coerce(val, valType, s.Type())
			ex.updateField(l.X, ex.info.TypeOf(l.X), s.Index(), val, l)
			return
		}
	case *ast.IndexExpr:
		bt := ex.info.TypeOf(l.X)
		switch ut := bt.Underlying().(type) {
		case *types.Map:
			m := ex.expr(l.X)
			k := ex.coerce(ex.expr(l.Index), ex.info.TypeOf(l.Index), ut.Key())
			if m.Sort.Kind == KRef && m.Sort.IsMap {
				ex.safe("nilmap-write", Not(Eq(m, Term{"0", m.Sort})), l, exprString(l)+" = …")
				ex.mapSet(m.Sort, m, k, ex.coerce(val, valType, ut.Elem()))
				return
			}
		case *types.Slice:
			base := ex.expr(l.X)
			i := ex.expr(l.Index)
			if base.Sort.Kind == KSeq {
				ex.safe("index", And(Term{"(<= 0 " + i.S + ")", SBool}, Term{"(< " + i.S + " " + ex.U.SeqLen(base).S + ")", SBool}), l, exprString(l)+" = …")
				nv := ex.U.SeqUpd(base, i, ex.coerce(val, valType, ut.Elem()))
				ex.assignTo(l.X, nv, bt)
				return
			}
		}
	}
	ex.note("havoc: assignment to unsupported lvalue " + exprString(lhs))
}

// updateField performs base.path = val where base is an expression (functional update or heap store)
func (ex *Exec) updateField(baseExpr ast.Expr, baseType types.Type, path []int, val Term, n ast.Node) {
	base := ex.expr(baseExpr)
	if p, ok := baseType.Underlying().(*types.Pointer); ok {
		if base.Sort.Kind != KRef {
			ex.note("havoc: store through opaque pointer " + exprString(baseExpr))
			return
		}
		ex.safe("nil-deref", Not(Eq(base, Term{"0", base.Sort})), n, exprString(n.(ast.Expr)))
		cur := ex.loadPtr(base.Sort, base)
		nv := ex.setPath(cur, p.Elem(), path, val, n)
		ex.storePtr(base.Sort, base, nv)
		return
	}
	nv := ex.setPath(base, baseType, path, val, n)
	ex.assignTo(baseExpr, nv, baseType)
}

func (ex *Exec) setPath(cur Term, ct types.Type, path []int, val Term, n ast.Node) Term {
	if len(path) == 0 {
		return val
	}
	if cur.Sort.Kind != KStruct {
		ex.note("havoc: field update of opaque struct")
		return ex.U.Fresh("upd", cur.Sort)
	}
	st := ct.Underlying().(*types.Struct)
	f := cur.Sort.Fields[path[0]]
	ft := st.Field(path[0]).Type()
	if _, isPtr := ft.Underlying().(*types.Pointer); isPtr && len(path) > 1 {
		// embedded pointer: store through it
		p := ex.U.FieldGet(cur, f)
		inner := ex.loadPtr(p.Sort, p)
		nv := ex.setPath(inner, ft.Underlying().(*types.Pointer).Elem(), path[1:], val, n)
		ex.storePtr(p.Sort, p, nv)
		return cur
	}
	inner := ex.setPath(ex.U.FieldGet(cur, f), ft, path[1:], val, n)
	return ex.U.FieldSet(cur, f, inner)
}

// --- helper: sorted keys
func sortedKeys[V any](m map[string]V) []string {
	var ks []string
	for k := range m {
		ks = append(ks, k)
	}
	sort.Strings(ks)
	return ks
}
