package main

// C13: text that has already been emitted (the Rego lines of a generated result) contains quoted user data; rewriting it
// by substring substitution re-interprets that data. The obligation
//     esc:<func>#emitted-text-not-rewritten
// holds when every strings.Replace / strings.ReplaceAll / Regexp.ReplaceAll* applied to a line taken from a `Rego` / `rego`
// field of a generated result sits under a condition that restricts it to custom Rego code (X.Constraint == "rego"), the
// only constraint whose lines are code written by the profile author rather than data.

import (
	"fmt"
	"go/ast"
	"go/types"
	"strings"
)

func (p *Prog) escRewriteObligations(tags []string) []*Obligation {
	var obls []*Obligation
	for _, n := range p.Order {
		fi := p.Funcs[n]
		if fi.Pkg.Types.Name() != "generator" || fi.Body() == nil {
			continue
		}
		info := fi.Pkg.TypesInfo
		// locals that hold an emitted line: range values over a Rego/rego field, or elements indexed from one
		emitted := map[types.Object]bool{}
		isRegoField := func(e ast.Expr) bool {
			sel, ok := ast.Unparen(e).(*ast.SelectorExpr)
			return ok && (sel.Sel.Name == "Rego" || sel.Sel.Name == "rego")
		}
		ast.Inspect(fi.Body(), func(nd ast.Node) bool {
			switch s := nd.(type) {
			case *ast.RangeStmt:
				if isRegoField(s.X) && s.Value != nil {
					if id, ok := s.Value.(*ast.Ident); ok {
						if o := info.Defs[id]; o != nil {
							emitted[o] = true
						}
					}
				}
			case *ast.AssignStmt:
				for i, r := range s.Rhs {
					if ix, ok := ast.Unparen(r).(*ast.IndexExpr); ok && isRegoField(ix.X) && i < len(s.Lhs) {
						if id, ok := s.Lhs[i].(*ast.Ident); ok {
							if o := info.Defs[id]; o != nil {
								emitted[o] = true
							}
						}
					}
				}
			}
			return true
		})
		if len(emitted) == 0 {
			continue
		}
		var bad, seen []string
		var stack []ast.Node
		ast.Inspect(fi.Body(), func(nd ast.Node) bool {
			if nd == nil {
				stack = stack[:len(stack)-1]
				return true
			}
			stack = append(stack, nd)
			c, ok := nd.(*ast.CallExpr)
			if !ok {
				return true
			}
			fn := externalCallee(info, c)
			if fn == nil {
				return true
			}
			full := extFullName(fn)
			subj := -1
			switch {
			case full == "strings.ReplaceAll" || full == "strings.Replace" || full == "strings.NewReplacer":
				subj = 0
			case strings.HasPrefix(full, "regexp.Regexp.ReplaceAll"):
				subj = 0
			}
			if subj < 0 || subj >= len(c.Args) {
				return true
			}
			id, ok := ast.Unparen(c.Args[subj]).(*ast.Ident)
			if !ok || !emitted[info.Uses[id]] {
				return true
			}
			where := fmt.Sprintf("%s at %s", exprString(c), p.pos(c))
			seen = append(seen, where)
			guarded := false
			for i := len(stack) - 2; i >= 0; i-- {
				if ifs, isIf := stack[i].(*ast.IfStmt); isIf && i+1 < len(stack) && stack[i+1] == ast.Node(ifs.Body) {
					cond := exprString(ifs.Cond)
					if strings.Contains(cond, `.Constraint == "rego"`) {
						guarded = true
					}
				}
			}
			if !guarded {
				bad = append(bad, where+": an emitted line of any constraint is rewritten; a listed value or pattern containing the replaced text is re-interpreted")
			}
			return true
		})
		if len(seen) == 0 {
			continue
		}
		obls = append(obls, analysisObl("esc:"+n+"#emitted-text-not-rewritten", "esc", tags, len(bad) == 0,
			"substring substitution on emitted Rego lines is restricted to custom Rego code (Constraint == \"rego\"): "+strings.Join(seen, "; "),
			p.pos(fi.Body()), strings.Join(bad, "\n"), n))
	}
	return obls
}

// esc:<func>#format-is-constant : the format of every fmt.Sprintf / Fprintf / Printf / Errorf in the generator is a constant
// (a literal, a constant expression, or a local initialised with one); text derived from the profile only ever appears as an
// argument, so a percent sign in it is never read as a verb.
func (p *Prog) escFormatObligations(tags []string) []*Obligation {
	var obls []*Obligation
	for _, n := range p.Order {
		fi := p.Funcs[n]
		if fi.Pkg.Types.Name() != "generator" || fi.Body() == nil || strings.HasSuffix(fi.File, "_test.go") {
			continue
		}
		info := fi.Pkg.TypesInfo
		constLocal := map[types.Object]bool{}
		assigned := map[types.Object]int{}
		ast.Inspect(fi.Body(), func(nd ast.Node) bool {
			if as, ok := nd.(*ast.AssignStmt); ok && len(as.Lhs) == len(as.Rhs) {
				for i, l := range as.Lhs {
					if id, ok := l.(*ast.Ident); ok {
						o := info.Defs[id]
						if o == nil {
							o = info.Uses[id]
						}
						if o != nil {
							assigned[o]++
							if tv, ok := info.Types[as.Rhs[i]]; ok && tv.Value != nil {
								constLocal[o] = true
							} else {
								constLocal[o] = false
							}
						}
					}
				}
			}
			return true
		})
		var bad, seen []string
		ast.Inspect(fi.Body(), func(nd ast.Node) bool {
			c, ok := nd.(*ast.CallExpr)
			if !ok {
				return true
			}
			fn := externalCallee(info, c)
			if fn == nil || fn.Pkg() == nil || fn.Pkg().Path() != "fmt" {
				return true
			}
			fmtIdx := -1
			switch fn.Name() {
			case "Sprintf", "Printf", "Errorf":
				fmtIdx = 0
			case "Fprintf":
				fmtIdx = 1
			}
			if fmtIdx < 0 || fmtIdx >= len(c.Args) {
				return true
			}
			a := ast.Unparen(c.Args[fmtIdx])
			seen = append(seen, p.pos(c))
			if tv, ok := info.Types[a]; ok && tv.Value != nil {
				return true
			}
			if id, ok := a.(*ast.Ident); ok {
				if o := info.Uses[id]; o != nil && constLocal[o] && assigned[o] == 1 {
					return true
				}
			}
			bad = append(bad, fmt.Sprintf("%s at %s: the format is not a constant (%s); text of the profile inside it would be read as formatting verbs", fn.Name(), p.pos(c), exprString(a)))
			return true
		})
		if len(seen) == 0 {
			continue
		}
		obls = append(obls, analysisObl("esc:"+n+"#format-is-constant", "esc", tags, len(bad) == 0,
			fmt.Sprintf("the format of each of the %d fmt calls is a constant", len(seen)), p.pos(fi.Body()), strings.Join(bad, "\n"), n))
	}
	return obls
}
