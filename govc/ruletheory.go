package main

// Generated theory of rule values (used by spec/c01.smt2): for every repository type implementing profile.Rule
// the functions ruleNeg (its Negated flag), rulePos (the same rule with the flag cleared), ruleBody (operands of
// and/or/conditional) and the tag predicates are defined from the struct layout found in the working tree.

import (
	"fmt"
	"go/types"
	"strings"
)

// negPath finds the selector path to the field Negated through embedded structs
func negPath(s *Sort) []*Field {
	if f := s.FieldByName("Negated"); f != nil && f.Sort.Kind == KBool {
		return []*Field{f}
	}
	for _, f := range s.Fields {
		if f.Emb && f.Sort.Kind == KStruct {
			if p := negPath(f.Sort); p != nil {
				return append([]*Field{f}, p...)
			}
		}
	}
	return nil
}

func (ex *Exec) ruleTheory() error {
	U := ex.U
	rt, err := ex.P.ResolveType("profile.Rule")
	if err != nil {
		return err
	}
	impls := ex.P.Implementations(rt)
	seqAny := U.SeqOf(SAny)
	U.DeclareFun("ruleNeg", []*Sort{SAny}, SBool)
	U.DeclareFun("rulePos", []*Sort{SAny}, SAny)
	U.DeclareFun("ruleBody", []*Sort{SAny}, seqAny)
	U.DeclareFun("ruleValue", []*Sort{SAny}, SAny)
	for _, n := range []string{"ruleNeg", "rulePos", "ruleBody", "ruleValue"} {
		ex.preludeSyms[n] = true
	}
	var leafTags, allTags, valueTags []string
	tagOf := map[string]int{}
	for _, t := range impls {
		if _, isPtr := t.(*types.Pointer); isPtr {
			continue
		}
		s := U.SortOf(t)
		if s.Kind != KStruct {
			continue
		}
		name := U.boxName(t)
		tag := U.Tag(t)
		short := shortTypeName(t)
		tagOf[short] = tag
		allTags = append(allTags, fmt.Sprintf("(= (tagOf a) %d)", tag))
		np := negPath(s)
		if np == nil {
			continue
		}
		// selector and updater along the path
		get := "r"
		for _, f := range np {
			get = "(" + f.Sel + " " + get + ")"
		}
		var upd func(cur string, cs *Sort, path []*Field, v string) string
		upd = func(cur string, cs *Sort, path []*Field, v string) string {
			var args []string
			for _, g := range cs.Fields {
				if g == path[0] {
					if len(path) == 1 {
						args = append(args, v)
					} else {
						args = append(args, upd("("+g.Sel+" "+cur+")", g.Sort, path[1:], v))
					}
				} else {
					args = append(args, "("+g.Sel+" "+cur+")")
				}
			}
			return "(mk_" + cs.Name + " " + strings.Join(args, " ") + ")"
		}
		pos := upd("r", s, np, "false")
		ax := fmt.Sprintf("(assert (forall ((r %s)) (! (and (= (ruleNeg (box_%s r)) %s) (= (rulePos (box_%s r)) (box_%s %s))", s.Name, name, get, name, name, pos)
		if bf := s.FieldByName("Body"); bf != nil && bf.Sort == seqAny {
			ax += fmt.Sprintf(" (= (ruleBody (box_%s r)) (%s r))", name, bf.Sel)
		}
		hasValue := false
		if vf, ok := ex.tryFieldSort(s, "Value"); ok && vf.Sort.Kind == KAny {
			sel := "r"
			for _, f := range ex.fieldPathByName(s, "Value") {
				sel = "(" + f.Sel + " " + sel + ")"
			}
			ax += fmt.Sprintf(" (= (ruleValue (box_%s r)) %s)", name, sel)
			hasValue = true
		}
		if hasValue {
			valueTags = append(valueTags, fmt.Sprintf("(= (tagOf a) %d)", tag))
		}
		ax += fmt.Sprintf(") :pattern ((box_%s r)))))", name)
		ex.preludeAxioms = append(ex.preludeAxioms, PreludeItem{Kind: "assert", Text: ax, Syms: []string{"box_" + name, "ruleNeg", "rulePos", "ruleBody"}})
		ex.preludeSyms["box_"+name] = true
		switch short {
		case "profile.AndRule", "profile.OrRule", "profile.ConditionalRule":
		default:
			leafTags = append(leafTags, fmt.Sprintf("(= (tagOf a) %d)", tag))
		}
	}
	def := func(name, body string) {
		U.decls = append(U.decls, fmt.Sprintf("(define-fun %s ((a Any)) Bool %s)", name, body))
		U.funs[name] = &FunSig{name, []*Sort{SAny}, SBool}
		U.declSet[name] = true
	}
	tagEq := func(short string) string {
		if t, ok := tagOf[short]; ok {
			return fmt.Sprintf("(= (tagOf a) %d)", t)
		}
		return "false"
	}
	def("isAndRule", tagEq("profile.AndRule"))
	def("isOrRule", tagEq("profile.OrRule"))
	def("isCondRule", tagEq("profile.ConditionalRule"))
	def("isNestedRule", tagEq("profile.NestedExpression"))
	def("isLeafRule", "(or "+strings.Join(leafTags, " ")+" false)")
	def("isRule", "(or "+strings.Join(allTags, " ")+" false)")
	def("isValueRule", "(or "+strings.Join(valueTags, " ")+" false)")
	// generated results
	gt, err := ex.P.ResolveType("generator.SimpleRegoResult")
	if err == nil {
		U.SortOf(gt)
		U.boxName(gt)
		def("isSimpleResult", fmt.Sprintf("(= (tagOf a) %d)", U.Tag(gt)))
	}
	bt, err := ex.P.ResolveType("generator.BranchRegoResult")
	if err == nil {
		U.SortOf(bt)
		U.boxName(bt)
		def("isBranchResult", fmt.Sprintf("(= (tagOf a) %d)", U.Tag(bt)))
	}
	return nil
}

func (ex *Exec) fieldPathByName(s *Sort, name string) []*Field {
	if f := s.FieldByName(name); f != nil {
		return []*Field{f}
	}
	for _, f := range s.Fields {
		if f.Emb && f.Sort.Kind == KStruct {
			if p := ex.fieldPathByName(f.Sort, name); p != nil {
				return append([]*Field{f}, p...)
			}
		}
	}
	return nil
}

func (ex *Exec) tryFieldSort(s *Sort, name string) (*Field, bool) {
	p := ex.fieldPathByName(s, name)
	if p == nil {
		return nil, false
	}
	return p[len(p)-1], true
}
